// dir: kit
package kit

import (
	"encoding/json"
	"strings"
	"testing"

	"github.com/jsightapi/jsight-schema-core/fs"

	"github.com/jsightapi/jsight-api-core/catalog"
)

// c17DemoExport builds the project and exports it. ok is false when the build or
// the export returned an error value (which the property allows).
func c17DemoExport(t *testing.T, src string) (j JApi, doc map[string]any, raw []byte, ok bool) {
	t.Helper()
	j, je := NewJApiFromFile(fs.NewFile("root.jst", src))
	if je != nil {
		t.Logf("rejected by the build (fine): %s", je.Error())
		return j, nil, nil, false
	}
	raw, err := j.ToOpenAPIJson()
	if err != nil {
		t.Logf("export returned an error (fine): %v", err)
		return j, nil, nil, false
	}
	if e := json.Unmarshal(raw, &doc); e != nil {
		t.Fatalf("export is not a JSON document: %v", e)
	}
	return j, doc, raw, true
}

func c17DemoDanglingRefs(doc map[string]any) []string {
	comps := map[string]any{}
	if c, ok := doc["components"].(map[string]any); ok {
		if s, ok := c["schemas"].(map[string]any); ok {
			comps = s
		}
	}
	var bad []string
	var walk func(v any)
	walk = func(v any) {
		switch x := v.(type) {
		case map[string]any:
			for k, c := range x {
				if s, isStr := c.(string); k == "$ref" && isStr {
					const pre = "#/components/schemas/"
					if !strings.HasPrefix(s, pre) {
						bad = append(bad, s)
					} else if _, ok := comps[s[len(pre):]]; !ok {
						bad = append(bad, s)
					}
				}
				walk(c)
			}
		case []any:
			for _, c := range x {
				walk(c)
			}
		}
	}
	walk(doc)
	return bad
}

// Finding 1: a Path property that names an undefined user type in the `type` rule, in an
// object item of the `or` rule or in the `@a | @b` notation is accepted by the build, and the
// export contains a $ref which does not resolve to components.schemas.
func TestC17_PathUndefinedUserType_DanglingRef(t *testing.T) {
	cases := map[string]string{
		"type rule": "JSIGHT 0.3\nGET /a/{id}\n  Path\n  {\n    \"id\": 1 // {type: \"@zz\"}\n  }\n  200 any\n",
		"or object": "JSIGHT 0.3\nGET /a/{id}\n  Path\n  {\n    \"id\": 1 // {or: [{type: \"@zz\"}, {type: \"integer\"}]}\n  }\n  200 any\n",
		"or notation": "JSIGHT 0.3\nTYPE @t\n  1\nGET /a/{id}\n  Path\n  {\n    \"id\": @zz | @t\n  }\n  200 any\n",
	}
	for name, src := range cases {
		t.Run(name, func(t *testing.T) {
			_, doc, raw, ok := c17DemoExport(t, src)
			if !ok {
				return
			}
			if bad := c17DemoDanglingRefs(doc); len(bad) != 0 {
				t.Errorf("the export has $ref which do not resolve to components.schemas: %v\n%s", bad, raw)
			}
		})
	}
}

// Finding 2: paths which differ only in bytes that are not valid UTF-8 are different
// interactions of the catalog, but get the same key of "paths" in the export (duplicate
// JSON keys), so one of the interactions is not in the document.
func TestC17_InvalidUTF8Paths_InteractionLost(t *testing.T) {
	src := "JSIGHT 0.3\nGET /a/\xff\n  200 any\nPOST /a/\xfe\n  200 any\n"
	j, doc, raw, ok := c17DemoExport(t, src)
	if !ok {
		return
	}
	paths, _ := doc["paths"].(map[string]any)
	_ = j.Catalog().Interactions.Each(func(k catalog.InteractionID, v catalog.Interaction) error {
		hi, isHTTP := v.(*catalog.HTTPInteraction)
		if !isHTTP {
			return nil
		}
		// the key as any JSON reader gets it (invalid bytes become U+FFFD)
		kb, _ := json.Marshal(hi.Path().String())
		var key string
		_ = json.Unmarshal(kb, &key)
		method := strings.ToLower(hi.HttpMethod.String())

		pi, _ := paths[key].(map[string]any)
		if _, found := pi[method]; !found {
			t.Errorf("interaction %q is not in the export as paths[%q][%q]\n%s", hi.Id, key, method, raw)
		}
		return nil
	})
	if n := strings.Count(string(raw), `"/a/\ufffd":`); n > 1 {
		t.Errorf("the key \"/a/\\ufffd\" occurs %d times in \"paths\"", n)
	}
}
