// dir: kit
// No C05 violation was reproduced; this file holds the property checker and the grammar
// fuzz used during the search (it PASSES on the unmodified code).
package kit

import (
	"encoding/json"
	"fmt"
	"math/rand"
	"os"
	"path/filepath"
	"regexp"
	"sort"
	"strconv"
	"strings"
	"testing"
)

// huntBuild writes the files into a temp dir, builds root.jst and returns catalog JSON.
func huntBuild(t *testing.T, files map[string]string) ([]byte, error) {
	t.Helper()
	dir := t.TempDir()
	for n, c := range files {
		p := filepath.Join(dir, n)
		_ = os.MkdirAll(filepath.Dir(p), 0o755)
		if err := os.WriteFile(p, []byte(c), 0o644); err != nil {
			t.Fatal(err)
		}
	}
	j, je := NewJapi(filepath.Join(dir, "root.jst"))
	if je != nil {
		return nil, fmt.Errorf("build: %s (line %d)", je.Error(), je.Line)
	}
	b, err := j.ToJsonIndent()
	if err != nil {
		return nil, fmt.Errorf("tojson: %w", err)
	}
	return b, nil
}

var huntParamRe = regexp.MustCompile(`^\{(.*)\}$`)

// huntCheck returns the list of C05 violations in the catalog JSON.
func huntCheck(b []byte) []string {
	var bad []string
	var c map[string]any
	if err := json.Unmarshal(b, &c); err != nil {
		return []string{"json: " + err.Error()}
	}
	if c["jsight"] != "0.3" {
		bad = append(bad, fmt.Sprintf("jsight=%v", c["jsight"]))
	}
	types := map[string]bool{}
	if m, ok := c["userTypes"].(map[string]any); ok {
		for k := range m {
			types[k] = true
		}
	}
	enums := map[string]bool{}
	if m, ok := c["userEnums"].(map[string]any); ok {
		for k := range m {
			enums[k] = true
		}
	}
	// duplicate keys check (raw)
	bad = append(bad, huntDupKeys(b)...)

	tags := map[string]map[string]any{}
	var collect func(m map[string]any)
	collect = func(m map[string]any) {
		for k, v := range m {
			tm := v.(map[string]any)
			if tm["name"] != k {
				bad = append(bad, fmt.Sprintf("tag key %q name %v", k, tm["name"]))
			}
			if _, ok := tags[k]; ok {
				bad = append(bad, "duplicate tag "+k)
			}
			tags[k] = tm
			if ch, ok := tm["children"].(map[string]any); ok {
				collect(ch)
			}
		}
	}
	if m, ok := c["tags"].(map[string]any); ok {
		collect(m)
	}
	inter, _ := c["interactions"].(map[string]any)
	for k, v := range inter {
		im := v.(map[string]any)
		if im["id"] != k {
			bad = append(bad, fmt.Sprintf("key %q id %v", k, im["id"]))
		}
		proto, _ := im["protocol"].(string)
		path, _ := im["path"].(string)
		var meth string
		if proto == "http" {
			meth, _ = im["httpMethod"].(string)
		} else {
			meth, _ = im["method"].(string)
		}
		if k != proto+" "+meth+" "+path {
			bad = append(bad, fmt.Sprintf("key %q != %q", k, proto+" "+meth+" "+path))
		}
		tl, _ := im["tags"].([]any)
		if len(tl) == 0 {
			bad = append(bad, "interaction without tags "+k)
		}
		for _, tn := range tl {
			tm, ok := tags[tn.(string)]
			if !ok {
				bad = append(bad, fmt.Sprintf("interaction %q names undefined tag %v", k, tn))
				continue
			}
			n := 0
			for _, g := range tm["interactionGroups"].([]any) {
				gm := g.(map[string]any)
				for _, id := range gm["interactions"].([]any) {
					if id == k {
						if gm["protocol"] == proto {
							n++
						} else {
							bad = append(bad, fmt.Sprintf("%q under wrong protocol in tag %v", k, tn))
						}
					}
				}
			}
			if n != 1 {
				bad = append(bad, fmt.Sprintf("%q listed %d times in tag %v", k, n, tn))
			}
		}
		if proto == "http" {
			want := []string{}
			for _, seg := range strings.Split(path, "/") {
				if m := huntParamRe.FindStringSubmatch(seg); m != nil {
					want = append(want, m[1])
				}
			}
			got := []string{}
			if pv, ok := im["pathVariables"].(map[string]any); ok {
				sc := pv["schema"].(map[string]any)
				ct := sc["content"].(map[string]any)
				for _, ch := range ct["children"].([]any) {
					got = append(got, ch.(map[string]any)["key"].(string))
				}
			}
			sort.Strings(want)
			sort.Strings(got)
			if strings.Join(want, "\x00") != strings.Join(got, "\x00") {
				bad = append(bad, fmt.Sprintf("%q pathVariables %q want %q", k, got, want))
			}
			if rs, ok := im["responses"].([]any); ok {
				for _, r := range rs {
					rm := r.(map[string]any)
					code, _ := rm["code"].(string)
					n, err := strconv.Atoi(code)
					if err != nil || n < 100 || n > 599 || len(code) != 3 {
						bad = append(bad, fmt.Sprintf("%q bad code %q", k, code))
					}
					if rm["body"] == nil {
						bad = append(bad, fmt.Sprintf("%q response %s no body", k, code))
					}
				}
			}
		}
	}
	// reverse: tags -> interactions
	for tn, tm := range tags {
		for _, g := range tm["interactionGroups"].([]any) {
			gm := g.(map[string]any)
			for _, id := range gm["interactions"].([]any) {
				im, ok := inter[id.(string)].(map[string]any)
				if !ok {
					bad = append(bad, fmt.Sprintf("tag %s lists unknown interaction %v", tn, id))
					continue
				}
				if im["protocol"] != gm["protocol"] {
					bad = append(bad, fmt.Sprintf("tag %s lists %v under wrong protocol", tn, id))
				}
				found := 0
				for _, x := range im["tags"].([]any) {
					if x == tn {
						found++
					}
				}
				if found != 1 {
					bad = append(bad, fmt.Sprintf("tag %s lists %v but interaction names it %d times", tn, id, found))
				}
			}
		}
	}
	// used user types everywhere
	var walk func(v any)
	walk = func(v any) {
		switch x := v.(type) {
		case map[string]any:
			if l, ok := x["usedUserTypes"].([]any); ok {
				for _, n := range l {
					if !types[n.(string)] {
						bad = append(bad, fmt.Sprintf("usedUserTypes names undefined %v", n))
					}
				}
			}
			if l, ok := x["usedUserEnums"].([]any); ok {
				for _, n := range l {
					if !enums[n.(string)] {
						bad = append(bad, fmt.Sprintf("usedUserEnums names undefined %v", n))
					}
				}
			}
			for _, vv := range x {
				walk(vv)
			}
		case []any:
			for _, vv := range x {
				walk(vv)
			}
		}
	}
	walk(c)
	return bad
}

// huntDupKeys finds duplicate keys in any object of the JSON document.
func huntDupKeys(b []byte) []string {
	var bad []string
	dec := json.NewDecoder(strings.NewReader(string(b)))
	type frame struct {
		obj  bool
		keys map[string]bool
		key  bool
	}
	var st []*frame
	for {
		tok, err := dec.Token()
		if err != nil {
			break
		}
		top := func() *frame {
			if len(st) == 0 {
				return nil
			}
			return st[len(st)-1]
		}
		switch x := tok.(type) {
		case json.Delim:
			switch x {
			case '{':
				if f := top(); f != nil && f.obj {
					f.key = true
				}
				st = append(st, &frame{obj: true, keys: map[string]bool{}, key: true})
			case '[':
				if f := top(); f != nil && f.obj {
					f.key = true
				}
				st = append(st, &frame{})
			default:
				st = st[:len(st)-1]
			}
		default:
			f := top()
			if f != nil && f.obj {
				if f.key {
					s := x.(string)
					if f.keys[s] {
						bad = append(bad, "duplicate key "+s)
					}
					f.keys[s] = true
					f.key = false
				} else {
					f.key = true
				}
			}
		}
	}
	return bad
}

func huntRun(t *testing.T, name string, files map[string]string) {
	t.Helper()
	b, err := huntBuild(t, files)
	if err != nil {
		t.Logf("[%s] rejected: %v", name, err)
		return
	}
	bad := huntCheck(b)
	if len(bad) != 0 {
		t.Errorf("[%s] VIOLATIONS: %v\n%s", name, bad, b)
	} else {
		t.Logf("[%s] ok", name)
	}
}

func huntDoc(t *testing.T, name, doc string) {
	t.Helper()
	huntRun(t, name, map[string]string{"root.jst": doc})
}

type hgen struct {
	r  *rand.Rand
	sb strings.Builder
	nl string
}

func (g *hgen) pick(ss ...string) string { return ss[g.r.Intn(len(ss))] }
func (g *hgen) line(ind int, s string) {
	g.sb.WriteString(strings.Repeat("  ", ind) + s + g.nl)
}

var hsegs = []string{"a", "b", "{id}", "{x}", "{y}", "c", "", ".", "{id}.json", "a_b", "%41", "é", "{a-b}"}

func (g *hgen) path() string {
	n := 1 + g.r.Intn(4)
	p := ""
	used := map[string]bool{}
	for i := 0; i < n; i++ {
		sg := hsegs[g.r.Intn(len(hsegs))]
		if used[sg] && sg != "" && sg[0] == '{' {
			sg = "k"
		}
		used[sg] = true
		p += "/" + sg
	}
	if g.r.Intn(8) == 0 {
		p += "/"
	}
	if g.r.Intn(6) == 0 {
		return "\"" + p + "\""
	}
	return p
}

func (g *hgen) schema() string {
	return g.pick("any", "empty", "@t1", "@t2", "[@t1]", "@t3", "@r1")
}

func (g *hgen) inlineSchema(ind int) {
	switch g.r.Intn(6) {
	case 0:
		g.line(ind, "{")
		g.line(ind, "  \"a\": @t1, \"b\": 1")
		g.line(ind, "}")
	case 1:
		g.line(ind, "{ // {allOf: [\"@t1\", \"@t3\"]}")
		g.line(ind, "  \"zz\": @r1")
		g.line(ind, "}")
	case 2:
		g.line(ind, "{")
		g.line(ind, "  \"a\": 1 // {or: [\"@t2\", {type: \"@r1\"}]}")
		g.line(ind, "}")
	case 3:
		g.line(ind, "{")
		g.line(ind, "  @r1: 1,")
		g.line(ind, "  \"e\": 1 // {enum: @e1}")
		g.line(ind, "}")
	case 4:
		g.line(ind, "[@t1, @t2]")
	default:
		g.line(ind, "{} // {additionalProperties: \"@t3\"}")
	}
}

func (g *hgen) tagsLine(ind int) {
	if g.r.Intn(3) == 0 {
		n := 1 + g.r.Intn(3)
		s := "Tags"
		for i := 0; i < n; i++ {
			s += " " + g.pick("@g1", "@g2", "@a", "@_", "@g3", "@b")
		}
		g.line(ind, s)
	}
}

func (g *hgen) pathDir(ind int, p string) {
	if g.r.Intn(3) != 0 {
		return
	}
	var props []string
	for _, seg := range strings.Split(strings.Trim(p, "\""), "/") {
		if len(seg) > 2 && seg[0] == '{' && seg[len(seg)-1] == '}' && g.r.Intn(3) != 0 {
			props = append(props, fmt.Sprintf("\"%s\": %s", seg[1:len(seg)-1], g.pick("1", "\"s\"", "@r1", "@t2", "true")))
		}
	}
	if len(props) == 0 {
		return
	}
	g.line(ind, "Path")
	g.line(ind, "{"+strings.Join(props, ", ")+"}")
}

func (g *hgen) method(ind int, p string, inMacro bool) {
	m := g.pick("GET", "POST", "PUT", "PATCH", "DELETE")
	if p != "" {
		g.line(ind, m+" "+p+g.pick("", " // note", ""))
	} else {
		g.line(ind, m+g.pick("", " // note"))
	}
	if !inMacro || g.r.Intn(2) == 0 {
		g.tagsLine(ind + 1)
	}
	if g.r.Intn(4) == 0 {
		g.line(ind+1, "Description")
		g.line(ind+2, "text")
	}
	if p != "" {
		g.pathDir(ind+1, p)
	}
	if g.r.Intn(4) == 0 {
		g.line(ind+1, "Query \"a=1\"")
		g.line(ind+2, "{\"a\": 1}")
	}
	if g.r.Intn(4) == 0 {
		switch g.r.Intn(3) {
		case 0:
			g.line(ind+1, "Request "+g.schema())
		case 1:
			g.line(ind+1, "Request")
			g.inlineSchema(ind + 2)
		default:
			g.line(ind+1, "Request")
			g.line(ind+2, "Headers")
			g.line(ind+3, "{\"h\": @r1}")
			g.line(ind+2, "Body "+g.schema())
		}
	}
	if g.r.Intn(5) == 0 && !inMacro {
		g.line(ind+1, "PASTE "+g.pick("@mresp", "@mresp2"))
	}
	n := g.r.Intn(3)
	for i := 0; i < n; i++ {
		code := g.pick("200", "201", "404", "500", "100", "599", "301")
		switch g.r.Intn(4) {
		case 0:
			g.line(ind+1, code+" "+g.schema()+g.pick("", " // ann"))
		case 1:
			g.line(ind+1, code)
			g.inlineSchema(ind + 2)
		case 2:
			g.line(ind+1, code)
			g.line(ind+2, "Headers")
			g.line(ind+3, "{\"h\": 1}")
			g.line(ind+2, "Body "+g.schema())
		default:
			g.line(ind+1, code)
			g.line(ind+2, "Body")
			g.inlineSchema(ind + 3)
		}
	}
}

func (g *hgen) url(ind int, inMacro bool) {
	p := g.path()
	g.line(ind, "URL "+p)
	if g.r.Intn(4) == 0 && !inMacro {
		// json-rpc
		g.line(ind+1, "Protocol json-rpc-2.0")
		n := 1 + g.r.Intn(3)
		for i := 0; i < n; i++ {
			g.line(ind+1, "Method "+g.pick("foo", "bar", "\"a b\"", "GET", "é")+g.pick("", " // ann"))
			g.tagsLine(ind + 2)
			if g.r.Intn(2) == 0 {
				g.line(ind+2, "Params")
				g.inlineSchema(ind + 3)
			}
			if g.r.Intn(2) == 0 {
				g.line(ind+2, "Result")
				g.inlineSchema(ind + 3)
			}
		}
		return
	}
	if !inMacro {
		g.tagsLine(ind + 1)
	}
	g.pathDir(ind+1, p)
	n := g.r.Intn(4)
	for i := 0; i < n; i++ {
		if g.r.Intn(5) == 0 && !inMacro {
			g.line(ind+1, "PASTE "+g.pick("@mmeth", "@murl", "@mresp"))
			continue
		}
		if g.r.Intn(6) == 0 {
			g.method(ind+1, g.path(), inMacro)
			return
		}
		g.method(ind+1, "", inMacro)
	}
}

func (g *hgen) prelude() {
	g.line(0, "JSIGHT 0.3")
	for _, tg := range []string{"@g1", "@g2", "@a", "@_", "@g3"} {
		if g.r.Intn(12) != 0 {
			g.line(0, "TAG "+tg+g.pick("", " // Title"))
			if g.r.Intn(4) == 0 {
				g.line(1, "Description")
				g.line(2, "d")
			}
		}
	}
}

func (g *hgen) types() {
	g.line(0, "TYPE @t1")
	g.line(1, "{\"p\": @t2, \"q\": @r1}")
	g.line(0, "TYPE @t2")
	g.line(1, "12 // {min: 1}")
	g.line(0, "TYPE @t3")
	g.line(1, "{\"r\": [@t3],")
	g.line(1, " \"e\": 1 // {enum: @e1}")
	g.line(1, "}")
	g.line(0, "TYPE @r1 regex")
	g.line(1, "/ab/")
	g.line(0, "TYPE @tany any")
	g.line(0, "ENUM @e1")
	g.line(1, "[1, 2]")
}

func (g *hgen) macros(incl map[string]string) {
	g.line(0, "MACRO @mresp")
	g.line(0, "(")
	g.line(1, "403 "+g.schema())
	g.line(1, "402")
	g.line(2, "Body "+g.schema())
	g.line(0, ")")
	g.line(0, "MACRO @mresp2")
	g.line(0, "(")
	g.line(1, "PASTE @mresp")
	g.line(1, "401 any")
	g.line(0, ")")
	g.line(0, "MACRO @mmeth")
	g.line(0, "(")
	g.method(1, "", true)
	g.line(0, ")")
	g.line(0, "MACRO @murl")
	g.line(0, "(")
	g.url(1, true)
	g.method(1, g.path(), true)
	g.line(0, ")")
	g.line(0, "MACRO @mtype")
	g.line(0, "(")
	g.line(1, "TYPE @tm")
	g.line(2, "{\"a\": @t1}")
	g.line(0, ")")
}

func huntGen(seed int64) map[string]string {
	g := &hgen{r: rand.New(rand.NewSource(seed))}
	g.nl = g.pick("\n", "\n", "\r\n", "\r")
	files := map[string]string{}
	g.prelude()
	order := g.r.Perm(4)
	for _, o := range order {
		switch o {
		case 0:
			g.types()
		case 1:
			g.macros(files)
		case 2:
			n := 1 + g.r.Intn(5)
			for i := 0; i < n; i++ {
				switch g.r.Intn(6) {
				case 0, 1:
					g.url(0, false)
				case 2, 3:
					g.method(0, g.path(), false)
				case 4:
					g.line(0, "PASTE "+g.pick("@murl", "@mtype", "@murl"))
				default:
					// include a file with content
					name := fmt.Sprintf("inc%d.jst", len(files))
					sub := &hgen{r: g.r, nl: g.nl}
					if g.r.Intn(2) == 0 {
						sub.url(0, false)
					} else {
						sub.method(0, sub.path(), false)
					}
					files[name] = sub.sb.String()
					g.line(0, "INCLUDE "+name)
				}
			}
		default:
			if g.r.Intn(6) != 0 {
				g.line(0, "TAG @b")
			}
		}
	}
	files["root.jst"] = g.sb.String()
	return files
}

func TestHuntFuzz(t *testing.T) {
	accepted, total := 0, 0
	errs := map[string]int{}
	for seed := int64(0); seed < 3000; seed++ {
		files := huntGen(seed)
		total++
		b, err := huntBuild(t, files)
		if err != nil {
			msg := err.Error()
			if i := strings.Index(msg, "(line"); i > 0 {
				msg = msg[:i]
			}
			if i := strings.Index(msg, "\n"); i > 0 {
				msg = msg[:i]
			}
			if len(msg) > 90 {
				msg = msg[:90]
			}
			errs[msg]++
			continue
		}
		accepted++
		if bad := huntCheck(b); len(bad) != 0 {
			t.Errorf("seed %d: %v", seed, bad)
			if t.Failed() && seed > 0 && accepted > 2000 {
				break
			}
		}
	}
	t.Logf("accepted %d of %d", accepted, total)
	for k, v := range errs {
		t.Logf("%5d %s", v, k)
	}
}
