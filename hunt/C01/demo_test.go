// dir: kit
package kit

// Demonstrations for property C01 (building a project is total: a catalog or a located
// error, never a crash or hang, within time proportional to the input).
//
// Several of the violations are FATAL for the process (Go stack overflow cannot be
// recovered) or block forever, therefore every build is executed in a child process:
// the test binary re-executes itself with -test.run=^TestC01DemoChild$.

import (
	"bytes"
	"fmt"
	"os"
	"os/exec"
	"path/filepath"
	"strings"
	"syscall"
	"testing"
	"time"
)

const c01ChildEnv = "C01_DEMO_CHILD_ROOT"

// TestC01DemoChild is the helper process, it builds the project whose root file is named
// by the environment variable and prints the outcome.
func TestC01DemoChild(t *testing.T) {
	root := os.Getenv(c01ChildEnv)
	if root == "" {
		t.Skip("helper process of the C01 demonstrations")
	}
	start := time.Now()
	_, je := NewJapi(root)
	if je != nil {
		fmt.Printf("C01-RESULT error %v: %s\n", time.Since(start), je.Msg)
	} else {
		fmt.Printf("C01-RESULT catalog %v\n", time.Since(start))
	}
}

type c01Outcome struct {
	result  string // "catalog", "error", "crash", "timeout"
	detail  string
	elapsed time.Duration
}

func c01Project(t *testing.T, files map[string]string) string {
	t.Helper()
	dir := t.TempDir()
	for name, content := range files {
		p := filepath.Join(dir, name)
		if err := os.MkdirAll(filepath.Dir(p), 0o755); err != nil {
			t.Fatal(err)
		}
		if err := os.WriteFile(p, []byte(content), 0o644); err != nil {
			t.Fatal(err)
		}
	}
	return dir
}

func c01BuildDir(t *testing.T, dir string, limit time.Duration) c01Outcome {
	t.Helper()
	cmd := exec.Command(os.Args[0], "-test.run=^TestC01DemoChild$", "-test.v")
	cmd.Env = append(os.Environ(), c01ChildEnv+"="+filepath.Join(dir, "root.jst"))
	var out bytes.Buffer
	cmd.Stdout = &out
	cmd.Stderr = &out
	start := time.Now()
	if err := cmd.Start(); err != nil {
		t.Fatal(err)
	}
	done := make(chan error, 1)
	go func() { done <- cmd.Wait() }()
	select {
	case <-done:
	case <-time.After(limit):
		_ = cmd.Process.Kill()
		<-done
		return c01Outcome{result: "timeout", elapsed: time.Since(start)}
	}
	o := c01Outcome{elapsed: time.Since(start)}
	for _, l := range strings.Split(out.String(), "\n") {
		if strings.HasPrefix(l, "C01-RESULT catalog") {
			o.result, o.detail = "catalog", l
			return o
		}
		if strings.HasPrefix(l, "C01-RESULT error") {
			o.result, o.detail = "error", l
			return o
		}
	}
	o.result = "crash"
	s := out.String()
	if i := strings.Index(s, "fatal error"); i >= 0 {
		s = s[i:]
	}
	if len(s) > 300 {
		s = s[:300]
	}
	o.detail = s
	return o
}

func c01Build(t *testing.T, files map[string]string, limit time.Duration) c01Outcome {
	t.Helper()
	return c01BuildDir(t, c01Project(t, files), limit)
}

func c01ExpectTotal(t *testing.T, name string, o c01Outcome) {
	t.Helper()
	switch o.result {
	case "catalog", "error":
		t.Logf("%s: %s after %v %s", name, o.result, o.elapsed, o.detail)
	default:
		t.Errorf("%s: the build did not return a catalog or an error: %s after %v\n%s",
			name, o.result, o.elapsed, o.detail)
	}
}

// Finding 1. A shortcut object key ({@a: 1}) whose user type is a self-referring "or" type
// (TYPE @a = @a | @b, accepted by the library) kills the process with a stack overflow.
func TestC01_ShortcutKeyOfRecursiveOrType(t *testing.T) {
	doc := "JSIGHT 0.3\n" +
		"TYPE @a\n@a | @b\n" +
		"TYPE @b\n\"s\"\n" +
		"TYPE @c\n{@a: 1}\n"
	c01ExpectTotal(t, "shortcut key", c01Build(t, map[string]string{"root.jst": doc}, 2*time.Minute))
}

// Finding 2. A user type which is a reference to itself is accepted when it is nullable
// (TYPE @a = @a // {nullable: true}); four walkers of jsight-api-core follow such a
// reference chain without end.
func TestC01_NullableTypeAliasCycle(t *testing.T) {
	alias := "JSIGHT 0.3\nTYPE @a\n@a // {nullable: true}\n"
	docs := map[string]string{
		"Headers @a (catalog.CastToObject)": alias +
			"GET /x\n  200\n    Headers\n    @a\n    Body any\n",
		"Path @a (core.checkPathSchemaRoot)": alias +
			"GET /x/{id}\n  Path\n  @a\n  200 any\n",
		"Path {\"id\": @a} (core.checkPathSchemaProperty)": alias +
			"GET /x/{id}\n  Path\n  {\"id\": @a}\n  200 any\n",
		"Path {type: \"@a\"} (catalog.appendPropertiesFromShortcut)": alias +
			"GET /x/{id}\n  Path\n  { // {type: \"@a\"}\n    \"id\": 1\n  }\n  200 any\n",
		"two types, Request Headers": "JSIGHT 0.3\nTYPE @a\n@b // {nullable: true}\nTYPE @b\n@a\n" +
			"GET /x\n  Request\n    Headers\n    @a\n    Body any\n  200 any\n",
	}
	for name, doc := range docs {
		c01ExpectTotal(t, name, c01Build(t, map[string]string{"root.jst": doc}, 2*time.Minute))
	}
}

func c01MacroBomb(depth int) string {
	var sb strings.Builder
	sb.WriteString("JSIGHT 0.3\n")
	for i := 0; i < depth; i++ {
		fmt.Fprintf(&sb, "MACRO @m%d\n(\n  PASTE @m%d\n  PASTE @m%d\n)\n", i, i+1, i+1)
	}
	fmt.Fprintf(&sb, "MACRO @m%d\n(\n  Description\n    x\n)\n", depth)
	sb.WriteString("GET /a\n  PASTE @m0\n")
	return sb.String()
}

// Finding 3. Macros which paste the next macro twice: the expansion (time and memory)
// doubles with every level, 41 more bytes of input double the build time.
func TestC01_MacroDoublingBomb(t *testing.T) {
	small, big := c01MacroBomb(10), c01MacroBomb(21)
	os1 := c01Build(t, map[string]string{"root.jst": small}, time.Minute)
	os2 := c01Build(t, map[string]string{"root.jst": big}, 2*time.Minute)
	t.Logf("depth 10: %d bytes, %s %s", len(small), os1.result, os1.detail)
	t.Logf("depth 21: %d bytes, %s %s", len(big), os2.result, os2.detail)
	d1, d2 := c01ChildDuration(os1), c01ChildDuration(os2)
	sizeRatio := float64(len(big)) / float64(len(small))
	if d1 < time.Millisecond {
		d1 = time.Millisecond
	}
	timeRatio := float64(d2) / float64(d1)
	if os2.result == "timeout" || os2.result == "crash" || timeRatio > 20*sizeRatio {
		t.Errorf("the input grew %.1f times (%d -> %d bytes), the build time grew %.0f times (%v -> %v, %s)",
			sizeRatio, len(small), len(big), timeRatio, d1, d2, os2.result)
	}
}

func c01IncludeBomb(depth int) (map[string]string, int) {
	files := map[string]string{"root.jst": "JSIGHT 0.3\nINCLUDE f0.jst\n"}
	for i := 0; i < depth; i++ {
		files[fmt.Sprintf("f%d.jst", i)] = fmt.Sprintf("INCLUDE f%d.jst\nINCLUDE f%d.jst\n", i+1, i+1)
	}
	files[fmt.Sprintf("f%d.jst", depth)] = "# leaf\n"
	size := 0
	for _, c := range files {
		size += len(c)
	}
	return files, size
}

// Finding 3b. The same doubling with INCLUDE: every file includes the next one twice. The
// project is valid (a catalog is returned), 24 files / 719 bytes take 85 s, every further
// 32-byte file doubles the time.
func TestC01_IncludeDoublingBomb(t *testing.T) {
	small, smallSize := c01IncludeBomb(7)
	big, bigSize := c01IncludeBomb(18)
	o1 := c01Build(t, small, time.Minute)
	o2 := c01Build(t, big, 3*time.Minute)
	d1, d2 := c01ChildDuration(o1), c01ChildDuration(o2)
	if d1 < time.Millisecond {
		d1 = time.Millisecond
	}
	sizeRatio := float64(bigSize) / float64(smallSize)
	timeRatio := float64(d2) / float64(d1)
	t.Logf("%d bytes: %s %v, %d bytes: %s %v", smallSize, o1.result, d1, bigSize, o2.result, d2)
	if o2.result == "timeout" || o2.result == "crash" || timeRatio > 20*sizeRatio {
		t.Errorf("the project grew %.1f times (%d -> %d bytes), the build time grew %.0f times (%v -> %v, %s)",
			sizeRatio, smallSize, bigSize, timeRatio, d1, d2, o2.result)
	}
}

// c01ChildDuration extracts the build time measured inside the child process.
func c01ChildDuration(o c01Outcome) time.Duration {
	f := strings.Fields(o.detail)
	if (o.result == "error" || o.result == "catalog") && len(f) >= 3 {
		if d, err := time.ParseDuration(strings.TrimSuffix(f[2], ":")); err == nil {
			return d
		}
	}
	return o.elapsed
}

// Finding 4. About 900 000 nested arrays (a file of less than 2 MB) overflow the stack
// (1 GB limit of the Go runtime) in the recursive AST builder: the process dies.
func TestC01_DeepNestingStackOverflow(t *testing.T) {
	n := 1000000
	doc := "JSIGHT 0.3\nTYPE @a\n" + strings.Repeat("[", n) + strings.Repeat("]", n) + "\n"
	c01ExpectTotal(t, fmt.Sprintf("%d nested arrays, %d bytes", n, len(doc)),
		c01Build(t, map[string]string{"root.jst": doc}, 10*time.Minute))
}

func c01TypeChain(n int) string {
	var sb strings.Builder
	sb.WriteString("JSIGHT 0.3\n")
	for i := 0; i < n; i++ {
		fmt.Fprintf(&sb, "TYPE @t%d\n{\"a\": @t%d}\n", i, i+1)
	}
	fmt.Fprintf(&sb, "TYPE @t%d\n1\n", n)
	return sb.String()
}

// Finding 5. A chain of user types (each one refers to the next) is built in roughly cubic
// time: 2 KB take 40 ms, 19 KB take 8 s, 24 KB take 14 s, 50 KB more than a minute.
func TestC01_TypeChainCubicTime(t *testing.T) {
	small, big := c01TypeChain(100), c01TypeChain(800)
	o1 := c01Build(t, map[string]string{"root.jst": small}, time.Minute)
	o2 := c01Build(t, map[string]string{"root.jst": big}, 5*time.Minute)
	if o1.result != "catalog" || (o2.result != "catalog" && o2.result != "timeout") {
		t.Fatalf("unexpected outcome: %v %v", o1, o2)
	}
	d1, d2 := c01ChildDuration(o1), c01ChildDuration(o2)
	if d1 < time.Millisecond {
		d1 = time.Millisecond
	}
	sizeRatio := float64(len(big)) / float64(len(small))
	timeRatio := float64(d2) / float64(d1)
	t.Logf("%d bytes: %v, %d bytes: %v", len(small), d1, len(big), d2)
	if timeRatio > 4*sizeRatio {
		t.Errorf("the input grew %.1f times (%d -> %d bytes), the build time grew %.0f times (%v -> %v)",
			sizeRatio, len(small), len(big), timeRatio, d1, d2)
	}
}

// Finding 6. INCLUDE of a named pipe (any non-regular file which is not a directory) is
// read with os.ReadFile: the build blocks forever.
func TestC01_IncludeNamedPipeHangs(t *testing.T) {
	dir := c01Project(t, map[string]string{"root.jst": "JSIGHT 0.3\nINCLUDE pipe.jst\n"})
	if err := syscall.Mkfifo(filepath.Join(dir, "pipe.jst"), 0o644); err != nil {
		t.Skip("cannot create a named pipe: ", err)
	}
	c01ExpectTotal(t, "INCLUDE of a named pipe", c01BuildDir(t, dir, 10*time.Second))
}
