// dir: kit
package kit

// Demonstrations for property C06 (same project, same result).
// Every test builds ONE unchanged document many times in one process and fails
// when the observable result (error message + index/line/column, or catalog JSON)
// is not the same for all builds. Go randomises the start of every map iteration,
// so repeated builds in one process expose the same dependence on map order that
// separate processes show.

import (
	"fmt"
	"testing"

	"github.com/jsightapi/jsight-schema-core/fs"
)

const c06DemoBuilds = 400

// c06Observe builds the document once and returns everything a caller can observe.
func c06Observe(doc string) string {
	j, je := NewJApiFromFile(fs.NewFile("root.jst", doc))
	if je != nil {
		return fmt.Sprintf("ERROR msg=%q index=%d line=%d column=%d quote=%q full=%q",
			je.Msg, je.Index, je.Line, je.Column, je.Quote, je.Error())
	}
	b, err := j.ToJson()
	if err != nil {
		return "TOJSON ERROR " + err.Error()
	}
	return string(b)
}

func c06Check(t *testing.T, doc string) {
	t.Helper()
	seen := map[string]int{}
	var order []string
	for i := 0; i < c06DemoBuilds; i++ {
		r := c06Observe(doc)
		if _, ok := seen[r]; !ok {
			order = append(order, r)
		}
		seen[r]++
	}
	if len(seen) == 1 {
		return
	}
	t.Errorf("%d builds of the same document gave %d different results", c06DemoBuilds, len(seen))
	for _, r := range order {
		t.Logf("%4d x %s", seen[r], c06Excerpt(order[0], r))
	}
}

// c06Excerpt shortens long results (catalog JSON) to the neighbourhood of the first difference.
func c06Excerpt(ref, r string) string {
	if len(r) <= 400 {
		return r
	}
	i := 0
	for i < len(ref) && i < len(r) && ref[i] == r[i] {
		i++
	}
	if i == len(r) || i == len(ref) { // r is the reference itself (or a prefix): show the tail region of interest
		i = 0
		for k := range r {
			if k+9 < len(r) && r[k:k+9] == `"example"` {
				i = k
			}
		}
	}
	lo, hi := i-120, i+120
	if lo < 0 {
		lo = 0
	}
	if hi > len(r) {
		hi = len(r)
	}
	return "..." + r[lo:hi] + "..."
}

// Finding 1a: two faulty user types (@a, @b) of one reference cycle with a third, correct
// member (@c): the reported fault (message, index, line, column) is that of @a in some
// builds and that of @b in others.
func TestC06_TwoFaultyTypesInCycle_ErrorVaries(t *testing.T) {
	c06Check(t, `JSIGHT 0.3

TYPE @a
{
  "b": @b, // {optional: true}
  "c": @c, // {optional: true}
  "x": 1 // {min: 5}
}

TYPE @b
{
  "a": @a, // {optional: true}
  "y": 2 // {min: 7}
}

TYPE @c
{
  "a": @a // {optional: true}
}
`)
}

// Finding 1b: a project with exactly ONE fault ("abcdef" violates maxLength 3 in @b).
// @a inherits the property through allOf. The fault is located at line 10 (in @b, correct)
// in some builds and at line 4 column 10 (inside the body of @a, at an offset that
// belongs to the body of @b) in others.
func TestC06_SingleFaultInheritedByAllOf_LocationVaries(t *testing.T) {
	c06Check(t, `JSIGHT 0.3

TYPE @a
{ // {allOf: "@b"}
  "l": @l // {optional: true}
}

TYPE @b
{
  "k": "abcdef", // {maxLength: 3}
  "a": @a // {optional: true}
}

TYPE @l
{
  "a": @a // {optional: true}
}
`)
}

// Finding 2a: two user types with a faulty allOf (duplicate key "k") in one reference cycle:
// "Duplicate key" is reported at line 4 (@a) in some builds and at line 11 (@b) in others.
func TestC06_TwoFaultyAllOfInCycle_ErrorVaries(t *testing.T) {
	c06Check(t, `JSIGHT 0.3

TYPE @a
{ // {allOf: "@x"}
  "b": @b, // {optional: true}
  "c": @c, // {optional: true}
  "k": 1
}

TYPE @b
{ // {allOf: "@x"}
  "a": @a, // {optional: true}
  "k": 2
}

TYPE @c
{
  "a": @a // {optional: true}
}

TYPE @x
{
  "k": 1
}
`)
}

// Finding 2b: one allOf cycle (@a allOf @b, @b allOf @a): the single fault
// "The unacceptable recursion in the `allOf` rule" is located at line 4 in some builds
// and at line 9 in others.
func TestC06_AllOfCycle_LocationVaries(t *testing.T) {
	c06Check(t, `JSIGHT 0.3

TYPE @a
{ // {allOf: "@b"}
  "l": @l // {optional: true}
}

TYPE @b
{ // {allOf: "@a"}
  "k": 1
}

TYPE @l
{
  "a": @a // {optional: true}
}
`)
}

// Finding 3: an ACCEPTED project: the catalog JSON is not byte-identical from build to
// build. The "example" of the response body (and, in the second document, of the user
// type @c) contains another string for the regex type @r ("aabx" / "bcbx").
func TestC06_AcceptedProject_RegexExampleInCatalogVaries(t *testing.T) {
	c06Check(t, `JSIGHT 0.3

TYPE @r regex
/[a-c]{3}x/

TYPE @a
{
  "x": @r
}

TYPE @b
{
  "y": @r
}

GET /x
  200
    {
      "p": @r
    }
`)
}

func TestC06_AcceptedProject_RegexExampleInUserTypeVaries(t *testing.T) {
	c06Check(t, `JSIGHT 0.3

TYPE @r regex
/[a-c]{3}x/

TYPE @a
{
  "x": @r
}

TYPE @b
{
  "y": @r
}

TYPE @c
{
  "a": @a,
  "b": @b,
  "r": @r
}
`)
}
