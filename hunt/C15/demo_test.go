// dir: kit
package kit

import (
	"testing"

	"github.com/jsightapi/jsight-schema-core/fs"
)

// c15Build builds the document and serialises the catalog.
func c15Build(doc string) (string, error) {
	j, je := NewJApiFromFile(fs.NewFile("root.jst", doc))
	if je != nil {
		return "", je
	}
	b, err := j.ToJson()
	return string(b), err
}

// Finding 1: an ENUM without a body is accepted when it is the last block and its
// keyword line is ended by the end of the file; moved in front of any other block
// the same ENUM block is rejected.
func TestC15EnumWithoutBodyAsLastBlock(t *testing.T) {
	get := "GET /a\n  200 any"
	enum := "ENUM @e"

	_, errLast := c15Build("JSIGHT 0.3\n" + get + "\n" + enum)
	_, errFirst := c15Build("JSIGHT 0.3\n" + enum + "\n" + get)

	if (errLast == nil) != (errFirst == nil) {
		t.Errorf("acceptance depends on the order of the blocks:\n  [GET, ENUM]: %v\n  [ENUM, GET]: %v", errLast, errFirst)
	}
}

// Finding 2: the position of a regex TYPE block among the blocks that carry a JSight
// schema decides whether the document is accepted. The examples of the regex type are
// drawn from one stateful generator, one per schema in build order; each draw is
// validated against the expression except the one made for the TYPE block itself.
// For /a?\Bb?/ the draws are "", "a", "a", "ab", ... and "a" does not match.
func TestC15RegexTypeBlockPositionDecidesAcceptance(t *testing.T) {
	typ := "TYPE @r regex\n/a?\\Bb?/"
	get := "GET /a\n  200\n  {}"

	_, errTypeFirst := c15Build("JSIGHT 0.3\n\n" + typ + "\n\n" + get + "\n")
	_, errGetFirst := c15Build("JSIGHT 0.3\n\n" + get + "\n\n" + typ + "\n")

	if (errTypeFirst == nil) != (errGetFirst == nil) {
		t.Errorf("acceptance depends on the order of the blocks:\n  [TYPE, GET]: %v\n  [GET, TYPE]: %v", errTypeFirst, errGetFirst)
	}
}
