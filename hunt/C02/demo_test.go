// dir: kit
package kit

import (
	"encoding/json"
	"strings"
	"testing"

	"github.com/jsightapi/jsight-schema-core/fs"
)

// c02Build builds the document and returns the decoded catalog JSON.
func c02Build(t *testing.T, doc string) (map[string]any, string, error) {
	t.Helper()
	j, je := NewJApiFromFile(fs.NewFile("root.jst", doc))
	if je != nil {
		return nil, "", je
	}
	b, err := j.ToJson()
	if err != nil {
		return nil, "", err
	}
	var m map[string]any
	if err := json.Unmarshal(b, &m); err != nil {
		t.Fatalf("catalog is not JSON: %v", err)
	}
	return m, string(b), nil
}

func c02Get(m any, path ...string) any {
	for _, p := range path {
		mm, ok := m.(map[string]any)
		if !ok {
			return nil
		}
		m = mm[p]
	}
	return m
}

// Finding 1: an interaction without any Tags directive is attached to a user-defined
// TAG whose name happens to equal the default path tag ("@a" for "/a").
func TestC02_UserTagCapturesUntaggedInteraction(t *testing.T) {
	m, _, err := c02Build(t, "JSIGHT 0.3\n\nTAG @a // My title\n\nGET /a\n  200 any\n")
	if err != nil {
		t.Fatal(err)
	}
	tag := c02Get(m, "tags", "@a")
	groups, _ := c02Get(tag, "interactionGroups").([]any)
	title, _ := c02Get(tag, "title").(string)
	if title == "My title" && len(groups) != 0 {
		t.Errorf("the user tag @a (title %q), which no Tags directive names, lists interactions: %v", title, groups)
	}
}

// Finding 2: the enum rule referring to an ENUM cannot be used in a Path body.
func TestC02_PathBodyCannotUseEnum(t *testing.T) {
	doc := "JSIGHT 0.3\n\nENUM @e\n[\"x\", \"y\"]\n\nGET /a/{id}\n  %s\n  {\n    \"id\": \"x\" // {enum: @e}\n  }\n  200 any\n"
	if _, _, err := c02Build(t, strings.Replace(doc, "%s", "Query", 1)); err != nil {
		t.Fatalf("the same body is expected to be accepted by Query: %v", err)
	}
	if _, _, err := c02Build(t, strings.Replace(doc, "%s", "Path", 1)); err != nil {
		t.Errorf("Path body with {enum: @e} is rejected although @e is defined: %v", err)
	}
}

// Finding 3: a comment line between the keyword line of TYPE / Body and the body
// (regular expression or opening parenthesis) is rejected; it is accepted for
// 200 / Request / Headers / Query / Path / ENUM / Params.
func TestC02_CommentBeforeTypeOrBodyBody(t *testing.T) {
	ok := "JSIGHT 0.3\n\nGET /a\n  200 regex\n  # comment\n  /x/\n"
	if _, _, err := c02Build(t, ok); err != nil {
		t.Fatalf("reference layout failed: %v", err)
	}
	docs := map[string]string{
		"TYPE regex":  "JSIGHT 0.3\n\nTYPE @r regex\n# comment\n/abc/\n",
		"Body regex":  "JSIGHT 0.3\n\nGET /a\n  200\n    Body regex\n    # comment\n    /x/\n",
		"TYPE + '('":  "JSIGHT 0.3\n\nTYPE @t\n# comment\n(\n  {\"a\": 1}\n)\n",
		"Body + '('":  "JSIGHT 0.3\n\nGET /a\n  200\n    Body\n    # comment\n    (\n      {\"a\": 1}\n    )\n",
		"TYPE ### ()": "JSIGHT 0.3\n\nTYPE @r regex\n### block ###\n(\n/abc/\n)\n",
	}
	for name, doc := range docs {
		if _, _, err := c02Build(t, doc); err != nil {
			t.Errorf("%s: %v", name, strings.ReplaceAll(err.Error(), "\n", " "))
		}
	}
}

// Finding 4: when the Path body is a reference to a user type (or inherits from one with
// allOf), the pathVariables of the catalog lose the rules "or", "exclusiveMinimum", "type"
// of the properties (type "mixed" becomes "integer") and usedUserTypes; the same
// properties written in place in the Path body keep them.
func TestC02_PathVariablesByUserTypeLoseRules(t *testing.T) {
	props := "{\n  \"a\": 1, // {or: [\"integer\", \"string\"]}\n  \"b\": 2, // {min: 1, exclusiveMinimum: true}\n  \"c\": @id // note c\n}\n"
	head := "JSIGHT 0.3\n\nTYPE @id regex\n  /[a-z]+/\nTYPE @pv\n" + props + "\nGET /x/{a}/{b}/{c}\n  Path\n"
	tail := "  200 any\n"
	inPlace, _, err := c02Build(t, head+props+tail)
	if err != nil {
		t.Fatal(err)
	}
	byRef, _, err := c02Build(t, head+"  @pv\n"+tail)
	if err != nil {
		t.Fatal(err)
	}
	want := c02Get(inPlace, "interactions", "http GET /x/{a}/{b}/{c}", "pathVariables", "schema")
	got := c02Get(byRef, "interactions", "http GET /x/{a}/{b}/{c}", "pathVariables", "schema")
	wb, _ := json.Marshal(want)
	gb, _ := json.Marshal(got)
	if !strings.Contains(string(wb), "exclusiveMinimum") || !strings.Contains(string(wb), "mixed") {
		t.Fatalf("unexpected in-place result %s", wb)
	}
	if string(wb) != string(gb) {
		t.Errorf("pathVariables differ:\nin place: %s\nby @pv   : %s", wb, gb)
	}
}

// Finding 5: the note of an ENUM value written as a multi-line /* */ comment is
// copied raw: the catalog depends on LF / CRLF (and on the indentation of the
// continuation line), unlike the notes of schema properties and annotations.
func TestC02_EnumNoteDependsOnLineBreaks(t *testing.T) {
	doc := "JSIGHT 0.3\n\nENUM @e\n[\n  \"a\" /* first\n     second */\n]\n"
	_, lf, err := c02Build(t, doc)
	if err != nil {
		t.Fatal(err)
	}
	_, crlf, err := c02Build(t, strings.ReplaceAll(doc, "\n", "\r\n"))
	if err != nil {
		t.Fatal(err)
	}
	if lf != crlf {
		t.Errorf("LF and CRLF renderings of the same document give different catalogs:\n%s\n%s", lf, crlf)
	}
}

// Finding 6: a URL-level Tags directive cannot be combined with JSON-RPC methods.
func TestC02_UrlLevelTagsWithJsonRpc(t *testing.T) {
	http := "JSIGHT 0.3\n\nTAG @t\n\nURL /a\n  Tags @t\n  GET\n    200 any\n"
	if _, _, err := c02Build(t, http); err != nil {
		t.Fatalf("reference layout failed: %v", err)
	}
	rpc := "JSIGHT 0.3\n\nTAG @t\n\nURL /rpc\n  Tags @t\n  Protocol json-rpc-2.0\n  Method foo\n    Params\n    {}\n"
	m, _, err := c02Build(t, rpc)
	if err != nil {
		t.Fatalf("URL-level Tags with JSON-RPC methods is rejected: %v", err)
	}
	tags, _ := c02Get(m, "interactions", "json-rpc-2.0 foo /rpc", "tags").([]any)
	if len(tags) != 1 || tags[0] != "@t" {
		t.Errorf("tags = %v", tags)
	}
}

// Finding 7: object keys are not escaped in the generated example, which is
// then not a JSON text.
func TestC02_ExampleKeysNotEscaped(t *testing.T) {
	m, _, err := c02Build(t, "JSIGHT 0.3\n\nGET /a\n  200\n  {\"k\\\"ey\": 1}\n")
	if err != nil {
		t.Fatal(err)
	}
	rr, _ := c02Get(m, "interactions", "http GET /a", "responses").([]any)
	ex, _ := c02Get(rr[0], "body", "schema", "example").(string)
	var v map[string]any
	if err := json.Unmarshal([]byte(ex), &v); err != nil {
		t.Errorf("example %s is not valid JSON: %v", ex, err)
	} else if _, ok := v["k\"ey"]; !ok {
		t.Errorf("example %s has no key k\"ey", ex)
	}
}

// Finding 8 (lower confidence): '#' / '###' comments are accepted inside the body of a
// TYPE (array or object) but rejected inside the body of an ENUM.
func TestC02_CommentInsideEnumBody(t *testing.T) {
	if _, _, err := c02Build(t, "JSIGHT 0.3\n\nTYPE @t\n[ # c1\n  1, # c2\n  ### block ###\n  2\n]\n"); err != nil {
		t.Fatalf("reference layout failed: %v", err)
	}
	if _, _, err := c02Build(t, "JSIGHT 0.3\n\nENUM @e\n[ # c1\n  1, # c2\n  2\n]\n"); err != nil {
		t.Errorf("ENUM body with comments: %v", err)
	}
}
