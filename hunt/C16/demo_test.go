// dir: kit
package kit

import (
	"testing"

	"github.com/jsightapi/jsight-schema-core/fs"
)

func c16Result(b []byte, err error) string {
	if err != nil {
		return "ERROR: " + err.Error()
	}
	return string(b)
}

// Finding 1: an accepted project whose first ToJson / ToJsonIndent call fails and whose
// following calls succeed (with a content that lacks the inherited property).
func TestC16AllOfShortcutKeyFirstCallOnlyError(t *testing.T) {
	const doc = `JSIGHT 0.3
TYPE @k
"abc"
TYPE @b
{
  @k: 1
}
TYPE @c
{ // {allOf: "@b"}
  "@k": 2
}
`
	j, je := NewJApiFromFile(fs.NewFile("root.jst", doc))
	if je != nil {
		t.Skipf("project is not accepted: %s", je.Error())
	}

	first := c16Result(j.ToJson())
	second := c16Result(j.ToJson())
	if first != second {
		t.Errorf("ToJson is not repeatable on one catalog\n 1st call: %s\n 2nd call: %s", first, second)
	}

	// "regardless of what was called before": ToJsonIndent as the first call on a fresh
	// catalog against ToJsonIndent called after ToJson.
	fresh, _ := NewJApiFromFile(fs.NewFile("root.jst", doc))
	indentFirst := c16Result(fresh.ToJsonIndent())
	indentAfterToJson := c16Result(j.ToJsonIndent())
	if indentFirst != indentAfterToJson {
		t.Errorf("ToJsonIndent depends on the calls made before\n as first call: %.200s\n after ToJson: %.200s",
			indentFirst, indentAfterToJson)
	}
}

// Finding 2 (weaker, the returned bytes are nil every time, the error value is what varies):
// ToOpenAPIJson on one catalog returns two different errors from call to call.
func TestC16OpenAPIErrorVariesBetweenCalls(t *testing.T) {
	const doc = `JSIGHT 0.3
GET /a
  200 empty
  200 empty
  404
    {
      "x": 1 // {or: [{type: "enum", enum: [1, 2]}, {type: "string"}]}
    }
`
	j, je := NewJApiFromFile(fs.NewFile("root.jst", doc))
	if je != nil {
		t.Skipf("project is not accepted: %s", je.Error())
	}
	seen := map[string]int{}
	for i := 0; i < 300; i++ {
		seen[c16Result(j.ToOpenAPIJson())]++
	}
	if len(seen) > 1 {
		t.Errorf("ToOpenAPIJson gave %d different results on one catalog: %v", len(seen), seen)
	}
}
