// dir: kit
package kit

import (
	"os"
	"path/filepath"
	"strings"
	"testing"
)

// C14: a file that includes itself (directly or through other files) must be
// reported as a recursion error. The cycle is only noticed when the file is
// scanned for the SECOND time and reaches its INCLUDE again, so any scan-time
// error in front of that INCLUDE wins.
func TestC14_CycleReportedAsOtherError(t *testing.T) {
	cases := map[string]map[string]string{
		// every root file has to start with JSIGHT
		"root includes itself": {
			"root.jst": "JSIGHT 0.3\nINCLUDE root.jst\n",
		},
		"root -> b -> root": {
			"root.jst": "JSIGHT 0.3\nINCLUDE b.jst\n",
			"b.jst":    "INCLUDE root.jst\n",
		},
		// no JSIGHT involved: self include inside an explicit context
		"b includes itself inside ( )": {
			"root.jst": "JSIGHT 0.3\nINCLUDE b.jst\n",
			"b.jst":    "GET /a\n(\nINCLUDE b.jst\n)\n",
		},
	}
	for name, files := range cases {
		t.Run(name, func(t *testing.T) {
			dir := t.TempDir()
			for n, c := range files {
				if err := os.WriteFile(filepath.Join(dir, n), []byte(c), 0o600); err != nil {
					t.Fatal(err)
				}
			}
			_, je := NewJapi(filepath.Join(dir, "root.jst"))
			if je == nil {
				t.Fatal("include cycle accepted")
			}
			if !strings.Contains(je.Msg, "recursion") {
				t.Errorf("include cycle not reported as a recursion error, got: %q (line %d)", je.Msg, je.Line)
			}
		})
	}
}
