// dir: kit
package kit

import (
	"bytes"
	"encoding/json"
	"fmt"
	"strings"
	"sync"
	"sync/atomic"
	"testing"

	"github.com/jsightapi/jsight-schema-core/fs"

	"github.com/jsightapi/jsight-api-core/catalog/ser/openapi"
)

func c18DemoProject(i int) string {
	var sb strings.Builder
	sb.WriteString("JSIGHT 0.3\n")
	fmt.Fprintf(&sb, "TYPE @t%d\n{\n", i)
	for k := 0; k < 30; k++ {
		fmt.Fprintf(&sb, "  \"p%d_%d\": [\"v%d_%d\", %d],\n", i, k, i, k, i*1000+k)
	}
	fmt.Fprintf(&sb, "  \"e\": \"a%d\" // {enum: [\"a%d\", \"b%d\"]}\n}\n", i, i, i)
	fmt.Fprintf(&sb, "GET /r%d/{id}\n  200\n  {\n    \"x\": @t%d,\n    \"arr\": [@t%d]\n  }\n", i, i, i)
	return sb.String()
}

// Finding 1: the exported OpenAPI converter (catalog/ser/openapi.NewOpenAPI + json.Marshal, i.e. exactly
// what kit.ToOpenAPIJson does, but without kit's private mutex) run for INDEPENDENT catalogs on
// different goroutines gives documents which differ from the sequential ones (and data races under -race).
func TestC18_DirectOpenAPIConverterOfIndependentCatalogs(t *testing.T) {
	const n = 24
	jj := make([]JApi, n)
	want := make([][]byte, n)
	for i := 0; i < n; i++ {
		j, je := NewJApiFromFile(fs.NewFile("root.jst", c18DemoProject(i)))
		if je != nil {
			t.Fatal(je)
		}
		jj[i] = j
		o, err := openapi.NewOpenAPI(j.Catalog())
		if err != nil {
			t.Fatal(err)
		}
		b, merr := json.Marshal(o)
		if merr != nil {
			t.Fatal(merr)
		}
		want[i] = b
	}

	var bad, total int64
	for round := 0; round < 400 && atomic.LoadInt64(&bad) == 0; round++ {
		var wg sync.WaitGroup
		for i := 0; i < n; i++ {
			wg.Add(1)
			go func(i int) {
				defer wg.Done()
				o, err := openapi.NewOpenAPI(jj[i].Catalog())
				if err != nil {
					atomic.AddInt64(&bad, 1)
					return
				}
				b, merr := json.Marshal(o)
				atomic.AddInt64(&total, 1)
				if merr != nil || !bytes.Equal(b, want[i]) {
					atomic.AddInt64(&bad, 1)
				}
			}(i)
		}
		wg.Wait()
	}
	if bad != 0 {
		t.Errorf("%d of %d OpenAPI documents of independent catalogs converted concurrently differ from the sequential result", bad, total)
	}
}
