// dir: kit
package kit

import (
	"os"
	"path/filepath"
	"testing"
)

type c09Result struct {
	json string
	msg  string
	file string
	line int
}

func c09Build(t *testing.T, files map[string]string) c09Result {
	t.Helper()
	dir := t.TempDir()
	for n, c := range files {
		p := filepath.Join(dir, n)
		if err := os.MkdirAll(filepath.Dir(p), 0o755); err != nil {
			t.Fatal(err)
		}
		if err := os.WriteFile(p, []byte(c), 0o644); err != nil {
			t.Fatal(err)
		}
	}
	j, je := NewJapi(filepath.Join(dir, "root.jst"))
	if je != nil {
		rel, _ := filepath.Rel(dir, je.File.Name())
		return c09Result{msg: je.Msg, file: rel, line: int(je.Line)}
	}
	b, err := j.ToJson()
	if err != nil {
		t.Fatal(err)
	}
	return c09Result{json: string(b)}
}

// c09Compare builds the unsplit document and the split project. wantFile/wantLine
// is the place of the faulty directive in the split project (used only when the
// unsplit document is rejected).
func c09Compare(t *testing.T, unsplit string, split map[string]string, wantFile string, wantLine int) {
	t.Helper()
	u := c09Build(t, map[string]string{"root.jst": unsplit})
	s := c09Build(t, split)
	if u.msg == "" {
		if s.msg != "" {
			t.Fatalf("unsplit document accepted, split project rejected: %q at %s:%d", s.msg, s.file, s.line)
		}
		if u.json != s.json {
			t.Fatalf("catalogs differ:\nunsplit: %s\nsplit:   %s", u.json, s.json)
		}
		return
	}
	if s.msg != u.msg {
		t.Fatalf("messages differ:\nunsplit: %q (root.jst:%d)\nsplit:   %q (%s:%d)", u.msg, u.line, s.msg, s.file, s.line)
	}
	if s.file != wantFile || s.line != wantLine {
		t.Fatalf("message %q: want %s:%d, got %s:%d", u.msg, wantFile, wantLine, s.file, s.line)
	}
}

// Finding 1a: a PASTE of an undefined macro, moved to an included file.
func TestC09_PasteErrorMessageGetsIncludeTrace(t *testing.T) {
	c09Compare(t,
		"JSIGHT 0.3\nGET /a\n  PASTE @nope\n  200 any\n",
		map[string]string{
			"root.jst": "JSIGHT 0.3\nGET /a\nINCLUDE p.jst\n  200 any\n",
			"p.jst":    "  PASTE @nope\n",
		},
		"p.jst", 1)
}

// Finding 1b: a macro body kept in an included file, a pasted directive is in the wrong context.
func TestC09_PastedDirectiveErrorMessageGetsIncludeTrace(t *testing.T) {
	c09Compare(t,
		"JSIGHT 0.3\nMACRO @m\n(\n  Body any\n)\nGET /a\n  PASTE @m\n",
		map[string]string{
			"root.jst": "JSIGHT 0.3\nMACRO @m\n(\nINCLUDE b.jst\n)\nGET /a\n  PASTE @m\n",
			"b.jst":    "  Body any\n",
		},
		"root.jst", 7)
}

// Finding 2a: the rule check "JSIGHT specified twice" is replaced by another message.
func TestC09_SecondJsightInIncludedFile(t *testing.T) {
	c09Compare(t,
		"JSIGHT 0.3\nGET /a\n  200 any\nJSIGHT 0.3\n",
		map[string]string{
			"root.jst": "JSIGHT 0.3\nGET /a\n  200 any\nINCLUDE j.jst\n",
			"j.jst":    "JSIGHT 0.3\n",
		},
		"j.jst", 1)
}

// Finding 2b: the first piece of an accepted document (JSIGHT + INFO) cannot be moved to a file.
func TestC09_HeadPieceInIncludedFile(t *testing.T) {
	c09Compare(t,
		"JSIGHT 0.3\nINFO\n  Title \"t\"\nGET /a\n  200 any\n",
		map[string]string{
			"root.jst": "INCLUDE head.jst\nGET /a\n  200 any\n",
			"head.jst": "JSIGHT 0.3\nINFO\n  Title \"t\"\n",
		},
		"", 0)
}

// Finding 3: the piece ends with a comment glued to its schema and has no final line break
// (the line break stays behind the INCLUDE parameter).
func TestC09_PieceEndingWithGluedCommentWithoutLineBreak(t *testing.T) {
	c09Compare(t,
		"JSIGHT 0.3\nGET /a\n  200\n    {}# note\nPOST /a\n  200 any\n",
		map[string]string{
			"root.jst": "JSIGHT 0.3\nINCLUDE g.jst\nPOST /a\n  200 any\n",
			"g.jst":    "GET /a\n  200\n    {}# note",
		},
		"", 0)
}
