// dir: kit
package kit

import (
	"fmt"
	"strings"
	"testing"

	"github.com/jsightapi/jsight-schema-core/fs"

	"github.com/jsightapi/jsight-api-core/core"
	"github.com/jsightapi/jsight-api-core/directive"
)

// c13Build builds the document and returns a short description of the outcome:
// either "ERR <index> <message>" or "OK <interaction ids in a fixed probe order>".
func c13Build(doc string, oo ...core.Option) string {
	j, je := NewJApiFromFile(fs.NewFile("root.jst", doc), oo...)
	if je != nil {
		return fmt.Sprintf("ERR %d %s", je.Index, je.Msg)
	}
	b, err := j.ToJson()
	if err != nil {
		return "TOJSON ERR " + err.Error()
	}
	var ids []string
	for _, k := range []string{"http GET /a", "http GET /b"} {
		if strings.Contains(string(b), `"id":"`+k+`"`) {
			ids = append(ids, k)
		}
	}
	return "OK " + strings.Join(ids, ", ")
}

const (
	c13AfterURL  = "JSIGHT 0.3\nURL /x\n"      // 18 bytes, the next byte is a directive start
	c13AfterBody = "JSIGHT 0.3\nTYPE @t\n{}\n" // 22 bytes, the next byte is a directive start
)

// Finding 1: an empty "#" comment (a '#' directly followed by LF) written after a schema
// body swallows the whole next line: the keyword at the beginning of that line is not
// recognised, and garbage on that line is not rejected.
func TestC13_EmptyCommentAfterBodySwallowsNextDirective(t *testing.T) {
	tail := "#\nGET /a\nGET /b\n"
	if got := c13Build(c13AfterURL + tail); got != "OK http GET /a, http GET /b" {
		t.Fatalf("reference (after URL): %s", got)
	}
	if got := c13Build(c13AfterBody + tail); got != "OK http GET /a, http GET /b" {
		t.Errorf("after a schema body the keyword GET of line 5 is not recognised: %s", got)
	}
	// The same with the comment on the line of the body.
	if got := c13Build("JSIGHT 0.3\nTYPE @t\n{} #\nGET /a\nGET /b\n"); got != "OK http GET /a, http GET /b" {
		t.Errorf("'{} #': the keyword GET of the next line is not recognised: %s", got)
	}
	// A word which is not a keyword is accepted silently.
	if got := c13Build(c13AfterBody + "#\nGETx /a\nGET /b\n"); !strings.HasPrefix(got, "ERR 27 ") {
		t.Errorf("'GETx' at a directive start has to be rejected at 'x' (index 27): %s", got)
	}
}

// Finding 2: after a schema (or ENUM) body a line which begins with '/' is handed to the
// schema scanner of the dependency: "// text" and "/* text */" lines are accepted at a
// directive start (any number of lines below the body), and "/x" is rejected one byte late.
// At every other directive start the byte '/' is rejected at once.
func TestC13_SlashAtDirectiveStartAfterBody(t *testing.T) {
	for _, tail := range []string{"// text\nGET /a\n", "\n\n  // text\nGET /a\n", "/* text */\nGET /a\n", "/x\nGET /a\n"} {
		ref := c13Build(c13AfterURL + tail)
		pos := strings.Index(tail, "/")
		if want := fmt.Sprintf("ERR %d ", len(c13AfterURL)+pos); !strings.HasPrefix(ref, want) {
			t.Fatalf("reference (after URL) %q: %s", tail, ref)
		}
		got := c13Build(c13AfterBody + tail)
		if want := fmt.Sprintf("ERR %d ", len(c13AfterBody)+pos); !strings.HasPrefix(got, want) {
			t.Errorf("after a schema body, %q: want an error at the '/' (index %d), got: %s",
				tail, len(c13AfterBody)+pos, got)
		}
		got = c13Build("JSIGHT 0.3\nENUM @e\n[1]\n" + tail)
		if want := fmt.Sprintf("ERR %d ", 23+pos); !strings.HasPrefix(got, want) {
			t.Errorf("after an ENUM body, %q: want an error at the '/' (index %d), got: %s", tail, 23+pos, got)
		}
	}
}

// Finding 3: after a schema body the comments in front of the next keyword are read with
// the comment grammar of the dependency, which differs from the one of this library:
// "## text" is an error there, and "#####" is a complete block comment there (an opened one
// here), so the same lines make the keyword GET recognised or not depending on the
// preceding directive.
func TestC13_CommentsAtDirectiveStartAfterBody(t *testing.T) {
	for _, tail := range []string{
		"## text\nGET /a\n",
		"#####\nGET /a\n######\nGET /b\n",
		"#####\nGET /a\n###\nGET /b\n",
	} {
		ref := c13Build(c13AfterURL + tail)
		got := c13Build(c13AfterBody + tail)
		if strings.HasPrefix(ref, "ERR") != strings.HasPrefix(got, "ERR") || (strings.HasPrefix(ref, "OK") && ref != got) {
			t.Errorf("%q\n   after URL:           %s\n   after a schema body: %s", tail, ref, got)
		}
	}
}

// Finding 4: the ban of a directive (and the "JSIGHT in an included file" check) is applied
// as soon as the last letter of the keyword is read, before the byte behind the keyword is
// looked at: "GETx" is treated as the directive GET.
func TestC13_BanAppliedToWordWhichIsNotAKeyword(t *testing.T) {
	doc := "JSIGHT 0.3\nGETx /a\n"
	ref := c13Build(doc)
	if !strings.HasPrefix(ref, "ERR 14 invalid character 'x'") {
		t.Fatalf("reference: %s", ref)
	}
	if got := c13Build(doc, core.WithBannedDirectives(directive.Get)); got != ref {
		t.Errorf("'GETx' is not the keyword GET, want %q, got %q", ref, got)
	}
}
