// dir: kit
package kit

import (
	"fmt"
	"strings"
	"testing"

	"github.com/jsightapi/jsight-schema-core/fs"
)

// c08Build returns the catalog JSON of an accepted document, or the error
// message and the line of a rejected one.
func c08Build(doc string) (json, msg string, line int) {
	defer func() {
		if r := recover(); r != nil {
			json, msg, line = "", fmt.Sprintf("PANIC: %v", r), -1
		}
	}()
	j, je := NewJApiFromFile(fs.NewFile("root.jst", doc))
	if je != nil {
		return "", je.Msg, int(je.Line)
	}
	b, err := j.ToJson()
	if err != nil {
		return "", "ToJson: " + err.Error(), -1
	}
	return string(b), "", 0
}

func c08CRLF(s string) string { return strings.ReplaceAll(s, "\n", "\r\n") }

// c08Same requires the same verdict, the same catalog, the same error message and
// the error line shifted by dl.
func c08Same(t *testing.T, name, a, b string, dl int) {
	t.Helper()
	ja, ma, la := c08Build(a)
	jb, mb, lb := c08Build(b)
	if ja != jb || ma != mb || (ma != "" && la+dl != lb) {
		t.Errorf("%s: layout rewrite changed the result\n A %q\n   -> catalog=%s err=%q line=%d\n B %q\n   -> catalog=%s err=%q line=%d",
			name, a, ja, ma, la, b, jb, mb, lb)
	}
}

// Finding 1: a bare "#" comment line (empty comment) next to a schema body
// swallows the following line, with LF and CR but not with CRLF.
func TestC08_BareHashCommentSwallowsNextLine(t *testing.T) {
	plain := "JSIGHT 0.3\nGET /a\n  200\n    {}\n  404 any\n"
	commented := "JSIGHT 0.3\nGET /a\n  200\n    {}\n#\n  404 any\n"
	// comment line between two directives: the 404 response disappears silently
	c08Same(t, "comment inserted", plain, commented, 1)
	// same bytes, only the line endings differ: different catalogs
	c08Same(t, "LF vs CRLF", commented, c08CRLF(commented), 0)
	// in front of a TYPE body: the build succeeds, ToJson fails with "Empty schema"
	c08Same(t, "before TYPE body", "JSIGHT 0.3\nTYPE @a\n{}\n", "JSIGHT 0.3\nTYPE @a\n#\n{}\n", 1)
}

// Finding 2: comments which the API scanner accepts everywhere else are rejected
// (or break the next directive) when they stand next to a schema body.
func TestC08_CommentFormsRejectedNextToSchemaBody(t *testing.T) {
	// accepted after a body-less directive ...
	c08Same(t, "## after 'any' type", "JSIGHT 0.3\nTYPE @a any\nTYPE @b\n{}\n", "JSIGHT 0.3\nTYPE @a any\n## c\nTYPE @b\n{}\n", 1)
	c08Same(t, "block+directive after 'any' type", "JSIGHT 0.3\nTYPE @a any\nTYPE @b\n{}\n", "JSIGHT 0.3\nTYPE @a any\n### c ### TYPE @b\n{}\n", 0)
	// ... rejected after a schema body
	c08Same(t, "## after schema", "JSIGHT 0.3\nTYPE @a\n{}\nTYPE @b\n{}\n", "JSIGHT 0.3\nTYPE @a\n{}\n## c\nTYPE @b\n{}\n", 1)
	c08Same(t, "block+directive after schema", "JSIGHT 0.3\nTYPE @a\n{}\nTYPE @b\n{}\n", "JSIGHT 0.3\nTYPE @a\n{}\n### c ### TYPE @b\n{}\n", 0)
	c08Same(t, "### c #### after schema", "JSIGHT 0.3\nTYPE @a\n{}\nTYPE @b\n{}\n", "JSIGHT 0.3\nTYPE @a\n{}\n### c ####\nTYPE @b\n{}\n", 1)
}

// Finding 3: a note of an ENUM value which spans lines is copied into the catalog
// with the raw line break bytes and the indentation (corpus: others/SERV-144.jst).
func TestC08_EnumNoteKeepsLineBreakBytesAndIndentation(t *testing.T) {
	doc := "JSIGHT 0.3\nENUM @e\n[\n  1 /* one\n  uno */\n]\n"
	c08Same(t, "LF vs CRLF", doc, c08CRLF(doc), 0)
	c08Same(t, "LF vs CR", doc, strings.ReplaceAll(doc, "\n", "\r"), 0)
	c08Same(t, "re-indented", doc, "JSIGHT 0.3\n    ENUM @e\n    [\n      1 /* one\n      uno */\n    ]\n", 0)
}

// Finding 4: the error line, column and quote are computed with ONE line break
// byte per file (the one of the first line break), so a file which mixes CR with
// LF line endings gets a wrong error position.
func TestC08_MixedLineBreaksErrorPosition(t *testing.T) {
	lf := "JSIGHT 0.3\nGET /a\n  200 any\nFOO\n"
	c08Same(t, "first break CR, others LF", lf, "JSIGHT 0.3\rGET /a\n  200 any\nFOO\n", 0)
	c08Same(t, "first break LF, others CR", lf, "JSIGHT 0.3\nGET /a\r  200 any\rFOO\r", 0)
}

// Finding 5: CRLF line endings change the error class of a rejected document
// (the "after inline annotation" guard of the schema scanner lives for one byte).
func TestC08_CRLFChangesErrorClass(t *testing.T) {
	doc := "JSIGHT 0.3\nTYPE @a\n{\n \"foo\": \"bar\", // c1\n // c2\n \"b\": 1\n}\n"
	c08Same(t, "LF vs CRLF", doc, c08CRLF(doc), 0)
}

// Finding 6: a comment line between the keyword line and the body is accepted for
// every body-carrying directive except TYPE / Body with the regex notation.
func TestC08_CommentBeforeRegexBody(t *testing.T) {
	// accepted: Request / response with regex, TYPE with a jsight schema
	c08Same(t, "200 regex", "JSIGHT 0.3\nGET /a\n 200 regex\n /a/\n", "JSIGHT 0.3\nGET /a\n 200 regex\n# c\n /a/\n", 1)
	c08Same(t, "TYPE jsight", "JSIGHT 0.3\nTYPE @a\n{}\n", "JSIGHT 0.3\nTYPE @a\n# c\n{}\n", 1)
	// rejected
	c08Same(t, "TYPE regex", "JSIGHT 0.3\nTYPE @a regex\n/a/\n", "JSIGHT 0.3\nTYPE @a regex\n# c\n/a/\n", 1)
	c08Same(t, "Body regex", "JSIGHT 0.3\nPOST /a\n Request\n  Body regex\n  /a/\n", "JSIGHT 0.3\nPOST /a\n Request\n  Body regex\n# c\n  /a/\n", 1)
	// '//' versus '/* */' with a trailing comment on the keyword line
	c08Same(t, "annotation form", "JSIGHT 0.3\nTYPE @a regex // x # c\n/a/\n", "JSIGHT 0.3\nTYPE @a regex /* x */ # c\n/a/\n", 0)
}
