// dir: kit
package kit

import (
	"testing"

	"github.com/jsightapi/jsight-schema-core/fs"
)

// c10Build builds the document and returns the catalog JSON or the build error text.
func c10Build(t *testing.T, src string) (string, string) {
	t.Helper()
	j, je := NewJApiFromFile(fs.NewFile("root.jst", src))
	if je != nil {
		return "", je.Error()
	}
	b, err := j.ToJsonIndent()
	if err != nil {
		return "", "ToJsonIndent: " + err.Error()
	}
	return string(b), ""
}

// c10Same fails unless the macro form and the in-place form give the same catalog.
func c10Same(t *testing.T, name, macroForm, inPlace string) {
	t.Helper()
	p, pe := c10Build(t, inPlace)
	if pe != "" {
		t.Fatalf("%s: the in-place form must build, got: %s", name, pe)
	}
	m, me := c10Build(t, macroForm)
	if me != "" {
		t.Errorf("%s: in-place form builds, macro form is rejected: %s", name, me)
		return
	}
	if m != p {
		t.Errorf("%s: catalogs differ\n--- macro form ---\n%s\n--- in-place form ---\n%s", name, m, p)
	}
}

// Finding 1a: sibling runs made of Tags / OperationId / Protocol+Method / Params+Result / TAG
// cannot be abstracted into a MACRO: the MACRO context does not admit these directives.
func TestC10_MacroBodyRejectsNewerDirectives(t *testing.T) {
	c10Same(t, "Tags+OperationId run of a method",
		"JSIGHT 0.3\nTAG @t\nMACRO @m\n(\n  Tags @t\n  OperationId op1\n  200 any\n)\nGET /a\n  PASTE @m\n",
		"JSIGHT 0.3\nTAG @t\nGET /a\n  Tags @t\n  OperationId op1\n  200 any\n")

	c10Same(t, "Protocol+Method run of a URL",
		"JSIGHT 0.3\nMACRO @m\n(\n  Protocol json-rpc-2.0\n  Method foo\n    Params\n      {}\n)\nURL /a\n  PASTE @m\n",
		"JSIGHT 0.3\nURL /a\n  Protocol json-rpc-2.0\n  Method foo\n    Params\n      {}\n")

	c10Same(t, "Params+Result run of a JSON-RPC method",
		"JSIGHT 0.3\nMACRO @m\n(\n  Params\n    {}\n  Result\n    {}\n)\nURL /a\n  Protocol json-rpc-2.0\n  Method foo\n    PASTE @m\n",
		"JSIGHT 0.3\nURL /a\n  Protocol json-rpc-2.0\n  Method foo\n    Params\n      {}\n    Result\n      {}\n")

	c10Same(t, "TAG at the root",
		"JSIGHT 0.3\nMACRO @m\n(\n  TAG @t\n)\nPASTE @m\nGET /a\n  Tags @t\n",
		"JSIGHT 0.3\nTAG @t\nGET /a\n  Tags @t\n")
}

// Finding 1b: PASTE is not admitted in the context of Method and TAG, so a run of their
// children (Description) cannot be replaced by a macro call when the context is explicit.
func TestC10_PasteRejectedInMethodAndTagContext(t *testing.T) {
	c10Same(t, "Description of a JSON-RPC method",
		"JSIGHT 0.3\nMACRO @m\n(\n  Description\n    hello\n)\nURL /a\n  Protocol json-rpc-2.0\n  Method foo\n  (\n    PASTE @m\n  )\n",
		"JSIGHT 0.3\nURL /a\n  Protocol json-rpc-2.0\n  Method foo\n  (\n    Description\n      hello\n  )\n")

	c10Same(t, "Description of a TAG",
		"JSIGHT 0.3\nMACRO @m\n(\n  Description\n    hello\n)\nTAG @t\n(\n  PASTE @m\n)\nGET /a\n  Tags @t\n",
		"JSIGHT 0.3\nTAG @t\n(\n  Description\n    hello\n)\nGET /a\n  Tags @t\n")
}

// Finding 2: in a MACRO written without parentheses a method with its own path that follows a URL
// leaves the macro and becomes a root directive: the never pasted MACRO contributes an interaction,
// and a PASTE of it does not bring the method.
func TestC10_ImplicitMacroLeaksMethodWithPath(t *testing.T) {
	// (a) MACRO definitions contribute nothing - the macro is never pasted.
	c10Same(t, "never pasted macro",
		"JSIGHT 0.3\nMACRO @m\n  URL /a\n  GET /b\n    200 any\n",
		"JSIGHT 0.3\n")

	// the same macro with the explicit context behaves as required
	c10Same(t, "never pasted macro, explicit context (control)",
		"JSIGHT 0.3\nMACRO @m\n(\n  URL /a\n  GET /b\n    200 any\n)\n",
		"JSIGHT 0.3\n")

	// (b) the call equals the body in place: here the order of the interactions shows
	// that GET /b stays where the MACRO is written instead of where it is pasted.
	c10Same(t, "pasted macro",
		"JSIGHT 0.3\nMACRO @m\n  URL /a\n  GET /b\n    200 any\nTAG @t\nGET /c\n  200 any\nPASTE @m\n",
		"JSIGHT 0.3\nTAG @t\nGET /c\n  200 any\nURL /a\nGET /b\n  200 any\n")
}
