// dir: kit
package kit

import (
	"fmt"
	"os"
	"path/filepath"
	"strings"
	"testing"
)

// c03Build writes the project to a temporary directory and builds root.jst.
// It returns ("", 0, "") when the project is accepted (and ToJson works),
// otherwise the base name of the file, the line and the message of the error.
func c03Build(t *testing.T, files map[string]string) (file string, line int, msg string) {
	t.Helper()
	dir := t.TempDir()
	for n, c := range files {
		p := filepath.Join(dir, n)
		_ = os.MkdirAll(filepath.Dir(p), 0o755)
		if err := os.WriteFile(p, []byte(c), 0o600); err != nil {
			t.Fatal(err)
		}
	}
	defer func() {
		if r := recover(); r != nil {
			file, line, msg = "PANIC", 0, fmt.Sprint(r)
		}
	}()
	j, je := NewJapi(filepath.Join(dir, "root.jst"))
	if je != nil {
		return filepath.Base(je.File.Name()), int(je.Line), je.Msg
	}
	if _, err := j.ToJson(); err != nil {
		return "TOJSON", 0, err.Error()
	}
	return "", 0, ""
}

func c03Root(s string) map[string]string { return map[string]string{"root.jst": s} }

func c03Expect(t *testing.T, files map[string]string, wantFile string, wantLine int, wantMsgPart string) {
	t.Helper()
	f, l, m := c03Build(t, files)
	if f == "" {
		t.Errorf("the faulty project was ACCEPTED, want an error at %s:%d (%s)", wantFile, wantLine, wantMsgPart)
		return
	}
	if f != wantFile || l != wantLine || !strings.Contains(m, wantMsgPart) {
		t.Errorf("got %s:%d %q, want %s:%d with %q", f, l, m, wantFile, wantLine, wantMsgPart)
	}
}

// F1: a forbidden annotation on the Body directive of a response is accepted
// (the same annotation on the Body of a Request is rejected; testdata err_31_body.jst
// expects the error on the Body keyword).
func TestC03ResponseBodyAnnotationAccepted(t *testing.T) {
	c03Expect(t, c03Root("JSIGHT 0.3\nGET /a\n  200\n    Body any // note\n"),
		"root.jst", 4, "annotation is not allowed")
}

// F2a: ENUM without the required name is accepted (an enum called "" gets into the catalog).
func TestC03EnumWithoutNameAccepted(t *testing.T) {
	c03Expect(t, c03Root("JSIGHT 0.3\nENUM\n[1,2]\nGET /a\n  200 any\n"),
		"root.jst", 2, "required parameter")
}

// F2b: ENUM without a body as the last line of the file (no final line break) is accepted.
func TestC03EnumWithoutBodyAtEOFAccepted(t *testing.T) {
	f, l, m := c03Build(t, c03Root("JSIGHT 0.3\nGET /a\n  200 any\nENUM @e"))
	if f == "" {
		t.Errorf("ENUM without body was ACCEPTED")
	} else {
		t.Logf("%s:%d %s", f, l, m)
	}
}

// F3: a reference to an undefined tag is accepted when the name equals the automatic
// path tag of an interaction declared earlier ("/cats" -> "@cats").
func TestC03UndefinedTagEqualToPathTagAccepted(t *testing.T) {
	// The same document with the two interactions swapped is rejected (tag not found "@cats").
	c03Expect(t, c03Root("JSIGHT 0.3\nGET /cats\n  200 any\nGET /dogs\n  Tags @cats\n  200 any\n"),
		"root.jst", 5, "tag not found")
}

// F4: JSIGHT which is not the first directive is accepted when the directives before it
// are MACRO definitions (also through INCLUDE).
func TestC03JsightNotFirstAfterMacroAccepted(t *testing.T) {
	f, l, m := c03Build(t, c03Root("MACRO @m\n(\n  200 any\n)\nJSIGHT 0.3\nGET /a\n  PASTE @m\n"))
	if f == "" {
		t.Errorf("MACRO before JSIGHT was ACCEPTED")
	} else if !strings.Contains(m, "first directive") {
		t.Errorf("got %s:%d %s", f, l, m)
	}
	f, l, m = c03Build(t, map[string]string{
		"root.jst": "INCLUDE m.jst\nJSIGHT 0.3\nGET /a\n  PASTE @m\n",
		"m.jst":    "MACRO @m\n(\n  200 any\n)\n",
	})
	if f == "" {
		t.Errorf("INCLUDE (of a MACRO) before JSIGHT was ACCEPTED")
	} else if !strings.Contains(m, "first directive") {
		t.Errorf("got %s:%d %s", f, l, m)
	}
}

// F5: an undefined type in TYPE @t1 (line 8) is reported inside TYPE @t2 (line 3), which
// only includes @t1 through allOf, when the types form a cycle.
func TestC03UndefinedTypeLocatedInWrongTypeThroughAllOf(t *testing.T) {
	doc := "JSIGHT 0.3\n" +
		"TYPE @t2\n" +
		"{ // {allOf: \"@t1\"}\n" +
		"  \"p2\": 1\n" +
		"}\n" +
		"TYPE @t1\n" +
		"{\n" +
		"  \"p1\": @NOPE,\n" + // line 8
		"  \"q1\": [@t0]\n" +
		"}\n" +
		"TYPE @t0\n" +
		"{\n" +
		"  \"p0\": [@t2]\n" +
		"}\n" +
		"GET /a\n  200 any\n"
	c03Expect(t, c03Root(doc), "root.jst", 8, `Type "@NOPE" not found`)
}

// F6: mixed line breaks: the scanner accepts LF, CR and CRLF anywhere, but the line of the
// error counts only the kind of line break met first in the file.
func TestC03WrongLineWithMixedLineBreaks(t *testing.T) {
	// the duplicate GET /a is on the 4th line
	c03Expect(t, c03Root("JSIGHT 0.3\nGET /a\r  200 any\rGET /a\r  200 any\r"),
		"root.jst", 4, "already been defined")
	c03Expect(t, c03Root("JSIGHT 0.3\r\nGET /a\r  200 any\rGET /a\r  200 any\r"),
		"root.jst", 4, "already been defined")
}

// F7: a reference to an undefined type in the body of a Path directive is accepted by the build.
func TestC03UndefinedTypeInPathBodyAccepted(t *testing.T) {
	// silently ignored
	f, _, m := c03Build(t, c03Root("JSIGHT 0.3\nGET /a/{k}\n  Path\n    {\n      @x: 1\n    }\n  200 any\n"))
	if f == "" {
		t.Errorf("Path {@x: 1} with the undefined @x was ACCEPTED")
	}
	// accepted by the build, ToJson fails
	f, _, m = c03Build(t, c03Root("JSIGHT 0.3\nGET /a/{k}\n  Path\n    {\n      \"k\": 1 // {type: \"@x\"}\n    }\n  200 any\n"))
	if f == "TOJSON" || f == "" {
		t.Errorf("Path with {type: \"@x\"} was accepted by the build: %s %s", f, m)
	}
}

// F8: the error has the right place, but its message is not the message of the class.
func TestC03MessageIsNotTheClassMessage(t *testing.T) {
	// `200 @x` gives exactly `Type "@x" not found`, `Request @x` gives a multi-line dump.
	_, _, m := c03Build(t, c03Root("JSIGHT 0.3\nPOST /a\n  Request @x\n  200 any\n"))
	if m != `Type "@x" not found` {
		t.Errorf("Request @x: message %q", m)
	}
	// PASTE of an undefined macro written in an included file: the message contains the include trace.
	_, _, m = c03Build(t, map[string]string{
		"root.jst": "JSIGHT 0.3\nGET /a\n  INCLUDE a.jst\n  200 any\n",
		"a.jst":    "PASTE @nope\n",
	})
	if m != "macro not found" {
		t.Errorf("PASTE @nope in a.jst: message %q", m)
	}
}

// F9: a second Request directive of the same method is merged silently when the two do not
// define the same part.
func TestC03SecondRequestDirectiveAccepted(t *testing.T) {
	c03Expect(t, c03Root("JSIGHT 0.3\nPOST /a\n  Request\n    Headers\n      {}\n  Request\n    Body any\n  200 any\n"),
		"root.jst", 6, "already been defined")
}

// F10: an annotation without text on a directive which cannot have annotations is accepted.
func TestC03BlankAnnotationAccepted(t *testing.T) {
	c03Expect(t, c03Root("JSIGHT 0.3\nURL /a /* */\n  GET\n    200 any\n"),
		"root.jst", 2, "annotation is not allowed")
}
