// dir: kit
package kit

import (
	"bytes"
	"encoding/json"
	"strings"
	"testing"

	"github.com/jsightapi/jsight-schema-core/fs"
)

// c04Build builds the document and fails the test when the builder rejects it:
// every input below has to be ACCEPTED, the property is about what follows.
func c04Build(t *testing.T, src string) JApi {
	t.Helper()
	j, je := NewJApiFromFile(fs.NewFile("root.jst", src))
	if je != nil {
		t.Skipf("the builder rejects the document (no violation any more): %s", je.Error())
	}
	return j
}

// c04Serialise checks the C04 obligations which do not need the shape.
func c04Serialise(t *testing.T, j JApi) []byte {
	t.Helper()
	a, err := j.ToJson()
	if err != nil {
		t.Errorf("the build succeeded, ToJson failed: %v", err)
	}
	b, err2 := j.ToJsonIndent()
	if err2 != nil {
		t.Errorf("the build succeeded, ToJsonIndent failed: %v", err2)
	}
	if err == nil && err2 == nil {
		var ca, cb bytes.Buffer
		_ = json.Compact(&ca, a)
		_ = json.Compact(&cb, b)
		if !bytes.Equal(ca.Bytes(), cb.Bytes()) {
			t.Errorf("ToJson and ToJsonIndent differ:\n%s\n%s", ca.String(), cb.String())
		}
	}
	return a
}

// Finding 1: an object / array literal carrying an "or" rule.
func TestC04_OrRuleOnObjectOrArrayLiteral(t *testing.T) {
	for _, body := range []string{
		`{} // {or: [{type: "object"}, {type: "string"}]}`,
		`[] // {or: ["array", "string"]}`,
		"{\n   \"k\": {} // {or: [\"object\", \"null\"]}\n  }",
	} {
		j := c04Build(t, "JSIGHT 0.3\nGET /a\n 200\n  "+body+"\n")
		c04Serialise(t, j)
	}
	// the same in a user type: the whole catalog cannot be serialised
	j := c04Build(t, "JSIGHT 0.3\nTYPE @t\n  {} // {or: [\"object\", \"string\"]}\n")
	c04Serialise(t, j)
}

// Finding 2: a type reference carrying an "or" rule of built-in types.
func TestC04_OrRuleOnTypeReference(t *testing.T) {
	j := c04Build(t, "JSIGHT 0.3\nTYPE @s\n \"x\"\nGET /a\n 200\n  @s // {or: [\"integer\", \"string\"]}\n")
	c04Serialise(t, j)
}

// Finding 3: allOf where the parent has the key shortcut @s and the heir the literal key "@s".
func TestC04_AllOfShortcutKeyVersusLiteralKey(t *testing.T) {
	src := "JSIGHT 0.3\nTYPE @s\n \"x\"\nTYPE @p\n {\n  @s : 1\n }\nGET /a\n 200\n  { // {allOf: \"@p\"}\n   \"@s\": 2\n  }\n"
	j := c04Build(t, src)
	c04Serialise(t, j) // ToJson fails, the following ToJsonIndent "succeeds" without the inherited property

	// the other direction
	src = "JSIGHT 0.3\nTYPE @s\n \"x\"\nTYPE @p\n {\n  \"@s\": 1\n }\nGET /a\n 200\n  { // {allOf: \"@p\"}\n   @s : 2\n  }\n"
	j = c04Build(t, src)
	c04Serialise(t, j)
}

// Finding 4: a 10 KB body nested 4997 levels deep (takes about 10 s).
func TestC04_DeepNesting(t *testing.T) {
	if testing.Short() {
		t.Skip("slow")
	}
	const n = 4997
	j := c04Build(t, "JSIGHT 0.3\nGET /a\n 200\n  "+strings.Repeat("[", n)+strings.Repeat("]", n)+"\n")
	if _, err := j.ToJson(); err != nil {
		t.Errorf("the build succeeded, ToJson failed: %.300s", err.Error())
	}
}

// Finding 5: an empty enumeration gives an "array" rule node without "children".
func TestC04_EmptyEnumHasNoChildren(t *testing.T) {
	j := c04Build(t, "JSIGHT 0.3\nENUM @e\n []\nGET /a\n 200\n  null // {enum: [], nullable: true}\n")
	doc := c04Serialise(t, j)

	var d struct {
		UserEnums map[string]struct {
			Value map[string]json.RawMessage `json:"value"`
		} `json:"userEnums"`
		Interactions map[string]struct {
			Responses []struct {
				Body struct {
					Schema struct {
						Content struct {
							Rules []map[string]json.RawMessage `json:"rules"`
						} `json:"content"`
					} `json:"schema"`
				} `json:"body"`
			} `json:"responses"`
		} `json:"interactions"`
	}
	if err := json.Unmarshal(doc, &d); err != nil {
		t.Fatal(err)
	}
	v := d.UserEnums["@e"].Value
	if string(v["tokenType"]) == `"array"` {
		if _, ok := v["children"]; !ok {
			t.Errorf(`userEnums/@e/value has tokenType "array" but no "children": %v`, mapString(v))
		}
	}
	for _, r := range d.Interactions["http GET /a"].Responses[0].Body.Schema.Content.Rules {
		if string(r["tokenType"]) == `"array"` {
			if _, ok := r["children"]; !ok {
				t.Errorf(`the rule %s has tokenType "array" but no "children": %v`, r["key"], mapString(r))
			}
		}
	}
}

func mapString(m map[string]json.RawMessage) string {
	b, _ := json.Marshal(m)
	return string(b)
}
