// dir: kit
package kit

import (
	"os"
	"path/filepath"
	"strings"
	"testing"
)

// c11Build writes the document to a temporary project and builds it.
// It returns "" when the build succeeds, otherwise "<line>: <message>".
func c11Build(t *testing.T, doc string) (line int, msg string) {
	t.Helper()
	dir := t.TempDir()
	p := filepath.Join(dir, "root.jst")
	if err := os.WriteFile(p, []byte(doc), 0o644); err != nil {
		t.Fatal(err)
	}
	_, je := NewJapi(p)
	if je == nil {
		return 0, ""
	}
	return int(je.Line), je.Msg
}

// Finding 1: a comment between the keyword line of TYPE / Body and the opening
// parenthesis of its explicit context makes the scanner hand "(" to the schema reader.
func TestC11_CommentBeforeOpeningParenthesisOfTypeAndBody(t *testing.T) {
	docs := map[string]string{
		// control group: accepted (same layout, no comment / other body directive)
		"control TYPE without comment": "JSIGHT 0.3\nTYPE @t\n(\n{}\n)\n",
		"control ENUM with comment":    "JSIGHT 0.3\nENUM @e\n# c\n(\n[1]\n)\n",
		"control Headers with comment": "JSIGHT 0.3\nGET /a\n 200 any\n  Headers\n# c\n  (\n  {}\n  )\n",
		// violations
		"TYPE, line comment before (":  "JSIGHT 0.3\nTYPE @t\n# c\n(\n{}\n)\n",
		"TYPE, block comment before (": "JSIGHT 0.3\nTYPE @t\n###\nc\n###\n(\n{}\n)\n",
		"TYPE, ( # c then second (":    "JSIGHT 0.3\nTYPE @t\n( # c\n(\n{}\n)\n",
		"Body, line comment before (":  "JSIGHT 0.3\nGET /a\n 200\n  Body\n# c\n  (\n  {}\n  )\n",
	}
	for name, doc := range docs {
		if line, msg := c11Build(t, doc); msg != "" {
			t.Errorf("%s: the context table allows the directive here, but the build failed at line %d: %s", name, line, msg)
		}
	}
}

// Finding 2: an unclosed "(" of a Description is not reported as an unclosed parenthesis;
// the rest of the file is swallowed and the error is "the description cannot be empty".
func TestC11_UnclosedParenthesisOfDescription(t *testing.T) {
	doc := "JSIGHT 0.3\nGET /a\n  Description\n  (\n    text\n  200 any\n"
	_, msg := c11Build(t, doc)
	if !strings.HasPrefix(msg, "this opening parenthesis is not closed") {
		t.Errorf("expected the unclosed-parenthesis error, got: %q", msg)
	}
	// the same document with any other directive gives the expected error
	_, msg = c11Build(t, "JSIGHT 0.3\nGET /a\n  (\n  200 any\n")
	if !strings.HasPrefix(msg, "this opening parenthesis is not closed") {
		t.Errorf("control: expected the unclosed-parenthesis error, got: %q", msg)
	}
}

// Finding 3: GET "" (a Path parameter is written, but empty) is treated as a method
// without a path: it is accepted inside an explicit URL and stays a child of an implicit URL.
func TestC11_MethodWithEmptyQuotedPathInsideURL(t *testing.T) {
	// control: the same directive in the root has a path problem
	if _, msg := c11Build(t, "JSIGHT 0.3\nGET \"\"\n  200 any\n"); msg == "" {
		t.Errorf("control: GET \"\" in the root was accepted")
	}
	// control: a method with its own path inside an explicit URL is rejected
	if _, msg := c11Build(t, "JSIGHT 0.3\nURL /a\n(\n  GET /b\n    200 any\n)\n"); !strings.HasPrefix(msg, "incorrect context for the directive") {
		t.Errorf("control: got %q", msg)
	}
	if _, msg := c11Build(t, "JSIGHT 0.3\nURL /a\n(\n  GET \"\"\n    200 any\n)\n"); msg == "" {
		t.Errorf("GET \"\" inside the explicit URL /a was accepted (as GET /a)")
	}
	if _, msg := c11Build(t, "JSIGHT 0.3\nURL /a\n  GET \"\"\n    200 any\n"); msg == "" {
		t.Errorf("GET \"\" inside the implicit URL /a did not start a new root: accepted as GET /a")
	}
}
