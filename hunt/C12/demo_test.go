// dir: kit
package kit

// Demonstrations for property C12 (the scanner reports exactly the lexemes that are in the text).
// Every test below FAILS on the unmodified library.

import (
	"fmt"
	"strings"
	"testing"

	"github.com/jsightapi/jsight-schema-core/fs"

	"github.com/jsightapi/jsight-api-core/scanner"
)

// c12Lexemes returns the lexeme stream as "type:value" strings, or the scanner error.
func c12Lexemes(content string) (res []string, err error) {
	defer func() {
		if p := recover(); p != nil {
			err = fmt.Errorf("panic: %v", p)
		}
	}()
	s := scanner.NewJApiScanner(fs.NewFile("root.jst", content))
	for i := 0; i < 10000; i++ {
		l, je := s.Next()
		if je != nil {
			return res, fmt.Errorf("%s (index %d)", je.Error(), je.Index)
		}
		if l == nil {
			return res, nil
		}
		res = append(res, fmt.Sprintf("%d:%s", l.Type(), l.Value().String()))
	}
	return res, fmt.Errorf("endless")
}

func c12Build(content string) (string, error) {
	j, je := NewJApiFromFile(fs.NewFile("root.jst", content))
	if je != nil {
		return "", fmt.Errorf("build: %s (index %d)", je.Error(), je.Index)
	}
	b, err := j.ToJson()
	if err != nil {
		return "", fmt.Errorf("ToJson: %w", err)
	}
	return string(b), nil
}

func c12HasLexeme(ll []string, t scanner.LexemeType, v string) bool {
	want := fmt.Sprintf("%d:%s", t, v)
	for _, l := range ll {
		if l == want {
			return true
		}
	}
	return false
}

// Finding 1: an empty '#' comment (a '#' directly followed by LF or CR) next to a schema
// body makes the Schema lexeme swallow the following line: a directive silently vanishes.
func TestC12_EmptyHashCommentNextToSchemaBodySwallowsNextLine(t *testing.T) {
	doc := "JSIGHT 0.3\nTYPE @a\n{}\n#\nGET /a\n"

	ll, err := c12Lexemes(doc)
	if err != nil {
		t.Fatalf("scanner error: %v", err)
	}
	if !c12HasLexeme(ll, scanner.Schema, "{}") {
		t.Errorf("the body {} is not reported as it is written; lexemes: %q", ll)
	}
	if !c12HasLexeme(ll, scanner.Keyword, "GET") {
		t.Errorf("the directive GET /a is not reported; lexemes: %q", ll)
	}

	out, err := c12Build(doc)
	if err != nil {
		t.Fatalf("unexpected error: %v", err)
	}
	if !strings.Contains(out, `"http GET /a"`) {
		t.Errorf("GET /a is missing in the catalog: %s", out)
	}

	// The same with the comment on the body line, and with a closing parenthesis as the victim.
	ll, _ = c12Lexemes("TYPE @a\n{} #\nGET /a\nGET /b\n")
	if !c12HasLexeme(ll, scanner.Parameter, "/a") {
		t.Errorf("'{} #': GET /a is not reported; lexemes: %q", ll)
	}
	if _, err := c12Build("JSIGHT 0.3\nURL /a\n(\nGET\n200\n{}\n#\n)\n"); err != nil {
		t.Errorf("well-formed document is rejected (the closing parenthesis is swallowed): %v", err)
	}
	// The result depends on the kind of the line break: CRLF works.
	if out, err := c12Build("JSIGHT 0.3\r\nTYPE @a\r\n{}\r\n#\r\nGET /a\r\n"); err != nil || !strings.Contains(out, `"http GET /a"`) {
		t.Errorf("CRLF variant: %v %s", err, out)
	}
}

// Finding 2: an empty '//' annotation after an ENUM body swallows the next non-blank line.
func TestC12_EmptyAnnotationAfterEnumBodySwallowsNextLine(t *testing.T) {
	doc := "JSIGHT 0.3\nENUM @e\n[1] //\nGET /a\n"

	ll, err := c12Lexemes(doc)
	if err != nil {
		t.Fatalf("scanner error: %v", err)
	}
	if !c12HasLexeme(ll, scanner.Keyword, "GET") {
		t.Errorf("the directive GET /a is not reported; lexemes: %q", ll)
	}

	out, err := c12Build(doc)
	if err != nil {
		t.Fatalf("unexpected error: %v", err)
	}
	if !strings.Contains(out, `"http GET /a"`) || strings.Contains(out, `"note":"GET /a"`) {
		t.Errorf("GET /a became the note of the enum value: %s", out)
	}
}

// Finding 3: comments next to a schema body are scanned by the schema library with another
// comment dialect, and they become a part of the Schema lexeme; TYPE and Body do not accept a
// comment line in front of a regex body at all.
func TestC12_CommentsNextToBodies(t *testing.T) {
	// '## c' is a line comment everywhere ...
	if _, err := c12Build("JSIGHT 0.3\nGET /b\n## c\nTYPE @a\n{}\n"); err != nil {
		t.Fatalf("reference document: %v", err)
	}
	// ... but not behind or in front of a schema body.
	if _, err := c12Build("JSIGHT 0.3\nTYPE @a\n{}\n## c\nGET /b\n"); err != nil {
		t.Errorf("'## c' behind a body: %v", err)
	}
	if _, err := c12Build("JSIGHT 0.3\nTYPE @a\n## c\n{}\nGET /b\n"); err != nil {
		t.Errorf("'## c' in front of a TYPE body: %v", err)
	}
	// It is accepted in front of a response body.
	if _, err := c12Build("JSIGHT 0.3\nGET /b\n200\n## c\n{}\n"); err != nil {
		t.Errorf("'## c' in front of a 200 body: %v", err)
	}

	// The Schema lexeme is not the body.
	ll, err := c12Lexemes("TYPE @a\n{}\n# c\nGET /b\n")
	if err != nil || !c12HasLexeme(ll, scanner.Schema, "{}") {
		t.Errorf("the Schema lexeme is not the body {}: %q %v", ll, err)
	}
	ll, err = c12Lexemes("TYPE @a\n# c\n{}\nGET /b\n")
	if err != nil || !c12HasLexeme(ll, scanner.Schema, "{}") {
		t.Errorf("the Schema lexeme is not the body {}: %q %v", ll, err)
	}

	// A comment line between the keyword line and a regex body: fine for 200, rejected for TYPE and Body.
	if _, err := c12Build("JSIGHT 0.3\nGET /b\n200 regex\n# c\n/ab/\n"); err != nil {
		t.Fatalf("reference document: %v", err)
	}
	if _, err := c12Build("JSIGHT 0.3\nTYPE @r regex\n# c\n/ab/\n"); err != nil {
		t.Errorf("comment in front of the regex body of TYPE: %v", err)
	}
	if _, err := c12Build("JSIGHT 0.3\nGET /b\n200\nBody regex\n# c\n/ab/\n"); err != nil {
		t.Errorf("comment in front of the regex body of Body: %v", err)
	}
}

// Finding 4: the parenthesis of a directive is accepted behind its body
// (the order is keyword, parameters, annotation, parenthesis, body).
func TestC12_ParenthesisBehindBody(t *testing.T) {
	doc := "JSIGHT 0.3\nTYPE @a\n{}\n(\n)\n"
	ll, err := c12Lexemes(doc)
	if err == nil {
		body := -1
		for i, l := range ll {
			if l == fmt.Sprintf("%d:{}", scanner.Schema) {
				body = i
			}
			if body >= 0 && l == fmt.Sprintf("%d:(", scanner.ContextExplicitOpening) {
				t.Errorf("the opening parenthesis follows the body of the same directive: %q", ll)
			}
		}
	}
	if _, err := c12Build(doc); err == nil {
		t.Errorf("the document with the parenthesis behind the body of TYPE is accepted")
	}
	if _, err := c12Build("JSIGHT 0.3\nGET /a\n200\n{}\n(\n Headers\n {\"h\":1}\n)\n"); err == nil {
		t.Errorf("the document with the parenthesis behind the body of 200 is accepted")
	}
}

// Finding 5: a lexeme which is begun but not finished at the end of the file is dropped
// silently: no error, no lexeme.
func TestC12_UnfinishedLexemeAtEndOfFileIsDropped(t *testing.T) {
	// Unterminated multi-line annotation behind an ENUM body: the whole build accepts it.
	if out, err := c12Build("JSIGHT 0.3\nENUM @e\n[1] /*"); err == nil {
		t.Errorf("unterminated '/*' is accepted: %s", out)
	}
	// Compare: behind a TYPE body and behind parameters it is an error.
	if _, err := c12Build("JSIGHT 0.3\nTYPE @a\n{} /*"); err == nil {
		t.Fatalf("reference: unterminated '/*' behind a TYPE body must be an error")
	}

	for _, doc := range []string{
		"INFO\nDescription\n(\n text", // the closing parenthesis of the text is missing
		"TYPE @a regex\n/ab\\",        // the closing '/' is missing (the file ends behind a backslash)
	} {
		ll, err := c12Lexemes(doc)
		if err == nil && !strings.Contains(strings.Join(ll, "|"), fmt.Sprintf("%d:", scanner.Text)) {
			t.Errorf("%q: neither an error nor a Text lexeme: %q", doc, ll)
		}
	}
}

// Cross-property remark (C04 rather than C12, same place in the code): a body that consists
// of an annotation only is accepted by the build and fails in ToJson.
func TestC12_Remark_AnnotationOnlyBody(t *testing.T) {
	j, je := NewJApiFromFile(fs.NewFile("root.jst", "JSIGHT 0.3\nGET /x\n200\n// x"))
	if je != nil {
		return // rejected by the build: fine
	}
	if _, err := j.ToJson(); err != nil {
		t.Errorf("the build accepted the document, ToJson fails: %v", err)
	}
}
