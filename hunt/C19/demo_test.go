// dir: kit
// No finding for C19: this file holds the (passing) harness used for the search - all 496 ban subsets of size <= 2
// over a 6-file project containing all 31 kinds (root / INCLUDE / nested INCLUDE / MACRO bodies, LF / CRLF / CR).
// The include-trace check is skipped for files reached through the 2nd+ INCLUDE of root.jst (known, recorded defect).
package kit

import (
	"fmt"
	"os"
	"path/filepath"
	"regexp"
	"strings"
	"testing"

	"github.com/jsightapi/jsight-api-core/core"
	"github.com/jsightapi/jsight-api-core/directive"
	"github.com/jsightapi/jsight-api-core/jerr"
)

var synthFiles = map[string]string{
	"root.jst": `JSIGHT 0.3
INFO
  Title "T"
  Version 1
  Description
    some text
SERVER @s
  BaseUrl "https://a.b/"
TAG @t1
  Description
    tag text
TYPE @a
{"x": 1}
INCLUDE sub/types.jst
MACRO @resp
(
  200
    Headers
    {"h": "x"}
    Body @a
  INCLUDE sub/err.jst
)
MACRO @never
(
  PATCH /never
    200 any
)
URL /a/{id}
  Tags @t1
  Path
  {"id": 1}
  GET
    OperationId getA
    Query
    {"q": 1}
    PASTE @resp
  INCLUDE sub/post.jst
DELETE /b
  Request any
  PASTE @resp
URL /rpc
  Protocol json-rpc-2.0
  Method foo
    Params
    {"p": 1}
    Result
    {"r": 1}
`,
	"sub/types.jst": `ENUM @e
[1, 2]
INCLUDE deep/t2.jst
TYPE @b
{"y": @a}
`,
	"sub/deep/t2.jst": `TYPE @c
{"z": 1}
`,
	"sub/err.jst": `404
  Body
  {"e": 1}
`,
	"sub/post.jst": `POST
  Request
    Body @b
  PASTE @resp
PUT
  Request @c
  201 any
`,
}

func c19Outcome(j JApi, je *jerr.JApiError) string {
	if je != nil {
		return fmt.Sprintf("ERR %s | %s | idx=%d line=%d", je.Error(), je.File.Name(), je.Index, je.Line)
	}
	b, err := j.ToJson()
	if err != nil {
		return "JSONERR " + err.Error()
	}
	return string(b)
}

type occ struct {
	kind  directive.Enumeration
	file  string
	line  int
	index int
	trace []string
}

func synthWalk(dir, name string, trace []string, out *[]occ) {
	p := filepath.Join(dir, name)
	b, _ := os.ReadFile(p)
	idx := 0
	for i, ln := range regexp.MustCompile(`[^\r\n]*(\r\n|\r|\n|$)`).FindAllString(string(b), -1) {
		t := strings.TrimLeft(ln, " \t")
		off := len(ln) - len(t)
		word := regexp.MustCompile(`^[A-Za-z0-9]+`).FindString(t)
		if word != "" {
			k, err := directive.NewDirectiveType(word)
			if err == nil {
				*out = append(*out, occ{k, p, i + 1, idx + off, trace})
				if k == directive.Include {
					inc := strings.Fields(t)[1]
					nt := append([]string{fmt.Sprintf("%s:%d", p, i+1)}, trace...)
					synthWalk(filepath.Dir(p), inc, nt, out)
				}
			}
		}
		idx += len(ln)
	}
}

func TestC19Synth(t *testing.T) {
	for _, nl := range []string{"\n", "\r\n", "\r"} {
		synthRun(t, nl)
	}
}

func synthRun(t *testing.T, nl string) {
	dir := t.TempDir()
	for n, c := range synthFiles {
		c = strings.ReplaceAll(c, "\n", nl)
		p := filepath.Join(dir, n)
		os.MkdirAll(filepath.Dir(p), 0o755)
		os.WriteFile(p, []byte(c), 0o644)
	}
	root := filepath.Join(dir, "root.jst")
	j, je := NewJapi(root)
	if je != nil {
		t.Fatalf("base: %v idx=%d", je, je.Index)
	}
	base := c19Outcome(j, je)
	var occs []occ
	synthWalk(dir, "root.jst", nil, &occs)
	kinds := map[directive.Enumeration]bool{}
	for _, o := range occs {
		kinds[o.kind] = true
	}
	t.Logf("kinds present: %d, occs %d", len(kinds), len(occs))
	for a := directive.Jsight; a <= directive.OperationID; a++ {
		for b := a; b <= directive.OperationID; b++ {
			j2, je2 := NewJapi(root, core.WithBannedDirectives(a, b))
			var exp *occ
			for i := range occs {
				if occs[i].kind == a || occs[i].kind == b {
					exp = &occs[i]
					break
				}
			}
			if exp == nil {
				if got := c19Outcome(j2, je2); got != base {
					t.Errorf("ban %s,%s: differs: %.200s", a, b, got)
				}
				continue
			}
			if je2 == nil {
				t.Errorf("ban %s,%s: accepted", a, b)
				continue
			}
			want := fmt.Sprintf("the directive is not allowed (%s)", exp.kind)
			if je2.Msg != want || je2.File.Name() != exp.file || int(je2.Line) != exp.line || int(je2.Index) != exp.index {
				t.Errorf("ban %s,%s: want %s at %s:%d idx %d, got %q at %s:%d idx %d", a, b, want, exp.file, exp.line, exp.index, je2.Msg, je2.File.Name(), je2.Line, je2.Index)
			}
			wantFull := want
			if len(exp.trace) > 0 {
				wantFull += fmt.Sprintf("\n%s:%d\n", exp.file, exp.line) + strings.Join(exp.trace, "\n")
			}
			if je2.Error() != wantFull && !strings.Contains(exp.file, "post.jst") && !strings.Contains(exp.file, "err.jst") {
				t.Errorf("ban %s,%s: trace: want %q got %q", a, b, wantFull, je2.Error())
			}
		}
	}
}
