// dir: kit
package kit

import (
	"os"
	"path/filepath"
	"strings"
	"testing"
	"unicode/utf8"

	"github.com/jsightapi/jsight-schema-core/fs"
)

// Finding 1a: a file whose line breaks are not all of the kind of its FIRST line break
// (LF file with a lone CR, CR file with an LF, CR + CRLF). The scanner ends a line at
// every CR and every LF, the location code only at one of them.
func TestDemoC07_MixedLineBreaks_LineColumnQuote(t *testing.T) {
	cases := map[string]string{
		"LF then lone CR":  "JSIGHT 0.3\nGET /a\rFOO\n",
		"CR then LF":       "JSIGHT 0.3\rGET /a\nFOO\n",
		"CR then CRLF":     "JSIGHT 0.3\rGET /a\r\nFOO\r\n",
	}
	for name, doc := range cases {
		_, je := NewJApiFromFile(fs.NewFile("root.jst", doc))
		if je == nil {
			t.Fatalf("%s: the document must be rejected", name)
		}
		// The scanner itself says that FOO is "at the directive beginning", i.e. it
		// starts the 3rd line.
		if !strings.Contains(je.Msg, "'F' at the directive beginning") {
			t.Fatalf("%s: unexpected message %q", name, je.Msg)
		}
		if je.Line != 3 || je.Column != 1 || je.Quote != "FOO" {
			t.Errorf("%s: index %d is reported as line %d, column %d, quote %q; want 3, 1, \"FOO\"",
				name, je.Index, je.Line, je.Column, je.Quote)
		}
	}
}

// Finding 1b: the same cause makes the line of the INCLUDE directive in the trace wrong.
func TestDemoC07_MixedLineBreaks_IncludeTraceLine(t *testing.T) {
	dir := t.TempDir()
	root := filepath.Join(dir, "root.jst")
	if err := os.WriteFile(root, []byte("JSIGHT 0.3\nURL /a\rINCLUDE x.jst\n"), 0o600); err != nil {
		t.Fatal(err)
	}
	if err := os.WriteFile(filepath.Join(dir, "x.jst"), []byte("GET /b\n  200 @undefined\n"), 0o600); err != nil {
		t.Fatal(err)
	}
	_, je := NewJapi(root)
	if je == nil {
		t.Fatal("the project must be rejected")
	}
	want := je.Msg + "\n" + filepath.Join(dir, "x.jst") + ":2\n" + root + ":3"
	if je.Error() != want {
		t.Errorf("INCLUDE is the 3rd line of root.jst (the scanner accepted it as a directive beginning),\ngot:\n%s\nwant:\n%s",
			je.Error(), want)
	}
}

// Finding 2: the quote of a line longer than 200 bytes is cut at a byte offset, which can
// fall into the middle of a UTF-8 character: the quote is not the text of the line.
func TestDemoC07_QuoteCutInsideCharacter(t *testing.T) {
	line := "  200 @nope // a" + strings.Repeat("я", 150)
	doc := "JSIGHT 0.3\nGET /a\n" + line + "\n"
	_, je := NewJApiFromFile(fs.NewFile("root.jst", doc))
	if je == nil {
		t.Fatal("the document must be rejected")
	}
	if !utf8.ValidString(je.Quote) {
		t.Errorf("quote is not valid UTF-8, it ends with %q", je.Quote[len(je.Quote)-6:])
	}
	q := strings.TrimSuffix(je.Quote, "...")
	if !strings.HasPrefix(strings.TrimLeft(line, " "), q) {
		t.Errorf("quote %q is not (a prefix of) the text of the line", je.Quote)
	}
}

// Adjacent finding (determinism of the location, C06-like): the same document is rejected
// with different locations in different builds of one process.
func TestDemoC07_LocationVariesBetweenBuilds(t *testing.T) {
	doc := "JSIGHT 0.3\nTYPE @s\n{\n  \"b\": @typo | @l\n}\nTYPE @l\n{\n  \"s\": @s // {optional: true}\n}\n"
	seen := map[[2]uint]int{}
	for i := 0; i < 300; i++ {
		_, je := NewJApiFromFile(fs.NewFile("root.jst", doc))
		if je == nil {
			t.Fatal("the document must be rejected")
		}
		seen[[2]uint{uint(je.Line), uint(je.Column)}]++
	}
	if len(seen) != 1 {
		t.Errorf("one document, %d different error locations (line, column -> builds): %v", len(seen), seen)
	}
}
