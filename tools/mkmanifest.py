#!/usr/bin/env python3
"""Regenerates MANIFEST.json from the table below and validates it."""
import json, os, subprocess, sys
V = os.path.dirname(os.path.dirname(os.path.abspath(__file__)))
GO = "GOFLAGS=-mod=mod GOPROXY=off GOSUMDB=off GOTOOLCHAIN=local"

# property -> (technique, level text, level note, design ref)
CHECKS = {
 "C10": ("TLC: Macro.tla (collectMacro / recursion check / processPaste as pure operators) over all MACRO-PASTE documents up to a bound + all PASTE graphs over 4 macros; per-document replay on the real expansion and whole-build comparison of macro form vs in-place form",
         "Every document of up to 5 (quick) / 6 (thorough) tokens over a 19-token MACRO/PASTE menu whose tree builds (208 166 / ~2.5 M documents) and every functional PASTE graph over 4 macros (3 125 graphs, all cycle lengths 1-4) is model-checked: expansion = tree of the in-place document, cycles and undefined macros are errors. Each is replayed on the real scanProject+processPaste (tree shape, error class, line) in crash-isolated workers, and the catalog of the macro form is compared with the catalog of the in-place form.",
         "Trusts: one-directive-per-line rendering (C12), TLC. Error wording is compared by class only.",
         "DESIGN.md 5/C10"),
 "C11": ("TLC: complete state graph of the context resolver (Tree.tla) + per-edge replay on the real tree builder + trace validation",
         "The complete, length-unbounded state graph of the context resolver (8 245 states, 275 870 transitions) is model-checked against the declarative context rule; every transition is replayed on the real tree builder (verdict, error line, open-context chain, attachment point, tree size); random 40-60 token executions of the real code are validated step by step by Trace_C11.tla.",
         "Trusts: the scanner cutting one-directive-per-line documents into lexemes (checked by C12), TLC, the independent transcription of the context table in spec/Lang.tla.",
         "DESIGN.md 5/C11"),
 "C12": ("TLC: byte-exact scanner model (Scanner.tla) over all tapes from a chunk menu up to a length bound; every Feed edge replayed on the real Next()",
         "Scanner.tla models every state function of the scanner byte for byte (modes, return stack, pending-event stack, cursor rewinds, parameter summary). TLC explores every tape of up to 8 (quick) / 10 (thorough) bytes assembled from 51 chunks, checks no-panic, well-formed / ordered / non-overlapping lexemes and in-file errors, and emits the run-to-EOF expectation of every edge (398 422 / several million tapes); the real Next() must return the same lexeme types, extents and error index.",
         "Trusts: jsight-schema-core Len() for the extent of schema / enum bodies (pool bodies with known length; anything else is compared by prefix), TLC.",
         "DESIGN.md 5/C12"),
 "C13": ("TLC: exhaustive exploration of the keyword recogniser over the full 256-byte alphabet (Scanner.tla, trie derived from Lang.tla) + per-edge replay + table cross-check",
         "All 180 224 edges (prefix . byte, 256 bytes at each of 704 positions inside or just behind a keyword / response code) are explored; invariants: keywords delivered are exactly the 30 keywords + codes 100-599, rejected at the first deviating byte, accepted only before blank / line end / EOF / '#' / '/'. Every edge is replayed on the real scanner; every keyword the real scanner delivers must be known to directive.NewDirectiveType; the enumeration and the specification's keyword table must coincide and every entry must be reachable.",
         "Trusts: spec/Lang.tla keyword list as independent transcription of JSight API 0.3; TLC.",
         "DESIGN.md 5/C13"),
}

CHECKS.update({
 "C02": ("TLC: Tree+Macro+Catalog pipeline (Catalog.tla) computes verdict and catalog skeleton for every document of a block-template model; each document replayed on the real build in several layouts; projected JSON compared with the skeleton",
         "The whole build (tree, MACRO/PASTE expansion, collect*, add*, compile, validate) is specified as pure TLA+ operators; for every document of JSIGHT + up to 2 (quick: about 7 500 documents) / 3 (thorough: about 400 000) distinct blocks out of 51 templates, each with the dependency prelude (tags, type, enum, macro) placed before, after or not at all TLC computes accept + skeleton (sections in document order, ids, names, annotations, descriptions, parameters, schema root/notation/used types/enums, path variables, tag<->interaction lists) or error class + line; the real catalog JSON, projected by the harness, must equal it in the canonical and in seeded random layouts.",
         "Trusts: jsight-schema-core for schema content below the root; the projection (harness/cmd/vh/proj.go) fails loudly when the JSON lacks the JDoc Exchange shape; TLC.",
         "DESIGN.md 5/C02"),
 "C05": ("TLC: CrossRefsClosed invariant on every accepted catalog of the document model; the same invariants evaluated on the real JSON; real corpus catalogs logged and judged by Trace_C05.tla",
         "Cross-reference closure (key = id = protocol method path; tag <-> interaction both ways with multiplicity 1 under the right protocol; used types/enums defined; pathVariables = {parameters}; codes 100-599 with bodies; JSIGHT 0.3) is an invariant of the catalog model (M), is evaluated by the harness on the real JSON of every accepted model document (G) and, in TLA+ (SkelOK), on the logged catalogs of all 714 accepted corpus files (V).",
         "Trusts: extraction of {parameters} from path text by the harness; TLC; jsight-schema-core for usedUserTypes/usedUserEnums of a schema.",
         "DESIGN.md 5/C05"),
 "C07": ("TLC: Inc.tla (scanner stack, tracer cache quirk, explicit-depth per file) over all include graphs of a small project; every terminal state replayed on the real build with recomputed line/column/quote and include traces",
         "Every terminal state of the include-graph model (3 files quick / 4 thorough, lazily chosen contents: 171 241 / >1 M projects) is replayed: error class, file, line, recomputed line/column/quote from the file bytes, rendered include trace vs the chain the model followed, the trace carried by every accepted directive, and the trace of a build-phase rule error (duplicate TYPE) inside included files. The one recorded deviation (tracer cache keyed by includer name) is modelled as QuirkTracerCache and reported as KNOWN-FINDING only when the observation equals the quirk model's prediction.",
         "Trusts: LF-only generated files for the definition of 'line of an index'; TLC.",
         "DESIGN.md 5/C07"),
 "C09": ("TLC: Inc.tla; all nested balanced cuts (and re-use) of 5 base documents into include trees; tree-shape invariant in the model, catalog/error comparison split-vs-unsplit on the real build",
         "From 5 base documents (explicit context, Path + bodies, rule-rejected duplicate TYPE, identical runs, method+Path piece reused under two resources) the model generates every project reachable by up to 2 (quick, 7 713 projects) / 3 (thorough) nested cuts of balanced token runs and by re-use of a file for an identical run; invariant: the tree of the project has the shape of the tree of the unsplit document. Each project is built by the real code and compared with the real build of the unsplit document: catalog bytes, or message + file + corresponding line (+ include trace) of the rule error.",
         "Trusts: one-directive-per-line rendering; cuts are balanced w.r.t. '( )' and do not move JSIGHT (both are model-predicted errors otherwise).",
         "DESIGN.md 5/C09"),
 "C14": ("TLC: exhaustive INCLUDE names over {a . / \\ space} up to 6/7 chars against the segment predicate + Inc.tla include graphs (cycles, missing, directory); file-access hook records every path handed to the OS",
         "All 19 530 (quick) / 97 655 (thorough) parameter strings are classified by the specification's segment predicate (refused iff empty, absolute, backslash, or a '.'/'..' segment) and replayed against a project with decoy files outside the root: refused names must not reach the file system (hook), accepted names must stat exactly dir(includer)/clean(name) inside the project, outcome ok / is-a-directory / does-not-exist. All include graphs of the C07 model check cycle detection (every length over the files), repeated non-cyclic inclusion, missing/directory targets located at the INCLUDE, under rotated spellings of the root path.",
         "Trusts: the verif file-access hook sits directly in front of os.Stat / os.ReadFile; names that need quoting and contain a backslash are not replayed (covered bare).",
         "DESIGN.md 5/C14"),
})

CHECKS.update({
 "C03": ("TLC: fault model over the Tree+Macro+Catalog pipeline: base documents x fault classes x sites with invariants BaseValid / FaultDetected; each (document, fault) replayed directly, in layouts, inside an INCLUDEd file and inside a pasted MACRO body",
         "3 base documents (valid by the specification) x every applicable site of 20 fault kinds (missing parameter, forbidden annotation, second child, duplicated block, undefined type/enum/tag/macro, JSIGHT missing/not first/repeated/unsupported, similar paths, duplicated path parameter / OperationId): 138 cases. The specification's pipeline must itself report class and token of the fault (M); the real build must reject with that class on that line in 3 layouts, and for appended faults in the included file (with trace) and at the directive inside the macro body.",
         "Trusts: message patterns per class in harness/cmd/vh/doc.go; lexically detected faults are owned by C12/C01.",
         "DESIGN.md 5/C03"),
 "C04": ("TLC: position x defect matrix (MC_C04.tla) with the build-vs-marshal table; every accepted cell, model document, corpus file and corpus mutation must serialise to well-formed JDoc Exchange JSON (shape validator)",
         "132 applicable cells of 18 schema-carrying positions x 13 defect classes, every accepted document of the block model, all accepted corpus files and seeded mutations: whenever the real build accepts, ToJson and ToJsonIndent must succeed, be valid UTF-8 JSON, agree up to whitespace and satisfy the shape validator (fixed top-level keys, required fields of every entity, object/array nodes carry children, scalar nodes carry scalarValue, every response has a body object).",
         "Trusts: the shape validator in harness/cmd/vh/sweep.go as a transcription of JDoc Exchange 2.0.0; one recorded finding (Path body with example/rule contradiction).",
         "DESIGN.md 5/C04"),
 "C06": ("TLC: macro-graph model (MC_C10cyc) + document model as input generators; repeated builds in one process, in fresh processes, and a seeded history of builds over changing files compared for byte identity",
         "Every project of the sources (block-model documents, corpus, corpus mutations, 3 125 macro graphs) is built 3-6 times in one process (Go randomises each map range) and compared: catalog bytes or message/file/index/line/column/rendered trace; a sample is rebuilt in fresh processes; a 60/600-step history of builds in one process over rewritten root and included files must match, step by step, what a fresh process gives for the files on disk.",
         "Cannot force a particular map order without hooks: statistical over thousands of projects x rebuilds. Concurrency is C18.",
         "DESIGN.md 5/C06"),
 "C15": ("TLC: all permutations of 5 base block sets through the specified pipeline (invariant: same verdict, same entries as maps); every permutation built by the real code and compared with the base order up to entry order",
         "600 permutations (5 base sets x 120 orders) covering forward type references, references through request bodies, ENUM used by a type, TAG/Tags at both levels, stand-alone methods with their own path right after URL blocks, JSON-RPC, MACRO defined after use: model invariant OrderIrrelevant; the real catalog of every order equals the real catalog of the base order up to the order of entries inside sections and tag lists, and equals the model's prediction for that order.",
         "usedUserEnums content is owned by C02 (ignored here).",
         "DESIGN.md 5/C15"),
 "C16": ("TLC: Serial.tla (mechanism state of lazy compilation / example cache / response order) enumerates call histories; each history executed on fresh builds of real catalogs and compared with a pristine catalog's bytes",
         "All 780 (quick) / 19 530 (thorough) call sequences over the 5 accessors up to length 4 / 6 on 7 documents exercising every lazy path, plus the 160 edges of the mechanism-state graph on accepted corpus files (every 6th quick / all thorough): the last call's bytes (or error) must equal what that accessor returns on a pristine build.",
         "Trusts: TLC; byte comparison only (no semantic comparison needed).",
         "DESIGN.md 5/C16"),
 "C17": ("TLC: schema-feature matrix (MC_C17.tla: every rule x value, property/object level, key shortcut, 3 positions) and the C04 notation matrix as generators; OpenAPI soundness predicates on every accepted cell, model document, corpus file and mutation",
         "330 feature cells + 132 notation cells + every accepted block-model document, lazy-path document, corpus file and seeded mutation: ToOpenAPIJson / ToOpenAPIJsonIndent must return an error value or a document with openapi/info/paths where every HTTP interaction is paths[path][method], every {parameter} is a required path parameter, every $ref resolves, every user type is a component, response keys are codes or default. A panic is a violation.",
         "Trusts: the predicate implementation in harness/cmd/vh/sweep.go; OpenAPI documents are not validated against the full 3.0.3 schema (only the listed predicates).",
         "DESIGN.md 5/C17"),
 "C19": ("TLC: Inc.tla with a Banned parameter over 3 projects x all 496 sets of <= 2 banned kinds (invariant BanRule); each replayed through core.WithBannedDirectives and compared with the build without the option",
         "1 488 cases: every singleton and pair of the 31 kinds x 3 projects that contain every kind directly, in an INCLUDEd file, in pasted MACRO bodies and in a never-pasted MACRO. A banned kind that occurs => not-allowed on the first such directive in scanning order (file, line, include trace); none occurs => verdict and catalog bytes identical to the build without the option.",
         "Trusts: message pattern of the not-allowed class.",
         "DESIGN.md 5/C19"),
})

CHECKS.update({
 "C01": ("TLC: NoPanic / bounded-stack / termination invariants of Scanner.tla, Macro.tla (all PASTE graphs incl. cycles) and Inc.tla (all include graphs); every model tape, macro graph and include graph through the real build in crash-isolated workers; seeded fuzz stream in isolated workers",
         "The partial functions of the code (empty step / event stack, nil pending directive, unbounded PASTE recursion, unbounded include stack) are PANIC outcomes of the specification and unreachable in it (M). Every tape of the scanner model (398 422 quick / several million thorough) goes through the whole real build, every PASTE graph over 4 macros and every include graph of the C07 model through the real build in worker processes whose death or hang is bisected to one case; a seeded fuzz stream of 300 000 (quick) / 6 000 000 (thorough) cases (random bytes, directive words, mutated / truncated / spliced corpus files, include graphs on disk, missing / empty / directory roots) runs in isolated workers with per-case and per-worker time limits.",
         "Trusts: Go's recover for in-process panics, process isolation for fatal errors; a panic that does not reproduce when its case is re-run alone is logged, not reported (one such event was seen once in 2 M cases during development and never again).",
         "DESIGN.md 5/C01"),
 "C08": ("TLC: Renderer || Scanner invariance model (MC_C08.tla) + explicit-closure model (MC_C08doc.tla); every rendering replayed on the real scanner; documents rebuilt in random layouts; corpus files rewritten with CRLF / CR / indentation",
         "Two-line documents from 11 line templates under every per-line combination of indentation, separators, trailing blanks or comment, LF/CRLF/CR, preceding blank/#/### material, // vs /* */ and quoting: the scanner model must deliver the tokens of the canonical layout (M) and the real Next() the model's lexemes (G). Explicit-closure vs implicit form of every block-model document: same tree and catalog. Every block-model document in 6 seeded layouts: same catalog bytes / same error class on the moved line. Every single-file corpus document with CRLF, CR and uniform indentation: same verdict, catalog, error class and line.",
         "Comments are only inserted between directives (not between a directive and its body, not after Description text). Errors worded by jsight-schema-core count as one class per message kind.",
         "DESIGN.md 5/C08"),
 "C18": ("TLC: Conc.tla (dependency buffer pools with the repository's mutex, sync.Once of a shared catalog), all interleavings of 3 goroutines, plus two negative configurations that TLC must reject; -race stress driver whose logged histories are validated by Trace_C18.tla",
         "Every interleaving of 3 goroutines over Get/Write/Put/Copy of the pooled buffers (with the mutex) and over the Once-guarded lazy compilation satisfies Sequential, NoPartialContent and terminates; without the mutex, or with an unsynchronised fast path, TLC finds the counter-example (so the invariants are not vacuous). A stress driver built with -race runs rounds of 12 goroutines building / serialising different projects at once and 12 goroutines serialising one freshly built catalog at once; each call's digest must equal the digest of the call run alone (validated by Trace_C18.tla) and the race detector must stay silent.",
         "Schedules cannot be forced without hooks inside the dependency: statistical (25 / 300 rounds x 2 sources). The race detector is the observer for memory-level races.",
         "DESIGN.md 5/C18"),
})
NOT_YET = {}
# extensions made after the second round of seeded changes (appended to the level text)
EXTRA = {
 "C18": " Every goroutine of the independent phase also builds a small project with response codes no build of the process has seen; a process ended by the runtime ('fatal error: concurrent map ...') is a violation.",
 "C14": "Fourth root spelling: the root file named through a symbolic link whose target lives elsewhere next to decoys; kit.NewJapi must hand only paths of the project directory to the OS. Recorded finding: a cycle is noticed one lap late (cyc in Inc.tla). Names relative to the directory of the including file: the random projects of MC_IncRand (six files in two directories; a file of sub/ naming a sibling, the parent directory, or a file that only exists one level up) are judged by Inc.tla and replayed with the file-access hook.",
 "C16": " The mechanism-state graph also runs on the type graphs of MC_C01types, the documents of MC_C10sites and the block-model documents (every 5th quick / all thorough).",
 "C04": " Matrix as built now: 15 defect classes (plus unsatisfiable-regex, regex-matching-empty); sweeps also run over the documents of MC_C10sites and MC_C01types. Positions '*-full' put the schema under test among valid companions of every other kind on one method (Path, Query, request headers / body, response headers / body). The shape check descends into the rules of every node (a rule that is an object / array carries a list of children; null is not a list); body objnull has a rule whose value is an empty array.",
 "C10": " MC_C10sites: one of 11 macro bodies pasted at 1-3 of 5 sites (275 documents beyond the length bound); model invariant CatalogTransparent (Build(macro form) = Build(in-place form)).",
 "C09": " Base document d6 (an explicit context of the includer around an implicit URL and a method with its own path); model invariant CatalogSame (catalog of the split tree = catalog of the unsplit tree). Base document d7 (two resources of identical layout with different Description texts: after two cuts the texts lie at the same offsets of two files); 7 base documents in all. d8 (two types that need each other, the first with a rule error) and d9 (Headers typed by a non-object): 9 base documents; errors inside bodies are mapped line by line. Base document d10 is rejected only because MACRO definitions precede JSIGHT.",
 "C02": " The schema skeleton also lists the first-level children of every schema (key, token type, JSight type). Compile-phase path checks are modelled (root-level URL / methods without Path are parsed before the build phase; errors of a Path's parent path stand on Path). The split projects of MC_C09 are replayed as layouts that distribute the text over INCLUDEd files. Beyond the exhaustive bound: random behaviours of the same specification (tlc -simulate, seeded) - documents of up to 5 blocks around the dependency prelude, every one-block extension of every visited prefix emitted (about 5 000 documents quick, 150 000 thorough) and replayed like the others.",
 "C01": " Type graphs: every graph over 2 (quick, 2 025 cases) / 3 (thorough, 140 625) user types with bodies {leaf, reference, or, property, optional property, array item, allOf} crossed with 9 sites using @t1 (Path by reference / by property, Headers, Query, Request, response, JSON-RPC, another TYPE) is built in crash-isolated workers (MC_C01types; model invariant: the walk with a visited set needs <= N unfoldings). Later additions: type-body shapes any / empty / regex / scalar; 'or' diamonds of depth 8-22 timed against the per-case limit (known finding: exponential walk in the dependency); fuzz family of long lines made of one repeated byte around the 200-byte quote limit; macro diamonds (MC_C01macro: the model states that the expanded tree has 2^n copies, depths 8-20 are timed; known finding). Workers carry a per-case watchdog (60 s): a build that does not come back ends the worker at once and is attributed to its case; after 6 dead workers a step stops exploring. The random include projects of MC_IncRand (six files, two directories) go through crash-isolated workers too.",
 "C03": " Undefined tag inserted at every position of every Tags list. Annotation fault on a Body whose parent is a Request. As built now: 216 cases (quick); blocks urlTT (URL-level Tags every method overrides) and respB (bodies given by child Body directives); the 'second' fault class includes Body. Base b4 begins with a root-level PASTE whose macro is defined later; a second Tags directive is among the duplicate faults.",
 "C05": " Quick tier: the 2-block generator also places a prelude of dependency blocks (tags, type, enum, macro) before or after the chosen blocks, so blocks with dependencies and declarations after use are reached. The invariants are evaluated on every catalog the real code produces, also when the specification rejects the document (block rpcDup: one JSON-RPC method twice).",
 "C06": " Histories: every history of <= 2 (quick, 8 190) / 3 (thorough, reduced menus) builds over 5 x 3 file states and lists of option values from a process-wide pool (MC_C06); outcome class predicted by the model, bytes compared with a fresh process using freshly made options. The sweep includes the documents the model rejects (the error must be the same in every rebuild). Concurrent builds: 16 goroutines rebuild block-model documents in tight loops (40 / 400 rounds x 25 rebuilds); every result must equal the lone build.",
 "C07": " Contexts across files: MC_C07 variant 'contexts' (explicit / implicit contexts, methods with own path, ')' on both sides of an INCLUDE; 21 931 projects). The replay rotates the line-break convention of all files of a project (LF, CRLF, CR) as well as the spelling of the root path. Third rotation: every line padded with trailing blanks to 199 / 200 / 201 / 260 bytes (limit of the error quote). Build-phase errors in split projects: the split projects of MC_C09 (incl. types that need each other with a rule error, Headers typed by a non-object) are replayed and every reported place must be a real one. Variant aggr of MC_C07: four files, menus of INCLUDEs and one TYPE - chains of equal depth through files that consist of INCLUDEs only. Every fourth group of projects lives in a directory 280 bytes deep. Errors at the end of the file are checked for line and column too. Beyond the bounds of the model checker: 3 000 (quick) / 60 000 (thorough) random projects of six files in two directories (INCLUDE names relative to the including file's directory, up to 7 tokens per file, shared files, cycles, names that leave the directory) are drawn by the harness and logged; MC_IncRand.tla runs Inc.tla on every logged project, checks the model invariants on the run and emits the expectation the real build is compared with.",
 "C08": " Explicit closure: besides the full closure every single directive made explicit on its own (an explicit context next to implicitly nested siblings). When the canonical layout already deviates from the model, the other layouts are compared with the canonical layout directly. Random layouts also put trailing blanks behind the last line of a schema / enum / regex body.",
 "C11": " The resolver across an INCLUDE: MC_C07 variant 'contexts' (21 931 projects) replayed for verdict, class and place. Second resolver: for every document and explicit-mask variant of MC_C08doc without PASTE, the tree after the MACRO/PASTE pass must equal the scanned tree without MACROs. The per-edge replay renders with LF, CRLF and CR in turn. An extra '(' (token O) is part of the state graph: it is refused (nothing to open) where no directive has just been written or the directive has its '(' already (action property OpenRule; 2 895 such edges replayed).",
 "C12": " Bounds as built: 7 (quick) / 9 (thorough) bytes over the general menu plus a Description-focused configuration (18 / 20 bytes over a 9-chunk menu: text lines, CR / LF / CRLF, '( )', keywords of 3 bytes); corpus files validated by Trace_Scan. A comments-focused configuration (14 / 18 bytes over '#', '###', '//', '/*', '*/', CR, LF, blank, two keywords, a parameter: 294 000 tapes quick) is replayed as well. Further configurations: a regex body and what follows it in every line-break convention (22 / 25 bytes); what stands behind a schema body, explored without the VIEW (recorded finding behind-a-body). Invariant Closed (a scan that reaches the end of the file without an error has closed every lexeme it has begun) is stated on the model and is not copied from the code: it exposed two scanner defects (regex cut after a backslash, unclosed parenthesised Description), both repaired.",
 "C13": " The Description-focused scanner configuration (keywords that end a Description text) is replayed as well. The same full-alphabet exploration also starts at directive starts reached through prefixes that leave other entries on the scanner's stacks (behind '200 / Body any', 'Request / Body any', '... / TAG @t', 'GET /a', 'TYPE @t / {}', 'URL /a ('): 2 contexts quick, 6 thorough, 180 224 edges each. Start contexts also with lone-CR prefixes (behind ')' of an explicit context, behind a response with a child Body, behind a method line). Start contexts typeAnyFirst / typeEmptyLast: a body-less TYPE with the notation before or behind its name.",
 "C15": " Base set sA: two resources sharing a path parameter described by one Path with an inline 'or' of rule sets. 7 base sets now (840 permutations quick); sB (a regex type with several matching strings used by two resources) shows the recorded finding C15-regex-example-order. Base set sC: a declared TAG whose name is also the automatic tag of a path. Base set sD: two resources whose paths differ by the trailing slash, a macro of root-level content and its root-level PASTE.",
 "C17": " Quick tier sweeps the prelude documents of the generator (stand-alone methods with path parameters). OpenAPI.tla specifies the export as a function OAS(C) of the catalog value (servers, path items created by the first interaction of a path, operations with summary / tags by title / parameter names / request body / response keys, components); TLC checks Sound(C) = C17 on every accepted document of the block model (2 273 quick / ~20 000 thorough) and the real ToOpenAPIJson output is projected onto OAS(C): operation presence, path parameters and components are verdicts, the rest is reported as drift (0 on the current tree). The skeleton OAS(C) also predicts info, the media types of every request body and response (by body format; union for merged responses), the response header names, and that the export refuses to merge a response of the notation empty (blocks respSame / respSameJ / respSameE); these go beyond the statement and are compared as drift.",
 "C19": " Project p4: banned directives that carry a fault of their own (second Path parameter) in the root and in an included file; BanRule states that the ban is reported at the keyword unless a fault is met earlier in scan order. The histories of MC_C06 (option values reused across builds) are replayed for the verdict class. Project p5: JSIGHT written in an included file (5 projects in all).",
}
ALL = ["C%02d" % i for i in range(1, 20)]

def main():
    checks = []
    for pid in ALL:
        if pid not in CHECKS:
            continue
        tech, text, note, ref = CHECKS[pid]
        text += EXTRA.get(pid, "")
        checks.append({
            "property_id": pid,
            "quick_cmd": "./check %s --tier quick" % pid,
            "thorough_cmd": "./check %s --tier thorough" % pid,
            "evidence_file": "/verif/evidence/%s.json" % pid,
            "replay_cmd_template": "./check %s --replay {path}" % pid,
            "engine": "tla-mbt",
            "level_claimed": {"category": "model_checking", "text": text, "design_ref": ref},
            "level_note": note,
            "technique": tech,
        })
    na = [{"property_id": p, "reason": NOT_YET.get(p, "no check registered yet: the specification module and harness for this property are still being built (see DESIGN.md section 9)")}
          for p in ALL if p not in CHECKS]
    hooks = subprocess.run(["git", "-C", "/repo", "log", "--format=%H %s"], capture_output=True, text=True).stdout.splitlines()
    m = {
        "version": 1,
        "setup_cmd": "cd /verif/harness && cp /repo/go.sum . && %s go build -tags verif -o /dev/null ./cmd/vh && for m in MC_C01types MC_C01macro MC_C06 MC_C10sites MC_C17docs MC_C02 MC_C03 MC_C04 MC_C07 MC_C08 MC_C08doc MC_C09 MC_C10 MC_C10cyc MC_C11 MC_C12 MC_C13 MC_C14 MC_C15 MC_C16 MC_C17 MC_C19 MC_Desc Conc Trace_C05 Trace_C11 Trace_C18 Trace_Scan MC_IncRand MC_C10nest; do (cd /verif/spec && tla-sany $m.tla >/dev/null) || exit 1; done" % GO,
        "hooks": {
            "guard": "verif",
            "enable": "go build -tags verif (the harness module /verif/harness replaces github.com/jsightapi/jsight-api-core with /repo)",
            "baseline_off_cmd": "cd /repo && %s go test -vet=off -count=1 ./..." % GO,
            "source_commits": [h.split()[0] for h in hooks if " verif hook:" in h],
            "add_only": True,
        },
        "engines": [{"name": "tla-mbt", "path": "/verif/check", "serves_properties": sorted(CHECKS),
                     "kind_free_text": "explicit TLA+ specification (spec/*.tla) checked with TLC; TLC emissions replayed on the real code and real executions validated against trace specifications by the Go harness (harness/cmd/vh)"}],
        "checks": checks,
        "not_applicable": na,
        "notes": "Exit 0 held / 1 VIOLATION / 2 machinery failure (never a verdict). VERIF_SEED and VERIF_TIER are honoured. known_findings.json lists recorded and fixed genuine defects.",
    }
    json.dump(m, open(os.path.join(V, "MANIFEST.json"), "w"), indent=1)
    # DESIGN.md section 10.5 (per-property procedures as built) is generated from the same table
    dp = os.path.join(V, "DESIGN.md")
    d = open(dp).read()
    b, e = "<!-- BEGIN AS-BUILT (generated by tools/mkmanifest.py) -->", "<!-- END AS-BUILT -->"
    if b in d and e in d:
        body = ["", "### 10.5 Per-property procedures as built (generated from the MANIFEST table)", ""]
        for c in checks:
            body += ["**%s** - %s." % (c["property_id"], c["technique"]), "", c["level_claimed"]["text"], "", "*" + c["level_note"] + "*", ""]
        d = d[:d.index(b) + len(b)] + "\n" + "\n".join(body) + "\n" + d[d.index(e):]
        open(dp, "w").write(d)
    r = subprocess.run(["python3-vt", "-c", """
import json, jsonschema, glob
jsonschema.validate(json.load(open('/verif/MANIFEST.json')), json.load(open('/root/.vp/MANIFEST.schema.json')))
s = json.load(open('/root/.vp/EVIDENCE.schema.json'))
for f in sorted(glob.glob('/verif/evidence/*.json')):
    jsonschema.validate(json.load(open(f)), s)
    print('evidence ok', f)
print('manifest ok')
"""], capture_output=True, text=True)
    print(r.stdout, r.stderr[-2000:])
    return r.returncode

sys.exit(main())
