#!/bin/bash
# tools/trymut.sh <patch.diff> <check ids...> : apply a seeded change to /repo, run checks, undo.
set -u
patch=$1; shift
cd /repo || exit 2
git diff --quiet || { echo "/repo is dirty"; exit 2; }
git apply "$patch" || { echo "patch does not apply"; exit 2; }
trap 'git -C /repo checkout -- . ' EXIT
cd /verif
for c in "$@"; do
  out=$(./check $c --tier quick 2>&1); rc=$?
  echo "== $c rc=$rc"; echo "$out" | grep -E "VIOLATION|KNOWN-FINDING|MACHINERY|held|VIOLATED" | head -5
  echo "$out" | grep -A1 "^VIOLATION" | grep "^  " | head -3
done
