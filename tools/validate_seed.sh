#!/bin/bash
# tools/validate_seed.sh <id>: confirm in a scratch worktree that seeded/<id>/patch.diff compiles,
# passes the existing suite, and that the demonstration fails with it and passes without it.
id=$1
S=/verif/${SEEDDIR:-seeded}/$id
export GOFLAGS=-mod=mod GOPROXY=off GOSUMDB=off GOTOOLCHAIN=local
W=/tmp/seedval-$id
git -C /repo worktree add -q $W HEAD || exit 2
trap "git -C /repo worktree remove --force $W" EXIT
cd $W
dir=$(head -1 $S/demo_test.go | sed -n 's#^// dir: *##p'); dir=${dir:-kit}
git apply $S/patch.diff || { echo "$id: PATCH-DOES-NOT-APPLY"; exit 1; }
go build ./... && go build -tags verif ./... || { echo "$id: BUILD-FAILS"; exit 1; }
suite=$(go test -vet=off -count=1 ./... 2>&1 | grep -v "^ok\|no test files")
[ -n "$suite" ] && { echo "$id: SUITE-FAILS-WITH-PATCH: $suite" | head -5; exit 1; }
cp $S/demo_test.go $dir/zz_demo_test.go
go test -vet=off -count=1 ./$dir > /tmp/seedval-$id.with 2>&1; with=$?
git apply -R $S/patch.diff
go test -vet=off -count=1 ./$dir > /tmp/seedval-$id.without 2>&1; without=$?
echo "$id: dir=$dir demo-with-patch=$with (want !=0) demo-without-patch=$without (want 0)"
[ $with -ne 0 ] && [ $without -eq 0 ] && echo "$id: VALID"
rm -f /tmp/seedval-$id.with /tmp/seedval-$id.without
