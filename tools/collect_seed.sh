#!/bin/bash
# tools/collect_seed.sh <round> <ids...>: copy a seeding agent's deliverables from /tmp/mut<round>-<id> to seeded<round>/<id>,
# validate them in a fresh scratch worktree and remove the agent's worktree.
r=$1; shift
for id in "$@"; do
  W=/tmp/mut$r-$id; D=/verif/seeded$r/$id
  mkdir -p $D
  for f in patch.diff demo_test.go meta.json remarks.md; do [ -f $W/$f ] && cp $W/$f $D/; done
  SEEDDIR=seeded$r /verif/tools/validate_seed.sh $id 2>&1 | tail -2
  git -C /repo worktree remove --force $W 2>/dev/null
done
