#!/bin/bash
# tools/tryseed.sh <seeddir> <seed-id> [check-id]: run one quick check against a scratch worktree of /repo's HEAD with the seeded change applied
cd /verif
dir=$1; id=$2; chk=${3:-$2}
W=/tmp/tryseed-$dir-$id-$$
git -C /repo worktree add -q $W HEAD || exit 2
git -C $W apply /verif/$dir/$id/patch.diff || { echo "PATCH-DOES-NOT-APPLY"; git -C /repo worktree remove --force $W; exit 3; }
VERIF_REPO=$W VERIF_NO_EVIDENCE=1 ./check $chk --tier quick 2>&1 | grep -E "^(VIOLATION|  |C[0-9]+ (held|VIOLATED)|MACHINERY|KNOWN)" | cut -c1-400 | head -${LINES_MAX:-8}
git -C /repo worktree remove --force $W
