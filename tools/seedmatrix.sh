#!/bin/bash
# tools/seedmatrix.sh [dir] : every seeded change of <dir> (default seeded) against the check of the property it breaks
cd /verif
dir=${1:-seeded}
out=$dir/RESULTS.txt; : > $out
for d in $dir/C*/; do
  id=$(basename $d)
  r=$(tools/trymut.sh /verif/$d/patch.diff $id 2>&1)
  rc=$(echo "$r" | grep -o "rc=[0-9]*" | head -1)
  first=$(echo "$r" | grep "^  " | head -1 | cut -c1-220)
  echo "$id $rc | $first" >> $out
done
cat $out
