#!/bin/bash
# tools/seedmatrix_par.sh <jobs> <dir>... : like seedmatrix_wt.sh for several rounds at once, <jobs> checks in parallel; every
# run has its own scratch worktree (/tmp/seedp-<dir>-<id>) and its own copy of the harness source, /repo and /verif/evidence
# are not touched.  Results go to <dir>/RESULTS.txt (sorted by id) when a round is complete.
cd /verif
jobs=$1; shift
one() {
  dir=$1; id=$2
  W=/tmp/seedp-$dir-$id
  git -C /repo worktree add -q $W HEAD 2>/dev/null || { echo "$id WORKTREE-FAILED"; return; }
  if git -C $W apply /verif/$dir/$id/patch.diff 2>/dev/null; then
    r=$(VERIF_REPO=$W ./check $id --tier quick 2>&1); rc=$?
    first=$(echo "$r" | grep -A1 "^VIOLATION" | grep "^  " | head -1 | cut -c1-220)
    [ $rc -eq 2 ] && first=$(echo "$r" | grep MACHINERY | head -1 | cut -c1-220)
    echo "$id rc=$rc | $first"
  else
    echo "$id PATCH-DOES-NOT-APPLY"
  fi
  git -C /repo worktree remove --force $W 2>/dev/null
}
export -f one
for dir in "$@"; do
  ls $dir | grep '^C' | xargs -P $jobs -I{} bash -c "one $dir {}" | sort > $dir/RESULTS.par.txt
  mv $dir/RESULTS.par.txt $dir/RESULTS.txt
  echo "== $dir"; cat $dir/RESULTS.txt
done
