#!/bin/bash
# tools/seedmatrix_wt.sh <dir> [ids...] : like seedmatrix.sh but leaves /repo's working tree alone: each seeded change is
# applied in a scratch worktree of /repo's HEAD and the check is pointed at it with VERIF_REPO (removed afterwards).
cd /verif
dir=${1:-seeded}; shift
ids=${@:-$(ls $dir | grep '^C')}
out=$dir/RESULTS.txt; [ $# -eq 0 ] && : > $out
for id in $ids; do
  W=/tmp/seedw-$id
  git -C /repo worktree add -q $W HEAD || exit 2
  if git -C $W apply /verif/$dir/$id/patch.diff; then
    r=$(VERIF_REPO=$W ./check $id --tier quick 2>&1); rc=$?
    first=$(echo "$r" | grep -A1 "^VIOLATION" | grep "^  " | head -1 | cut -c1-220)
    [ $rc -eq 2 ] && first=$(echo "$r" | grep MACHINERY | head -1 | cut -c1-220)
    echo "$id rc=$rc | $first" >> $out
  else
    echo "$id PATCH-DOES-NOT-APPLY" >> $out
  fi
  git -C /repo worktree remove --force $W
done
sed -i 's#=> /tmp/[a-zA-Z0-9_-]*#=> /repo#' /verif/harness/go.mod
cat $out
