#!/bin/bash
for c in C11 C13 C03 C15 C19 C09 C14 C07 C16 C05 C02 C04 C17 C06 C08 C18 C12 C10 C01; do
  /usr/bin/time -f "$c wall %es maxrss %MKB" ./check $c --tier thorough 2>&1 | grep -E "held|VIOLATED|VIOLATION|MACHINERY|wall .*maxrss|KNOWN" | cut -c1-200
done
