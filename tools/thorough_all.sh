#!/bin/bash
# the thorough tier of every check, with timing; VERIF_SEED is honoured
for c in C11 C13 C03 C15 C19 C09 C14 C07 C16 C05 C04 C17 C06 C18 C02 C08 C12 C10 C01; do
  /usr/bin/time -f "$c wall %es maxrss %MKB" ./check $c --tier thorough 2>&1 | grep -E "held|VIOLATED|VIOLATION|MACHINERY|wall .*maxrss|KNOWN|UNREPRODUCED" | cut -c1-200
done
