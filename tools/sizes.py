#!/usr/bin/env python3
"""Prints the table of DESIGN.md 10.4 from the evidence files of the last runs (quick tier)."""
import json, os
V = os.path.dirname(os.path.dirname(os.path.abspath(__file__)))
print("| check | TLC states / transitions (all runs) | cases executed on the real code | of which recorded / harness-drawn (V) | wall |")
print("|---|---|---|---|---|")
for i in range(1, 20):
    p = "C%02d" % i
    e = json.load(open(os.path.join(V, "evidence", p + ".json")))
    c = e["coverage"]
    v = sum(s["cases"] for s in c["steps"] if s["step"].startswith("V:"))
    print("| %s | %s / %s | %s | %s | %d s |" % (p, f'{c["states"]:,}'.replace(",", " "), f'{c["transitions"]:,}'.replace(",", " "),
                                               f'{c["evaluations"]:,}'.replace(",", " "), f'{v:,}'.replace(",", " "), e["wall_s"]))
