"""Shared machinery of the /verif checks.

Every check is:  TLC on the specification (M: invariants / action properties,
G: emission of one expectation per state-graph edge or terminal state)  ->  the
Go harness built from /repo's working tree with -tags verif replays every
expectation on the real code  ->  (V) the harness records real executions beyond
TLC's bounds and TLC validates them against the trace specification  ->  an
evidence file.

Exit codes: 0 property held on everything explored, 1 VIOLATION (real code,
replayable), 2 machinery failure (never a verdict).
"""
import atexit
import hashlib
import json
import os
import re
import shutil
import subprocess
import sys
import tempfile
import time

VERIF = os.path.dirname(os.path.dirname(os.path.abspath(__file__)))
REPO = os.environ.get("VERIF_REPO", "/repo")
GOENV = dict(GOFLAGS="-mod=mod", GOPROXY="off", GOSUMDB="off", GOTOOLCHAIN="local")
NCPU = os.cpu_count() or 4


class MachineryError(Exception):
    pass


def log(*a):
    print(*a, file=sys.stderr, flush=True)


class TLCResult:
    def __init__(self):
        self.generated = 0
        self.distinct = 0
        self.out = ""
        self.violated = []      # names of violated invariants / properties
        self.postcondition_false = False
        self.errors = []
        self.wall = 0.0
        self.depth = 0
        self.actions = {}       # with -coverage: action name -> (distinct, generated)


class Ctx:
    def __init__(self, prop, tier, seed, level="model_checking"):
        self.prop, self.tier, self.seed, self.level = prop, tier, seed, level
        self.t0 = time.time()
        self.scratch = tempfile.mkdtemp(prefix="vf-%s-" % prop)
        atexit.register(lambda: shutil.rmtree(self.scratch, ignore_errors=True))
        self.cov = dict(states=0, transitions=0, traces_validated_against_impl=0, samples=[],
                        evaluations=0, distinct_nontrivial=0, rule="", tlc_runs=[], steps=[])
        self.assumptions = []
        self.violations = []
        self.known_hits = []
        self.vh_path = None
        self.known = load_known()

    @property
    def quick(self):
        return self.tier == "quick"

    # ------------------------------------------------------------------ build
    def build_harness(self, race=False):
        """(Re)build the harness against /repo's current working tree, hooks on."""
        out = os.path.join(self.scratch, "vh-race" if race else "vh")
        # the harness is built from a private copy of its source, so that concurrent checks (possibly pointed at different
        # trees with VERIF_REPO) never share a go.mod
        hdir = os.path.join(self.scratch, "harness-src")
        if not os.path.isdir(hdir):
            shutil.copytree(os.path.join(VERIF, "harness"), hdir)
        env = dict(os.environ, **GOENV)
        # module graph: replace => REPO, sums copied from the repository
        gomod = open(os.path.join(hdir, "go.mod")).read()
        want = "replace github.com/jsightapi/jsight-api-core => %s\n" % REPO
        if want not in gomod:
            gomod = re.sub(r"replace github.com/jsightapi/jsight-api-core => .*\n", want, gomod)
            open(os.path.join(hdir, "go.mod"), "w").write(gomod)
        shutil.copy(os.path.join(REPO, "go.sum"), os.path.join(hdir, "go.sum"))
        cmd = ["go", "build", "-tags", "verif"] + (["-race"] if race else []) + ["-o", out, "./cmd/vh"]
        t = time.time()
        p = subprocess.run(cmd, cwd=hdir, env=env, capture_output=True, text=True)
        if p.returncode != 0:
            raise MachineryError("harness does not build against %s (hooks renamed?):\n%s" % (REPO, p.stderr[-4000:]))
        log("[build] harness%s built in %.1fs" % (" (-race)" if race else "", time.time() - t))
        if not race:
            self.vh_path = out
        return out

    # -------------------------------------------------------------------- TLC
    def tlc(self, module, cfg=None, workers=None, timeout=900, simulate=None, depth=None,
            extra_files=(), heap=None, label=None, seed=None, allow_violation=False, coverage=False, zero_ok=()):
        """Run TLC on spec/<module>.tla in a scratch copy of the spec directory."""
        d = os.path.join(self.scratch, "spec-%s-%d" % (module, len(self.cov["tlc_runs"])))
        shutil.copytree(os.path.join(VERIF, "spec"), d)
        for src in extra_files:
            shutil.copy(src, d)
        cfg = cfg or module + ".cfg"
        out = os.path.join(d, "tlc.out")
        cmd = ["timeout", str(timeout), "tlc", "-metadir", os.path.join(d, "md"),
               "-workers", str(workers or NCPU), "-config", cfg]
        if simulate:
            cmd += ["-simulate", "num=%d" % simulate, "-depth", str(depth or 100)]
        if seed is not None:
            cmd += ["-seed", str(seed)]
        if coverage:
            # per-action counts: an action of Next that is never taken means that what the model says about it was never exercised
            cmd += ["-coverage", "1"]
        cmd += [module + ".tla"]
        env = dict(os.environ)
        if heap:
            env["JAVA_TOOL_OPTIONS"] = "-Xmx%s -Xss256m" % heap
        else:
            env["JAVA_TOOL_OPTIONS"] = "-Xss512m"
        # TLC unpacks its standard modules into java.io.tmpdir: keep that inside the scratch.
        jtmp = os.path.join(d, "jtmp")
        os.makedirs(jtmp, exist_ok=True)
        env["JAVA_TOOL_OPTIONS"] += " -Djava.io.tmpdir=" + jtmp
        t = time.time()
        with open(out, "w") as fh:
            p = subprocess.run(cmd, cwd=d, stdout=fh, stderr=subprocess.STDOUT, env=env)
        r = TLCResult()
        r.out = out
        r.wall = time.time() - t
        r.dir = d
        tail = []
        with open(out, errors="replace") as fh:
            for line in fh:
                if line.startswith('"'):
                    continue
                tail.append(line.rstrip("\n"))
                if len(tail) > 400:
                    tail.pop(0)
                m = re.match(r"(\d+) states generated, (\d+) distinct states found", line)
                if m:
                    r.generated, r.distinct = int(m.group(1)), int(m.group(2))
                m = re.match(r"The depth of the complete state graph search is (\d+)", line)
                if m:
                    r.depth = int(m.group(1))
                m = re.match(r"<(\w+) line \d+, col \d+ to line \d+, col \d+ of module (\w+)>: (\d+):(\d+)$", line)
                if m and coverage:
                    r.actions[m.group(1)] = (int(m.group(3)), int(m.group(4)))     # the last report wins (cumulative counts)
                m = re.match(r"Error: Invariant (\S+) is violated", line)
                if m:
                    r.violated.append(m.group(1))
                m = re.match(r"Error: Action property (\S+) is violated", line)
                if m:
                    r.violated.append(m.group(1))
                if line.startswith("Error: Temporal properties were violated"):
                    r.violated.append("temporal")
                if line.startswith("Error: Postcondition"):
                    r.postcondition_false = True
                elif line.startswith("Error:") and "is violated" not in line and "Temporal properties" not in line \
                        and "behavior up to this point" not in line:
                    r.errors.append(line.strip())
        r.tail = "\n".join(tail[-40:])
        name = label or module
        self.cov["tlc_runs"].append(dict(module=name, cfg=cfg, generated=r.generated, distinct=r.distinct,
                                         depth=r.depth, wall_s=round(r.wall, 1), simulate=simulate or 0))
        log("[tlc] %s: %d generated / %d distinct, depth %d, %.1fs%s" % (
            name, r.generated, r.distinct, r.depth, r.wall,
            ((" [rejects %s%s]" % (",".join(r.violated), ", as this step expects" if allow_violation else "")) if r.violated else "")))
        if p.returncode == 124:
            raise MachineryError("TLC timed out on %s after %ds" % (name, timeout))
        if r.errors:
            raise MachineryError("TLC error on %s: %s\n%s" % (name, r.errors[0], r.tail))
        if coverage:
            self.cov["tlc_runs"][-1]["actions"] = {k: v[1] for k, v in r.actions.items()}
            never = sorted(k for k, v in r.actions.items() if v[1] == 0 and k not in zero_ok and k != "Init")
            if never or not r.actions:
                raise MachineryError("vacuity: %s on %s: action(s) never taken: %s" % (cfg, name, never or "no action counts reported"))
        if r.violated and not allow_violation:
            raise MachineryError("the specification itself violates %s on %s (model error, not a verdict)\n%s"
                                 % (r.violated, name, r.tail))
        if not simulate and r.generated == 0 and not r.postcondition_false:
            raise MachineryError("TLC produced no states on %s\n%s" % (name, r.tail))
        self.cov["states"] += r.distinct
        self.cov["transitions"] += r.generated
        return r

    # ---------------------------------------------------------------- harness
    def vh(self, sub, *args, timeout=3600, binary=None, env=None, allow_fail=False):
        cmd = [binary or self.vh_path, sub] + [str(a) for a in args]
        t = time.time()
        e = dict(os.environ, **(env or {}))
        curfile = None
        if sub == "sweep":
            self._ncur = getattr(self, "_ncur", 0) + 1
            curfile = os.path.join(self.scratch, "sweep-current-%d.json" % self._ncur)
            e["VH_CURRENT_FILE"] = curfile
        p = subprocess.run(cmd, capture_output=True, text=True, timeout=timeout, cwd=self.scratch, env=e)
        res = None
        for line in p.stdout.split("\n"):
            if line.startswith("RESULT "):
                res = json.loads(line[7:])
        if res is None and curfile and os.path.exists(curfile) and re.search(r"^(fatal error|runtime: goroutine stack exceeds)", p.stderr, re.M):
            # the real code killed the sweep (an unrecoverable runtime error): that is a verdict about the project it was examining
            err = p.stderr
            first = next((l for l in err.splitlines() if l.startswith(("fatal error", "runtime:"))), err[:200])
            m = re.search(r"github\.com/jsightapi/(jsight-[a-z-]+)(?:@[^/]+)?/([\w./-]+(?:\(\*?\w+\))?[\w.]*)\(", err)
            site = (":" + m.group(1) + "/" + m.group(2)) if m else ""
            rp = json.load(open(curfile))
            res = dict(cases=1, nontrivial=1, n_mismatch=1, counters={"sweep-killed": 1}, extra={"accepted": 1},
                       mismatches=[dict(sig="%s:process-died:%s%s" % (str(args[0]).split(",")[0], first[:80], site),
                                        what="%s: the process examining this project was killed by the real code: %s" % (rp.get("project"), first[:200]),
                                        replay=rp)])
        if res is None:
            if allow_fail:
                return dict(error="no result", stdout=p.stdout[-3000:], stderr=p.stderr[:6000] + "\n...\n" + p.stderr[-6000:], rc=p.returncode)
            raise MachineryError("harness %s gave no RESULT (rc=%d)\n%s\n%s" % (sub, p.returncode, p.stdout[-2000:], p.stderr[-4000:]))
        if res.get("error") and not allow_fail:
            raise MachineryError("harness %s: %s" % (sub, res["error"]))
        res["_stderr"] = p.stderr[-6000:]
        log("[vh] %s: %d cases, %d nontrivial, %d mismatches, %.1fs" % (
            sub, res.get("cases", 0), res.get("nontrivial", 0), res.get("n_mismatch", 0), time.time() - t))
        return res

    def absorb(self, res, what, count_traces=True):
        """Fold a harness result into coverage and turn mismatches into violations.
        G replays count as traces validated against the implementation: every emitted case is a
        behaviour of the specification (shortest history + step) executed on the real code."""
        self.cov["evaluations"] += res.get("cases", 0)
        if count_traces and what.startswith("G:"):
            self.cov["traces_validated_against_impl"] += res.get("cases", 0)
        self.cov["distinct_nontrivial"] += res.get("nontrivial", 0)
        for s in res.get("samples") or []:
            if len(self.cov["samples"]) < 12:
                self.cov["samples"].append({"step": what, "case": s})
        self.cov["steps"].append(dict(step=what, cases=res.get("cases", 0), nontrivial=res.get("nontrivial", 0),
                                      mismatches=res.get("n_mismatch", 0), drift=res.get("drift", 0),
                                      counters=res.get("counters"), extra=res.get("extra")))
        if res.get("drift"):
            for s in (res.get("drift_examples") or [])[:5]:
                log("SPEC-DRIFT (%s): %s" % (what, s))
        for m in res.get("mismatches") or []:
            self.violation(m["sig"], m["what"], m["replay"])
        extra = res.get("n_mismatch", 0) - len(res.get("mismatches") or [])
        if extra > 0:
            log("[%s] %d further mismatches not listed" % (what, extra))


    # ------------------------------------------------- isolated (crash-proof) replay
    def vh_isolated(self, sub, tlc_out, *args, chunk=4000, tag="E", timeout=600, sig_prefix="crash"):
        """Replay emitted cases in worker subprocesses so that a fatal error (stack overflow,
        runtime throw), a hang or a kill of the real code is attributed to one concrete case:
        a dead worker's chunk is bisected down to the single case that kills it."""
        header, cases = [], []
        pfx = '"%s ' % tag
        with open(tlc_out, errors="replace") as fh:
            for line in fh:
                if line.startswith(pfx):
                    cases.append(line)
                elif line.startswith('"L '):
                    header.append(line)
        total = dict(cases=0, nontrivial=0, n_mismatch=0, mismatches=[], samples=[], drift=0, drift_examples=[],
                     counters={}, extra={})
        n_workers = [0]

        def run(lines):
            n_workers[0] += 1
            path = os.path.join(self.scratch, "iso-%d.txt" % n_workers[0])
            with open(path, "w") as fh:
                fh.writelines(header)
                fh.writelines(lines)
            prog = path + ".progress"
            try:
                res = self.vh_quiet(sub, path, *args, timeout=timeout, env={"VH_PROGRESS_FILE": prog})
            except subprocess.TimeoutExpired:
                res = dict(error="timeout", rc=-9, stderr="worker exceeded %ds" % timeout)
            os.unlink(path)
            try:
                res["progress"] = int(open(prog).read().strip() or 0) if res.get("error") else 0
                os.unlink(prog)
            except (OSError, ValueError):
                pass
            return res

        def merge(res):
            for k in ("cases", "nontrivial", "n_mismatch", "drift"):
                total[k] += res.get(k, 0) or 0
            total["mismatches"] += res.get("mismatches") or []
            total["samples"] += (res.get("samples") or [])[:2]
            total["drift_examples"] += (res.get("drift_examples") or [])[:3]
            for k, v in (res.get("counters") or {}).items():
                total["counters"][k] = total["counters"].get(k, 0) + v

        def go(lines):
            # enough is enough: the verdict is settled, and every further dead or hanging worker costs its time limit
            # (deaths that match a recorded finding are expected on the unchanged tree and do not count)
            def counts(m):
                sig = m.get("sig", "")
                return ":process-died:" in sig and not any(k["property"] == self.prop and re.search(k["sig"], sig) for k in self.known)
            if sum(1 for m in total["mismatches"] if counts(m)) >= 6:
                total["counters"]["not-run-after-6-dead-workers"] = total["counters"].get("not-run-after-6-dead-workers", 0) + len(lines)
                return
            res = run(lines)
            if not res.get("error"):
                merge(res)
                return
            if len(lines) == 1:
                total["cases"] += 1
                total["n_mismatch"] += 1
                err = (res.get("stderr") or "")
                first = next((l for l in err.splitlines() if l.startswith(("fatal error", "panic:", "runtime:", "SIGSEGV"))), err[:200])
                # the innermost function of the library or of its dependency on the dying goroutine's stack
                m = re.search(r"github\.com/jsightapi/(jsight-[a-z-]+)(?:@[^/]+)?/([\w./-]+(?:\(\*?\w+\))?[\w.]*)\(", err)
                site = (":" + m.group(1) + "/" + m.group(2)) if m else ""
                total["mismatches"].append(dict(
                    sig="%s:process-died:%s%s" % (sig_prefix, first[:80], site),
                    what="the process running the real code died or hung on this case (rc=%s): %s" % (res.get("rc"), first[:300]),
                    replay=dict(kind="raw-case", sub=sub, line=lines[0].strip()[:20000])))
                return
            k = res.get("progress") or 0
            if 1 <= k <= len(lines) and res.get("rc") == 97:
                # the worker's own watchdog ended it on case k (a hang): no need to let that case spin a second time
                total["cases"] += 1
                total["n_mismatch"] += 1
                total["mismatches"].append(dict(
                    sig="%s:process-died:hang" % sig_prefix,
                    what="the real code does not come back on this case (the worker's watchdog ended it): %s" % (res.get("stderr") or "")[-200:].strip(),
                    replay=dict(kind="raw-case", sub=sub, line=lines[k - 1].strip()[:20000])))
                if k > 1:
                    go(lines[:k - 1])
                if k < len(lines):
                    go(lines[k:])
                return
            if 1 <= k <= len(lines):
                # the worker recorded the ordinal of the case it was running when it died: that case alone, then the
                # cases before it (their results were lost with the worker) and the cases behind it
                go(lines[k - 1:k])
                if k > 1:
                    go(lines[:k - 1])
                if k < len(lines):
                    go(lines[k:])
                return
            mid = len(lines) // 2
            go(lines[:mid])
            go(lines[mid:])

        from concurrent.futures import ThreadPoolExecutor
        chunks = [cases[i:i + chunk] for i in range(0, len(cases), chunk)]
        with ThreadPoolExecutor(max_workers=max(1, NCPU - 2)) as ex:
            list(ex.map(go, chunks))
        total["samples"] = total["samples"][:5]
        log("[vh-isolated] %s: %d cases in %d workers, %d mismatches" % (sub, total["cases"], n_workers[0], total["n_mismatch"]))
        return total

    def vh_quiet(self, sub, *args, timeout=3600, env=None):
        cmd = [self.vh_path, sub] + [str(a) for a in args]
        p = subprocess.run(cmd, capture_output=True, text=True, timeout=timeout, cwd=self.scratch,
                           env=dict(os.environ, **(env or {})))
        for line in p.stdout.split("\n"):
            if line.startswith("RESULT "):
                res = json.loads(line[7:])
                if not res.get("error"):
                    return res
                return dict(error=res["error"], rc=p.returncode, stderr=p.stderr[-4000:])
        return dict(error="no result", rc=p.returncode, stderr=p.stderr[:6000] + "\n...\n" + p.stderr[-6000:])

    # ------------------------------------------------------------- violations
    def violation(self, sig, what, replay):
        for k in self.known:
            if k["property"] == self.prop and re.search(k["sig"], sig):
                if k["id"] not in [h["id"] for h in self.known_hits]:
                    self.known_hits.append(dict(id=k["id"], what=k["what"]))
                return
        h = hashlib.sha1((sig + json.dumps(replay, sort_keys=True)).encode()).hexdigest()[:12]
        rdir = os.path.join(VERIF, "replays", self.prop)
        os.makedirs(rdir, exist_ok=True)
        path = os.path.join(rdir, h + ".json")
        with open(path, "w") as fh:
            json.dump(dict(property=self.prop, sig=sig, what=what, replay=replay), fh, indent=1)
        if len(self.violations) < 50:
            self.violations.append(dict(sig=sig, what=what, replay=path))

    def selftest(self, ok, what):
        """The binding must notice a corrupted expectation / log; otherwise the check is blind."""
        if not ok:
            if self.violations:
                # the code under test already contradicts the specification; the self-test compares
                # corrupted expectations with that same (deviating) code and is not meaningful then
                log("[selftest] skipped (violations already found): " + what)
                return
            raise MachineryError("self-test failed: %s (a corrupted expectation was not noticed)" % what)
        self.cov.setdefault("selftests", []).append(what)

    # ----------------------------------------------------------------- finish
    def finish(self):
        wall = time.time() - self.t0
        cov = self.cov
        if not cov["samples"]:
            raise MachineryError("no samples collected: nothing was explored")
        ev = dict(property_id=self.prop, tier=self.tier, seed=self.seed, level=self.level,
                  coverage=cov, assumptions=self.assumptions, wall_s=round(wall, 1),
                  violations=len(self.violations),
                  known_findings_hit=[h["id"] for h in self.known_hits])
        if REPO == "/repo":
            # (a run pointed at another tree with VERIF_REPO -- a seeded change in a scratch worktree -- is not evidence)
            os.makedirs(os.path.join(VERIF, "evidence"), exist_ok=True)
            with open(os.path.join(VERIF, "evidence", self.prop + ".json"), "w") as fh:
                json.dump(ev, fh, indent=1)
        for h in self.known_hits:
            print("KNOWN-FINDING: property=%s %s" % (self.prop, h["what"]))
        for v in self.violations:
            print("VIOLATION property=%s replay=%s" % (self.prop, v["replay"]))
            log("  " + v["what"][:500])
        print("%s %s tier=%s seed=%d states=%d transitions=%d evaluations=%d traces=%d wall=%.0fs" % (
            self.prop, "VIOLATED" if self.violations else "held", self.tier, self.seed, cov["states"],
            cov["transitions"], cov["evaluations"], cov["traces_validated_against_impl"], wall))
        return 1 if self.violations else 0


def load_known():
    p = os.path.join(VERIF, "known_findings.json")
    if not os.path.exists(p):
        return []
    return json.load(open(p)).get("findings", [])
