"""Per-property check procedures.  Each run_Cxx(ctx) performs M (TLC on the
specification), G (replay of TLC's emissions on the real code) and V (trace
validation of recorded real executions) as described in DESIGN.md section 5."""
import json
import re
import os
import subprocess

from vlib import MachineryError, log, REPO


def replay(ctx, path):
    """./check Cxx --replay <file>: re-execute one recorded case on the code built from /repo's current tree."""
    r = json.load(open(path))
    case = os.path.join(ctx.scratch, "replay.json")
    json.dump(r.get("replay", r), open(case, "w"))
    env = dict(os.environ, VH_PROP=ctx.prop)
    p = subprocess.run([ctx.vh_path, "replay", case], capture_output=True, text=True, cwd=ctx.scratch, env=env)
    res = None
    for line in p.stdout.split("\n"):
        if line.startswith("RESULT "):
            res = json.loads(line[7:])
        else:
            print(line[:2000])
    if res is None or res.get("error"):
        print("replay not possible: %s" % ((res or {}).get("error") or p.stderr[-500:]))
        return 2
    if res.get("n_mismatch", 0) > 0:
        fresh = []
        for m in res["mismatches"]:
            kf = [k for k in ctx.known if k["property"] == ctx.prop and re.search(k["sig"], m["sig"])]
            if kf:
                print("KNOWN-FINDING: property=%s %s" % (ctx.prop, kf[0]["what"][:300]))
            else:
                fresh.append(m)
        for m in fresh:
            print("still contradicts the specification: " + m["what"][:500])
        if fresh:
            print("VIOLATION property=%s replay=%s" % (ctx.prop, path))
            return 1
        return 0
    print("the recorded case no longer contradicts its expectation on this tree")
    return 0


def validate_trace(ctx, module, trace_name, trace_path, expect_reject=False, workers=1, timeout=900):
    """Run the trace specification on a recorded NDJSON trace; accepted iff the postcondition holds."""
    dst = os.path.join(ctx.scratch, trace_name)
    if os.path.abspath(trace_path) != os.path.abspath(dst):
        import shutil
        shutil.copy(trace_path, dst)
    r = ctx.tlc(module, workers=workers, timeout=timeout, extra_files=[dst],
                label=module + ("(corrupted)" if expect_reject else ""), allow_violation=True)
    accepted = not r.postcondition_false and not r.violated
    return accepted, r


# ------------------------------------------------------------------------ C11
def run_C11(ctx):
    ctx.cov["rule"] = ("G: one case per edge of the complete state graph of the context resolver "
                       "(state = chain of open (kind, explicit) contexts; edge = directive kind x has-path x explicit, or ')'); "
                       "non-trivial = nesting depth >= 2 or a rejection, distinct by (target chain, verdict, token). "
                       "V: seeded random token sequences up to 40 tokens, every prefix observed on the real tree builder.")
    ctx.assumptions += [
        "directives are rendered one per line with minimal valid parameters/bodies; the scanner is trusted to cut them into lexemes (C12 checks that)",
        "the specification's context table (spec/Lang.tla) is an independent transcription of the JSight API 0.3 table",
    ]
    # M + G: complete graph, all action properties; the harness replays every edge.
    r = ctx.tlc("MC_C11", timeout=600, coverage=True)
    res = ctx.vh("c11-replay", r.out)
    if res["cases"] != r.generated - 1:
        raise MachineryError("emitted %d edges but TLC generated %d states" % (res["cases"], r.generated))
    ctx.absorb(res, "G:c11-replay")
    ctx.cov["exhaustive"] = True
    st = ctx.vh("c11-replay", r.out, "selftest")
    ctx.selftest(st["n_mismatch"] == st["cases"], "C11 G: every corrupted verdict is reported")
    # the second resolver (the MACRO/PASTE pass re-resolves every directive): whole documents and their explicit-context variants
    rd = ctx.tlc("MC_C08doc", cfg="MC_C08doc_quick.cfg" if ctx.quick else "MC_C08doc_thorough.cfg", timeout=3000)
    resd = ctx.vh("c11-docs", rd.out, timeout=3000)
    if not resd.get("counters", {}).get("compared"):
        raise MachineryError("C11: no document reached the comparison of the MACRO/PASTE pass")
    ctx.absorb(resd, "G:c11-docs(MACRO/PASTE pass)")
    # the same resolver when the chain of open contexts spans an INCLUDE (verdicts and targets; traces are C07's)
    _include_contexts(ctx, "G:c07-replay(contexts across files)", ["c07:class-", "c07:spec-", "c07:file-", "c07:line-", "c07:panic", "c07:tree-"])
    # V: recorded executions validated by Trace_C11
    ntr, maxlen = (300, 40) if ctx.quick else (6000, 60)
    tp = os.path.join(ctx.scratch, "trace_c11.ndjson")
    rec = ctx.vh("c11-record", tp, ctx.seed, ntr, maxlen)
    ok, tr = validate_trace(ctx, "Trace_C11", "trace_c11.ndjson", tp)
    ctx.absorb(rec, "V:c11-record")
    if not ok:
        ctx.violation("c11:trace-rejected", "a recorded execution of the tree builder is not a behaviour of Tree.tla "
                      "(longest matched prefix: %d of %d events)" % (tr.depth - 1, rec["extra"]["events"]),
                      {"kind": "c11-trace", "seed": ctx.seed, "traces": ntr, "maxlen": maxlen})
    else:
        ctx.cov["traces_validated_against_impl"] += rec["cases"]
    tp2 = os.path.join(ctx.scratch, "c", "trace_c11.ndjson")
    os.makedirs(os.path.dirname(tp2))
    ctx.vh("c11-record", tp2, ctx.seed, 20, 20, "corrupt")
    ok2, _ = validate_trace(ctx, "Trace_C11", "trace_c11.ndjson", tp2, expect_reject=True)
    ctx.selftest(not ok2, "C11 V: a trace with one corrupted field is rejected")


# ------------------------------------------------------------------------ C13
def run_C13(ctx):
    ctx.cov["rule"] = ("G: one case per edge (prefix . byte) of the keyword recogniser explored breadth-first from the directive-start "
                       "state over the full 256-byte alphabet (bytes fed only while inside or just behind a keyword); the expectation is "
                       "the specification's run to end of file on exactly that tape. Non-trivial = distinct (outcome, error class, lexeme shape, tape length).")
    ctx.assumptions += ["the keyword list of spec/Lang.tla is an independent transcription of the JSight API 0.3 keywords",
                        "a body start directly behind a keyword is judged by jsight-schema-core (outcome 'oracle': lexeme prefix compared)"]
    r = ctx.tlc("MC_C13", timeout=600, coverage=True)
    res = ctx.vh("scan-replay", r.out, env={"VH_DISTINCT": "len"})
    if res["cases"] == 0 or res.get("counters", {}).get("tables-compared") != 1:
        raise MachineryError("C13: nothing replayed or keyword tables not compared")
    ctx.absorb(res, "G:scan-replay(keywords)")
    ctx.cov["exhaustive"] = True
    ctx.cov["keywords_accepted_by_real_scanner"] = res.get("extra", {}).get("keywords_accepted")
    st = ctx.vh("scan-replay", r.out, "selftest")
    ctx.selftest(st["n_mismatch"] == st["cases"], "C13 G: every corrupted expectation is reported")
    # the same exploration from directive starts reached through a prefix that leaves other entries on the scanner's stacks
    for cx in (("tag", "explicit", "closedCR", "respBodyCR", "typeAnyFirst") if ctx.quick else
               ("respBody", "reqBody", "tag", "method", "typeBody", "explicit", "closed", "closedCR", "methodCR", "respBodyCR", "explicitCR",
                "typeAnyFirst", "typeEmptyLast")):
        rx = ctx.tlc("MC_C13", cfg="MC_C13_%s.cfg" % cx, timeout=900, label="MC_C13(%s)" % cx)
        resx = ctx.vh("scan-replay", rx.out, env={"VH_DISTINCT": "len"})
        ctx.absorb(resx, "G:scan-replay(keywords, context %s)" % cx)
    # directive starts behind a Description text are found by a look-ahead over the rest of the line (a second recogniser)
    rd = ctx.tlc("MC_C12", cfg="MC_C12_desc.cfg" if ctx.quick else "MC_C12_desc_thorough.cfg", timeout=1800, label="MC_C12(description)")
    resd = ctx.vh("scan-replay", rd.out, env={"VH_DISTINCT": "len"})
    ctx.absorb(resd, "G:scan-replay(behind a Description)")


# ------------------------------------------------------------------------ C12
def run_C12(ctx):
    ctx.cov["rule"] = ("G: one case per Feed edge of the byte-level scanner model over all tapes assembled from the chunk menu "
                       "(12 single bytes of every class the scanner distinguishes, 30 keywords, a response code, 4 parameters, 4 bodies) up to MaxLen bytes (7 quick / 9 thorough), "
                       "and over all tapes that start with a Description line followed by up to 6 / 8 bytes from a menu of line breaks, blanks, text, the '( )' frame, 3-byte keywords, codes and near-misses; "
                       "expectation = specification's run to end of file (type, begin, end of every lexeme; error index). "
                       "V: the real scanner on whole corpus files (every 4th quick / all thorough) and seeded mutations of them (<= 6 000 bytes), logged with the body extents the dependency accepted and re-executed by Scanner.tla (Trace_Scan.tla): same lexemes, same error index. "
                       "Non-trivial = distinct (outcome, error class, lexeme shape, tape length) / files with more than 3 lexemes.")
    ctx.assumptions += ["extent and validity of schema / enum bodies are decided by jsight-schema-core Len() (trusted oracle: pool bodies with known length)"]
    cfg = "MC_C12_quick.cfg" if ctx.quick else "MC_C12_thorough.cfg"
    r = ctx.tlc("MC_C12", cfg=cfg, timeout=3000)
    res = ctx.vh("scan-replay", r.out, env={"VH_DISTINCT": "len"})
    ctx.absorb(res, "G:scan-replay(extent)")
    ctx.cov["exhaustive"] = True
    st = ctx.vh("scan-replay", r.out, "selftest")
    ctx.selftest(st["n_mismatch"] == st["cases"], "C12 G: every corrupted expectation is reported")
    # tapes that start with a Description line (the keyword alone exhausts the general byte bound)
    rd = ctx.tlc("MC_C12", cfg="MC_C12_desc.cfg" if ctx.quick else "MC_C12_desc_thorough.cfg", timeout=1800, label="MC_C12(description)")
    resd = ctx.vh("scan-replay", rd.out, env={"VH_DISTINCT": "len"})
    ctx.absorb(resd, "G:scan-replay(description)")
    # longer tapes over comments, annotations and mixed line breaks around two directives
    rc = ctx.tlc("MC_C12", cfg="MC_C12_comments.cfg" if ctx.quick else "MC_C12_comments_thorough.cfg", timeout=1800, label="MC_C12(comments)")
    resc = ctx.vh("scan-replay", rc.out, env={"VH_DISTINCT": "len"})
    ctx.absorb(resc, "G:scan-replay(comments)")
    # a regex body and what follows it, in every line-break convention
    rr = ctx.tlc("MC_C12", cfg="MC_C12_regex.cfg" if ctx.quick else "MC_C12_regex_thorough.cfg", timeout=1800, label="MC_C12(regex body)")
    resr = ctx.vh("scan-replay", rr.out, env={"VH_DISTINCT": "len"})
    ctx.absorb(resr, "G:scan-replay(regex body)")
    # what stands behind a schema body (explored without the VIEW: the dependency's look-ahead depends on what it has read)
    rb = ctx.tlc("MC_C12", cfg="MC_C12_bodytail.cfg" if ctx.quick else "MC_C12_bodytail_thorough.cfg", timeout=1800, label="MC_C12(body tail)")
    resb = ctx.vh("scan-replay", rb.out, env={"VH_DISTINCT": "len"})
    ctx.absorb(resb, "G:scan-replay(behind a body)")
    # V: the real scanner on whole corpus files and mutations of them, judged by Scanner.tla
    tp = os.path.join(ctx.scratch, "trace_scan.ndjson")
    rec = ctx.vh("scan-record", REPO, tp, 4 if ctx.quick else 1, 1 if ctx.quick else 3, ctx.seed)
    ctx.absorb(rec, "V:scan-record")
    ok, tr = validate_trace(ctx, "Trace_Scan", "trace_scan.ndjson", tp, timeout=3000)
    if not ok:
        ctx.violation("c12:trace-rejected", "a run of the real scanner on a whole file is not a behaviour of Scanner.tla (record %d of %d)" % (tr.depth, rec["extra"]["logged"]),
                      {"kind": "scan-trace", "record": tr.depth, "seed": ctx.seed})
    else:
        ctx.cov["traces_validated_against_impl"] += rec["extra"]["logged"]
    tp2 = os.path.join(ctx.scratch, "sc", "trace_scan.ndjson")
    os.makedirs(os.path.dirname(tp2))
    ctx.vh("scan-record", REPO, tp2, 200, 0, ctx.seed, "corrupt")
    ok2, _ = validate_trace(ctx, "Trace_Scan", "trace_scan.ndjson", tp2, expect_reject=True)
    ctx.selftest(not ok2, "C12 V: a logged lexeme with a shifted end is rejected")


# ------------------------------------------------------------------------ C10
def run_C10(ctx):
    ctx.cov["rule"] = ("G: every document of <= MaxLen tokens over a MACRO/PASTE menu (19 tokens: 2 defined macro names + 1 undefined, explicit/implicit "
                       "contexts, URL/method/response/body/ENUM/TYPE, ')') whose tree builds; for each the predicted expansion (tree shape or error class + line) "
                       "is compared with the real scanProject+processPaste, and the catalog of the macro form with the catalog of the in-place form. "
                       "Non-trivial = contains MACRO or PASTE, distinct by (verdict, size, token kinds).")
    ctx.assumptions += ["both forms are rendered one directive per line; error wording is compared by class only"]
    cfg = "MC_C10_quick.cfg" if ctx.quick else "MC_C10_thorough.cfg"
    r = ctx.tlc("MC_C10", cfg=cfg, timeout=3300)
    res = ctx.vh("c10-replay", r.out)
    ctx.absorb(res, "G:c10-replay")
    ctx.cov["exhaustive"] = True
    st = ctx.vh("c10-replay", r.out, "selftest")
    ctx.selftest(st["n_mismatch"] == st["cases"], "C10 G: every corrupted expectation is reported")
    # one macro body pasted at 1..3 sites (root, two URLs, a method of each): documents beyond the length bound above
    rs = ctx.tlc("MC_C10sites", cfg="MC_C10sites.cfg", timeout=900)
    ress = ctx.vh("c10-replay", rs.out)
    ctx.absorb(ress, "G:c10-replay(paste sites)")
    # cycles of every length 1..4 (and a long chain that is not a cycle)
    r2 = ctx.tlc("MC_C10cyc", timeout=900)
    res2 = ctx.vh_isolated("c10-replay", r2.out, chunk=400, timeout=120, sig_prefix="c10")
    ctx.absorb(res2, "G:c10-replay(cycles)")
    # beyond the length bound: random behaviours of the same specification (documents of up to 12 tokens)
    rsim = ctx.tlc("MC_C10", cfg="MC_C10_sim.cfg", simulate=40 if ctx.quick else 400, depth=13, seed=ctx.seed, label="MC_C10(simulate)", timeout=3300)
    ressim = ctx.vh_isolated("c10-replay", rsim.out, chunk=4000, timeout=900, sig_prefix="c10")
    ctx.absorb(ressim, "G:c10-replay(simulated documents of up to 12 tokens)")
    # nesting shapes: a leaf macro pasted from a middle and a top macro, on the top level of their bodies and among the children
    # of their directives, in front of and behind other items (every expansion is a new copy)
    rn = ctx.tlc("MC_C10nest", cfg="MC_C10nest_quick.cfg" if ctx.quick else "MC_C10nest_thorough.cfg", timeout=3300)
    resn = ctx.vh("c10-replay", rn.out, timeout=3300)
    ctx.absorb(resn, "G:c10-replay(nesting shapes)")


# ------------------------------------------------------------------ C07 / C14 / C09
def _include_graphs(ctx, tag):
    cfg = "MC_C07_quick.cfg" if ctx.quick else "MC_C07_thorough.cfg"
    r = ctx.tlc("MC_C07", cfg=cfg, timeout=3000)
    res = ctx.vh_isolated("c07-replay", r.out, chunk=20000, timeout=900, sig_prefix="c07")
    # files that consist of INCLUDE directives only: several chains of one depth (4 files, small menu)
    ra = ctx.tlc("MC_C07", cfg="MC_C07_aggr.cfg", timeout=3000, label="MC_C07(aggregators)")
    resa = ctx.vh_isolated("c07-replay", ra.out, chunk=20000, timeout=900, sig_prefix="c07")
    for k in ("cases", "nontrivial", "n_mismatch", "drift"):
        res[k] = (res.get(k) or 0) + (resa.get(k) or 0)
    res["mismatches"] = (res.get("mismatches") or []) + (resa.get("mismatches") or [])
    for k, v in (resa.get("counters") or {}).items():
        res["counters"][k] = res["counters"].get(k, 0) + v
    return r, res


def _include_contexts(ctx, label, prefixes=None):
    """contexts across the file boundary (MC_C07, Variant = "contexts"): an explicit context opened by the includer, implicit URL
    contexts and methods with their own path in the included file, ')' on either side"""
    r = ctx.tlc("MC_C07", cfg="MC_C07_ctx.cfg", timeout=3000)
    res = ctx.vh_isolated("c07-replay", r.out, chunk=20000, timeout=900, sig_prefix="c07")
    res = _only(res, ["c14:"], invert=True)
    if prefixes is not None:
        res = _only(res, prefixes)
    ctx.absorb(res, label)
    return r


def _include_random(ctx, sig_prefix="c07"):
    """V/oracle: random projects beyond the bounds of MC_C07 (six files in two directories, INCLUDE names relative to the including
    file's directory, up to 7 tokens per file) drawn by the harness; MC_IncRand.tla runs Inc.tla on each logged project, checks the
    model invariants on the run and emits the expectation; c07-replay compares the real build with it."""
    n = 3000 if ctx.quick else 60000
    d = os.path.join(ctx.scratch, "incrand-%d" % len(ctx.cov["tlc_runs"]))
    os.makedirs(d)
    log_path = os.path.join(d, "inc_rand.ndjson")
    gen = ctx.vh("inc-rand", log_path, ctx.seed, n)
    r = ctx.tlc("MC_IncRand", extra_files=[log_path], timeout=3000)
    res = ctx.vh_isolated("c07-replay", r.out, chunk=20000, timeout=900, sig_prefix=sig_prefix)
    res.setdefault("extra", {})["random_projects"] = gen["cases"]
    return r, res


def run_C07(ctx):
    ctx.cov["rule"] = ("G: every terminal state of the include-graph model (3 files quick / 4 thorough; root <= 3 tokens, others <= 2, menu: TYPE, a misplaced Body, "
                       "explicit URL, ')', INCLUDE of each file / of a missing file, plus rare names and malformed INCLUDE lines); contents are chosen lazily when a file is first opened. "
                       "For each: error class, file, line, recomputed line/column/quote, include trace (rendered vs model), trace of every accepted directive, and the "
                       "duplicate-TYPE rule error of the build phase with its trace. Non-trivial = has at least one INCLUDE, distinct by token kinds of all files.")
    ctx.assumptions += ["files use LF line endings (mixed conventions are outside the definition of 'the line this index has')",
                        "known finding C07-tracer-cache is recognised only when the observed trace equals the quirk model's prediction"]
    r, res = _include_graphs(ctx, "c07")
    res = _only(res, ["c14:"], invert=True)      # cycle verdicts are C14's
    ctx.absorb(res, "G:c07-replay")
    ctx.cov["exhaustive"] = True
    st = ctx.vh("c07-replay", r.out, "selftest")
    ctx.selftest(st["n_mismatch"] >= st["cases"] * 0.95, "C07 G: corrupted verdicts / traces are reported")
    _include_contexts(ctx, "G:c07-replay(contexts across files)")
    rr, resr = _include_random(ctx)
    ctx.absorb(_only(resr, ["c14:"], invert=True), "V:c07-replay(random projects in two directories, judged by Inc.tla)")
    # build-phase errors (rule errors of types that refer to each other, validateCatalog errors) in split projects: MC_C09
    r9 = ctx.tlc("MC_C09", cfg="MC_C09_quick.cfg" if ctx.quick else "MC_C09_thorough.cfg", timeout=3000)
    res9 = ctx.vh("c09-replay", r9.out)
    ctx.absorb(_only(res9, ["c07:", "c09:location"]), "G:c09-replay(places of build-phase errors in split projects)")


def run_C14(ctx):
    ctx.cov["rule"] = ("G(names): every INCLUDE parameter over the alphabet {a . / \\ space} up to 6 (quick) / 7 (thorough) characters against a project with decoy files outside the root; "
                       "the file-access hook records every path handed to the OS. G(graphs): every terminal state of the include-graph model (cycles of every length over the files, "
                       "repeated non-cyclic inclusion, missing file, directory, refused names). Non-trivial = distinct (class, outcome, path depth) / graphs with an INCLUDE.")
    ctx.assumptions += ["names that need quoting and contain a backslash are skipped (the scanner's quoted-parameter escapes change them); they are covered bare"]
    cfg = "MC_C14_quick.cfg" if ctx.quick else "MC_C14_thorough.cfg"
    r = ctx.tlc("MC_C14", cfg=cfg, timeout=900)
    res = ctx.vh("c14-replay", r.out)
    ctx.absorb(res, "G:c14-replay(names)")
    st = ctx.vh("c14-replay", r.out, "selftest")
    ctx.selftest(st["n_mismatch"] == st["cases"], "C14 G: corrupted name classes are reported")
    r2, res2 = _include_graphs(ctx, "c14")
    # C14 owns: paths handed to the OS, recursion / missing / directory verdicts and their location
    keep = [m for m in (res2.get("mismatches") or []) if not m["sig"].startswith("c07:tracer-cache-quirk")
            and not m["sig"].startswith(("c07:trace-", "c07:node-trace", "c07:dup-trace", "c07:location-fields"))]
    res2 = dict(res2, mismatches=keep, n_mismatch=len(keep))
    ctx.absorb(res2, "G:c07-replay(graphs)")
    ctx.cov["exhaustive"] = True
    # names are relative to the directory of the including file: random projects in two directories (MC_IncRand)
    rr, resr = _include_random(ctx)
    keep = [m for m in (resr.get("mismatches") or []) if not m["sig"].startswith("c07:tracer-cache-quirk")
            and not m["sig"].startswith(("c07:trace-", "c07:node-trace", "c07:dup-trace", "c07:location-fields"))]
    ctx.absorb(dict(resr, mismatches=keep, n_mismatch=len(keep)), "V:c07-replay(random projects in two directories)")


def run_C09(ctx):
    ctx.cov["rule"] = ("G: every project obtained from 5 base documents (explicit URL context, Path + request/response bodies, a rule-rejected document with a duplicate TYPE, "
                       "a document with identical runs) by up to 2 (quick) / 3 (thorough) nested cuts of balanced token runs into new files and by re-use of an existing file for an identical run; "
                       "the real build of the split project is compared with the real build of the unsplit document (catalog bytes; message, file and line of rule errors). "
                       "Non-trivial = distinct file contents (token kinds).")
    ctx.assumptions += ["cuts are balanced with respect to explicit '( )' contexts: an included file may not close or leave open a context of its includer (fix b250f73)",
                        "JSIGHT may not be moved into an included file (language rule): such cuts must be rejected with that error"]
    cfg = "MC_C09_quick.cfg" if ctx.quick else "MC_C09_thorough.cfg"
    r = ctx.tlc("MC_C09", cfg=cfg, timeout=3000)
    res = ctx.vh("c09-replay", r.out)
    ctx.absorb(res, "G:c09-replay")
    ctx.cov["exhaustive"] = True
    st = ctx.vh("c09-replay", r.out, "selftest")
    ctx.selftest(st["n_mismatch"] >= st["cases"] * 0.6, "C09 G: a corrupted unsplit document is noticed")
    # V: the relation of the model (CatalogSame / same rule error at the corresponding line) on the repository's own documents:
    # every single-file corpus document cut at directive boundaries found with the real scanner, nested up to three deep
    resc = ctx.vh("c09-corpus", REPO, ctx.seed, 4 if ctx.quick else 60, timeout=3000)
    ctx.absorb(resc, "V:c09-corpus(random balanced cuts of corpus documents)")
    ctx.cov["traces_validated_against_impl"] += resc.get("cases", 0)
    stc = ctx.vh("c09-corpus", REPO, ctx.seed, 1, "selftest", timeout=3000)
    ctx.selftest(stc["n_mismatch"] == stc["cases"] and stc["cases"] > 100, "C09 V: a corrupted unsplit outcome is noticed for every cut")


# ------------------------------------------------------------------ C02 / C05 / C08
def _docs(ctx, layouts, own=True):
    """own: the check owns the document model (C02) -> full bound; otherwise the model is an input generator"""
    if own:
        cfg = "MC_C02_gen.cfg" if ctx.quick else "MC_C02_thorough.cfg"
    else:
        cfg = "MC_C02_gen.cfg" if ctx.quick else "MC_C02_quick.cfg"
    r = ctx.tlc("MC_C02", cfg=cfg, timeout=3300)
    res = ctx.vh("doc-replay", r.out, env={"VH_LAYOUTS": str(layouts), "VERIF_SEED": str(ctx.seed)}, timeout=3300)
    return r, res


def _only(res, prefixes, invert=False):
    keep = [m for m in (res.get("mismatches") or []) if m["sig"].startswith(tuple(prefixes)) != invert]
    return dict(res, mismatches=keep, n_mismatch=len(keep))


DOC_RULE = ("documents = JSIGHT + every sequence of up to 2 (quick) / 3 (thorough) distinct blocks out of about 60 block templates, with a prelude of dependency blocks (tags, types, enum, macro) "
            "placed before, after or not at all (INFO, SERVER, TAGs, TYPEs incl. references, unions, allOf, regex, ENUM, URL groups with methods / query / request / responses / headers / path variables, "
            "explicit and implicit contexts, stand-alone methods of every kind, JSON-RPC URLs, Tags at URL and method level, MACRO + PASTE incl. a macro with a Path pasted twice, faulty blocks: "
            "similar / duplicated / blank paths, undefined automatic tags); the specification predicts accept + catalog skeleton, or error class + line. ")


def run_C02(ctx):
    ctx.cov["rule"] = ("G: " + DOC_RULE + "Each document is built by the real code in the canonical layout and in seeded random layouts (line ending LF/CRLF/CR, uniform indentation, "
                       "blank lines, '#' and '###' comments, trailing blanks/comments, quoted parameters, // vs /* */ annotations); the projected catalog JSON must equal the skeleton: "
                       "sections in document order, names, ids, annotations, descriptions, parameters, per-schema notation / root type / used types / used enums, path variables. "
                       "Non-trivial = distinct block sequences.")
    ctx.assumptions += ["inside schema bodies only the root node type and the used-type/enum sets are predicted (deep content is owned by jsight-schema-core)"]
    r, res = _docs(ctx, 2 if ctx.quick else 3)
    ctx.absorb(res, "G:doc-replay")
    ctx.cov["exhaustive"] = True
    st = ctx.vh("doc-replay", r.out, "selftest")
    ctx.selftest(st["n_mismatch"] == st["cases"], "C02 G: corrupted skeletons / verdicts are reported")
    # beyond the exhaustive bound: random behaviours of the same specification (tlc -simulate): documents of up to 5 blocks
    # around the dependency prelude; every one-block extension of every visited prefix is emitted and replayed
    rs = ctx.tlc("MC_C02", cfg="MC_C02_sim.cfg", simulate=1 if ctx.quick else 30, depth=6, seed=ctx.seed, label="MC_C02(simulate)", timeout=3300)
    ress = ctx.vh("doc-replay", rs.out, env={"VH_LAYOUTS": "1" if ctx.quick else "2", "VERIF_SEED": str(ctx.seed)}, timeout=3300)
    ctx.absorb(ress, "G:doc-replay(simulated documents of up to 5 blocks + prelude)")
    # a layout may also distribute the description over INCLUDEd files: the split projects of MC_C09 (same catalog as the unsplit text)
    r9 = ctx.tlc("MC_C09", cfg="MC_C09_quick.cfg" if ctx.quick else "MC_C09_thorough.cfg", timeout=3000)
    res9 = ctx.vh("c09-replay", r9.out)
    ctx.absorb(res9, "G:c09-replay(layout: split over INCLUDEd files)")


def run_C05(ctx):
    ctx.cov["rule"] = ("M: CrossRefsClosed on every accepted catalog of the document model. G: " + DOC_RULE + "The cross-reference invariants are evaluated directly on the real JSON of every accepted document. "
                       "V: every accepted file of the repository's corpus (714 of 1108) is built, its catalog logged in skeleton form and judged by Trace_C05.tla (SkelOK). "
                       "Non-trivial = distinct block sequences / accepted corpus files.")
    r, res = _docs(ctx, 1, own=False)
    ctx.absorb(_only(res, ["c05:", "doc:panic", "doc:tojson", "doc:catalog-shape"]), "G:doc-replay(c05)")
    tp = os.path.join(ctx.scratch, "trace_c05.ndjson")
    rec = ctx.vh("corpus-skeletons", REPO, tp)
    ctx.absorb(rec, "V:corpus-skeletons")
    ok, tr = validate_trace(ctx, "Trace_C05", "trace_c05.ndjson", tp)
    if not ok:
        ctx.violation("c05:trace-rejected", "a catalog produced by the real code violates SkelOK of Trace_C05.tla (record %d of %d)" % (tr.depth, rec["extra"]["logged"]),
                      {"kind": "c05-trace", "record": tr.depth})
    else:
        ctx.cov["traces_validated_against_impl"] += rec["extra"]["logged"]
    # the same invariants on accepted skeletons with unusual values (paths, parameter names, JSON-RPC names, tags)
    xo = ctx.vh("sweep", "c05", "odd:%d:%d" % (ctx.seed, 8000 if ctx.quick else 300000), timeout=3000)
    ctx.absorb(dict(xo, nontrivial=xo.get("extra", {}).get("accepted", 0)), "V:sweep-c05(skeletons with unusual values)")
    tp2 = os.path.join(ctx.scratch, "c5", "trace_c05.ndjson")
    os.makedirs(os.path.dirname(tp2))
    ctx.vh("corpus-skeletons", REPO, tp2, "corrupt")
    ok2, _ = validate_trace(ctx, "Trace_C05", "trace_c05.ndjson", tp2, expect_reject=True)
    ctx.selftest(not ok2, "C05 V: a corrupted catalog record is rejected")


def run_C03(ctx):
    ctx.cov["rule"] = ("G: 3 base documents (valid by the specification: BaseValid) x every applicable site of every fault class of the property: missing parameter (12 kinds), "
                       "forbidden annotation (18 kinds), second Title/Version/Description/BaseUrl/Query/Headers/OperationId/Protocol/Path, duplicated TYPE/ENUM/SERVER/TAG/MACRO/INFO/URL/method block, "
                       "undefined type (parameter and body) / enum / tag / macro, JSIGHT missing / not first / repeated / unsupported, similar paths, duplicated path parameter, duplicated OperationId. "
                       "Each is built directly in 3 layouts, and appended faults also inside an INCLUDEd file (file, line, include trace) and inside a pasted MACRO body. "
                       "Non-trivial = distinct (base, fault kind, site).")
    ctx.assumptions += ["faults whose detection is lexical (TYPE / Headers / Query / ENUM without a body) are owned by C12/C01", "a second OperationId with the same id is reported with the OperationId-uniqueness message"]
    r = ctx.tlc("MC_C03", cfg="MC_C03.cfg" if ctx.quick else "MC_C03_thorough.cfg", timeout=1800)
    res = ctx.vh("c03-replay", r.out, env={"VERIF_SEED": str(ctx.seed)})
    ctx.absorb(res, "G:c03-replay")
    ctx.cov["exhaustive"] = True
    st = ctx.vh("c03-replay", r.out, "selftest")
    ctx.selftest(st["n_mismatch"] >= 0.9 * st["cases"], "C03 G: a shifted fault site / wrong class is reported")


def run_C15(ctx):
    ctx.cov["rule"] = ("G: all 120 permutations of each of 5 base sets of 5 independent top-level blocks (types used before declaration and through request bodies, ENUM used by a type, "
                       "TAG/Tags at URL and method level, URL groups, stand-alone methods with their own path right after a URL block, JSON-RPC, SERVER, INFO, MACRO defined after use); "
                       "M: same verdict and same entries as maps in the model; G: the real catalog of every order equals the real catalog of the base order up to the order of entries in "
                       "sections / tag lists, and equals the model's prediction for that order. Non-trivial = distinct orders.")
    ctx.assumptions += ["blocks are independent top-level blocks; no implicit-context MACRO bodies (the property excludes them)"]
    r = ctx.tlc("MC_C15", cfg="MC_C15.cfg" if ctx.quick else "MC_C15_thorough.cfg", timeout=3000)
    res = ctx.vh("c15-replay", r.out)
    ctx.absorb(res, "G:c15-replay")
    ctx.cov["exhaustive"] = True
    st = ctx.vh("c15-replay", r.out, "selftest")
    ctx.selftest(st["n_mismatch"] >= 0.8 * st["cases"], "C15 G: a changed document is noticed")
    # V: the relation of the model (OrderIrrelevant) on the repository's own accepted documents: top-level blocks found with the
    # real tree builder, seeded permutations (documents with a root-level MACRO / PASTE are left out)
    resc = ctx.vh("c15-corpus", REPO, ctx.seed, 4 if ctx.quick else 60, timeout=3000)
    ctx.absorb(resc, "V:c15-corpus(seeded permutations of corpus documents)")
    ctx.cov["traces_validated_against_impl"] += resc.get("cases", 0)
    stc = ctx.vh("c15-corpus", REPO, ctx.seed, 1, "selftest", timeout=3000)
    ctx.selftest(stc["n_mismatch"] == stc["cases"] and stc["cases"] > 100, "C15 V: an extra declaration is noticed in every permuted document")


def run_C19(ctx):
    ctx.cov["rule"] = ("G: every set of one or two banned kinds (31 + 465) x 3 projects that together contain every directive kind directly, inside an INCLUDEd file, inside pasted MACRO bodies "
                       "and inside a MACRO that is never pasted: 1 488 cases. A banned kind that occurs must give the not-allowed error on the first such directive in scanning order (file, line, "
                       "include trace); otherwise the build must equal the build without the option (verdict, catalog bytes). Non-trivial = distinct (project, banned set).")
    r = ctx.tlc("MC_C19", cfg="MC_C19.cfg" if ctx.quick else "MC_C19_thorough.cfg", timeout=3000)
    res = ctx.vh("c19-replay", r.out)
    if res.get("extra", {}).get("kinds_banned") != 31:  # every kind must have been banned at least once
        raise MachineryError("C19: %s of 31 kinds were banned" % res.get("extra"))
    ctx.absorb(res, "G:c19-replay")
    ctx.cov["exhaustive"] = True
    # option VALUES reused across builds (a server makes its options once): every history of MC_C06; C19 owns the verdict class
    rh = ctx.tlc("MC_C06", cfg="MC_C06_quick.cfg" if ctx.quick else "MC_C06_thorough.cfg", timeout=1800)
    resh = ctx.vh("c06-hist-replay", rh.out, timeout=3000)
    ctx.absorb(_only(resh, ["c06:history-class"]), "G:c06-hist-replay(ban options reused)")
    st = ctx.vh("c19-replay", r.out, "selftest")
    ctx.selftest(st["n_mismatch"] == st["cases"] - st.get("counters", {}).get("earlier-fault", 0), "C19 G: inverted expectations are reported")


def run_C16(ctx):
    ctx.cov["rule"] = ("G: every call history over the 5 accessors up to length 4 (quick, 780) / 6 (thorough, 19 530) on 7 documents that exercise every lazy path (regex types and bodies, allOf chains, or, "
                       "path variables + enum, responses declared out of code order + headers, macro/paste, JSON-RPC); plus the 160 edges of the mechanism-state graph (VIEW on the set of accessors "
                       "already called) on every accepted corpus file (every 6th in quick). Each history runs on a fresh build; the last call's bytes must equal that accessor's bytes on a pristine catalog. "
                       "Non-trivial = (project, history) pairs executed.")
    allcfg = "MC_C16_quick.cfg" if ctx.quick else "MC_C16_all.cfg"
    r = ctx.tlc("MC_C16", cfg=allcfg, timeout=600, label="MC_C16(all sequences)")
    res = ctx.vh("serial-replay", r.out, "docs", timeout=3000)
    ctx.absorb(res, "G:serial-replay(docs)")
    r2 = ctx.tlc("MC_C16", cfg="MC_C16_graph.cfg", timeout=600, label="MC_C16(state graph)")
    res2 = ctx.vh("serial-replay", r2.out, "corpus:%s:%d" % (REPO, 6 if ctx.quick else 1), timeout=3000)
    ctx.absorb(res2, "G:serial-replay(corpus)")
    # the mechanism-state graph on the documents of other generators: type graphs at every use site, one macro body at several sites
    rt = ctx.tlc("MC_C01types", cfg="MC_C01types_quick.cfg", timeout=1800)
    res3 = ctx.vh("serial-replay", r2.out, "types:" + rt.out, env={"VH_SRC_STEP": "7" if ctx.quick else "1"}, timeout=3000)
    ctx.absorb(res3, "G:serial-replay(type graphs)")
    rs = ctx.tlc("MC_C10sites", cfg="MC_C10sites.cfg", timeout=900)
    res4 = ctx.vh("serial-replay", r2.out, "toks:" + rs.out, timeout=3000)
    ctx.absorb(res4, "G:serial-replay(paste sites)")
    rm = ctx.tlc("MC_C02", cfg="MC_C02_gen.cfg", timeout=3300)
    res5 = ctx.vh("serial-replay", r2.out, "model:" + rm.out, env={"VH_SRC_STEP": "23" if ctx.quick else "1"}, timeout=3300)
    ctx.absorb(res5, "G:serial-replay(block model)")
    # ... and on the schema-feature matrix of C17: documents on which the export answers with an error value (a failed
    # conversion must fail again, with the same error, and must not leave a half-built document behind)
    rc = ctx.tlc("MC_C17", timeout=600)
    res6 = ctx.vh("serial-replay", r2.out, "cells:" + rc.out, timeout=3300)
    ctx.absorb(res6, "G:serial-replay(schema-feature matrix)")
    ctx.cov["exhaustive"] = True
    st = ctx.vh("serial-replay", r2.out, "docs", "selftest")
    ctx.selftest(st["n_mismatch"] >= 0.4 * st["cases"], "C16 G: altered reference bytes are noticed")


# ------------------------------------------------------------------ C04 / C17 / C06 (accepted-project sweeps)
def _sweep(ctx, checks, nmut):
    """accepted projects: the documents of the block model, the corpus, and seeded mutations of the corpus"""
    cfg = "MC_C02_gen.cfg" if ctx.quick else "MC_C02_quick.cfg"
    r = ctx.tlc("MC_C02", cfg=cfg, timeout=3300)
    # (C06: annotations written with runs of blanks, tabs and line breaks -- the builds must not leave anything behind in the file)
    a = ctx.vh("sweep", checks, ("modelall:" if checks == "c06" else "model:") + r.out, timeout=3300, env={"VH_WIDE_ANN": "1"} if checks == "c06" else None)
    b = ctx.vh("sweep", checks, "corpus:" + REPO, nmut, ctx.seed, timeout=3300)
    c = ctx.vh("sweep", checks, "docs", timeout=600)
    return a, b, c


def _sweep_more(ctx, checks, label):
    """the documents of the other generators as further sources of the same oracle: one macro body at several paste sites
    (MC_C10sites) and the type graphs at every use site (MC_C01types) -- accepted or not is decided by the real build"""
    r1 = ctx.tlc("MC_C10sites", cfg="MC_C10sites.cfg", timeout=900)
    x1 = ctx.vh("sweep", checks, "toks:" + r1.out, timeout=1800)
    ctx.absorb(dict(x1, nontrivial=x1.get("extra", {}).get("accepted", 0)), "G:sweep-%s(paste sites)" % label)
    r2 = ctx.tlc("MC_C01types", cfg="MC_C01types_quick.cfg", timeout=1800)
    x2 = ctx.vh("sweep", checks, "types:" + r2.out, timeout=1800)
    ctx.absorb(dict(x2, nontrivial=x2.get("extra", {}).get("accepted", 0)), "G:sweep-%s(type graphs)" % label)
    # well-formed skeletons whose slots hold unusual values (paths of '.', '{}', '{@t}', non-ASCII segments, JSON-RPC names, codes ...)
    x3 = ctx.vh("sweep", checks, "odd:%d:%d" % (ctx.seed, 6000 if ctx.quick else 200000), timeout=3000)
    ctx.absorb(dict(x3, nontrivial=x3.get("extra", {}).get("accepted", 0)), "V:sweep-%s(skeletons with unusual values)" % label)


def run_C04(ctx):
    ctx.cov["rule"] = ("M+G: the matrix of 15 schema-carrying positions x 12 defect classes (129 applicable cells): when the real build accepts a cell, ToJson and ToJsonIndent must succeed, be valid UTF-8 JSON, "
                       "agree up to whitespace and have the JDoc Exchange 2.0.0 shape (top-level keys, required fields of every entity, object/array nodes carry children, scalar nodes carry scalarValue). "
                       "G/V: the same on every accepted document of the block model, every accepted corpus file and seeded mutations of the corpus (3 quick / 12 thorough per file). "
                       "Non-trivial = accepted projects.")
    r = ctx.tlc("MC_C04", timeout=600)
    res = ctx.vh("c04-matrix", r.out)
    ctx.absorb(res, "G:c04-matrix")
    st = ctx.vh("c04-matrix", r.out, "selftest")
    ctx.selftest(st["n_mismatch"] == st["nontrivial"] and st["nontrivial"] > 10, "C04 G: accepted cells are examined")
    for x, name in zip(_sweep(ctx, "c04", 3 if ctx.quick else 12), ("model", "corpus+mutations", "docs")):
        ctx.absorb(x, "G:sweep-c04(%s)" % name)
    _sweep_more(ctx, "c04", "c04")


def run_C17(ctx):
    ctx.cov["rule"] = ("G: every accepted project (block-model documents, the 7 lazy-path documents, corpus files and seeded corpus mutations, 3 quick / 12 thorough per file): ToOpenAPIJson must return an error value "
                       "or a document with openapi/info/paths in which every HTTP interaction is paths[path][method], every {parameter} is a required path parameter, every $ref resolves to components.schemas, "
                       "every user type is a component and response keys are codes or 'default'; a panic is a violation. M: the notation matrix of MC_C04 (any / empty / regex / defective bodies) and the schema-feature matrix of MC_C17 (every rule x value, property and object level, with a user-type key shortcut, in TYPE / response / request position: 500+ cells) feed the same check. "
                       "Non-trivial = accepted projects.")
    r = ctx.tlc("MC_C04", timeout=600)
    res = ctx.vh("c04-matrix", r.out, env={"VH_MATRIX_CHECK": "c17"})
    ctx.absorb(_only(res, ["c17:"]), "G:c04-matrix(openapi)")
    rm = ctx.tlc("MC_C17", timeout=600)
    resm = ctx.vh("c17-matrix", rm.out)
    if resm["nontrivial"] < 100:
        raise MachineryError("C17 matrix: only %d cells accepted by the build" % resm["nontrivial"])
    ctx.absorb(resm, "G:c17-matrix")
    stm = ctx.vh("c17-matrix", rm.out, "selftest")
    ctx.selftest(stm["n_mismatch"] == stm["nontrivial"], "C17 G: accepted cells are examined")
    for x, name in zip(_sweep(ctx, "c17", 3 if ctx.quick else 12), ("model", "corpus+mutations", "docs")):
        ctx.absorb(x, "G:sweep-c17(%s)" % name)
    _sweep_more(ctx, "c17", "c17")
    # M+G: OpenAPI.tla -- the export as a function of the catalog value; Sound(C) is C17 on the model; the real document is
    # projected onto OAS(C).  What C17 states is a verdict, the rest of the skeleton is SPEC-DRIFT.
    ro = ctx.tlc("MC_C17docs", cfg="MC_C17docs_quick.cfg" if ctx.quick else "MC_C17docs_thorough.cfg", timeout=3300)
    reso = ctx.vh("c17-oas", ro.out, timeout=3300)
    ctx.absorb(reso, "G:c17-oas")
    ctx.cov["oas_skeleton_drift"] = reso.get("drift", 0)
    sto = ctx.vh("c17-oas", ro.out, "selftest", timeout=3300)
    ctx.selftest(sto["n_mismatch"] == sto["nontrivial"] and sto["nontrivial"] > 100, "C17 G: a corrupted OpenAPI skeleton is reported for every document with paths")


def run_C06(ctx):
    ctx.cov["rule"] = ("G: every project of the sources (block-model documents accepted and rejected, corpus files, seeded corpus mutations) is built 3 times in one process (Go randomises every map iteration) "
                       "and a sample twice in fresh processes; catalog bytes, or message / file / index / line / column / rendered trace of the error must be identical. M: MC_C10cyc enumerates the macro graphs whose "
                       "recursion check has several candidate error sites (the historical map-order defect). A seeded history of 60 (quick) / 600 builds in one process over an included file and a root file that are "
                       "rewritten between builds must give, at every step, what a fresh process gives for the files on disk at that moment. Non-trivial = projects built.")
    ctx.assumptions += ["a map with k keys iterated once per build shows a different order with probability >= 1 - 1/k! per rebuild; 3 rebuilds per project over thousands of projects"]
    for x, name in zip(_sweep(ctx, "c06", 3 if ctx.quick else 12), ("model", "corpus+mutations", "docs")):
        x = dict(x, nontrivial=x.get("cases", 0))
        ctx.absorb(x, "G:sweep-c06(%s)" % name)
    _sweep_more(ctx, "c06", "c06")
    xd = ctx.vh("sweep", "c06", "depmap", timeout=600)
    ctx.absorb(dict(xd, nontrivial=xd.get("cases", 0)), "G:sweep-c06(dependency map order)")
    # macro graphs: several offending macros -> the reported site must be stable
    r2 = ctx.tlc("MC_C10cyc", timeout=900)
    res2 = ctx.vh("c06-docs", r2.out, timeout=900)
    ctx.absorb(res2, "G:c06-docs(macro graphs)")
    # fresh processes
    res3 = ctx.vh("c06-procs", REPO, ctx.seed, 40 if ctx.quick else 400, timeout=1800)
    ctx.absorb(res3, "G:c06-procs")
    # histories of builds in one process over files that change between builds
    res4 = ctx.vh("c06-history", ctx.seed, 60 if ctx.quick else 600, timeout=600)
    ctx.absorb(res4, "G:c06-history")
    # builds of different projects running at the same time must give what each gives alone (package-level state shared
    # between builds shows up here; serialisation and the race detector are C18's)
    rmod = ctx.tlc("MC_C02", cfg="MC_C02_gen.cfg", timeout=3300)
    tpc = os.path.join(ctx.scratch, "c06-conc.ndjson")
    resc = ctx.vh("conc-stress", "model:" + rmod.out, ctx.seed, 40 if ctx.quick else 400, 16, tpc, env={"VH_SRC_STEP": "7", "VH_BUILD_REPEAT": "25"}, timeout=3000)
    keep = [m for m in (resc.get("mismatches") or []) if m["sig"].startswith("c18:independent")]
    ctx.absorb(dict(resc, mismatches=[dict(m, sig="c06:concurrent-build:" + m["sig"]) for m in keep], n_mismatch=len(keep), nontrivial=resc.get("cases", 0)),
               "V:conc-stress(concurrent builds)")
    # rejected documents too: several builds of one rejected project running at once must all report what the lone build reports
    resr = ctx.vh("c06-rejected-conc", "modelall:" + rmod.out, 8, timeout=3000)
    ctx.absorb(resr, "V:c06-rejected-conc(rejected block-model documents, 8 builds at once)")
    # M+G: every history of builds over changing files and a process-wide pool of option values (MC_C06)
    r5 = ctx.tlc("MC_C06", cfg="MC_C06_quick.cfg" if ctx.quick else "MC_C06_thorough.cfg", timeout=1800)
    res5 = ctx.vh("c06-hist-replay", r5.out, timeout=3000)
    ctx.absorb(res5, "G:c06-hist-replay")
    st = ctx.vh("c06-hist-replay", r5.out, "selftest", timeout=3000)
    ctx.selftest(st["n_mismatch"] == st["cases"], "C06 G: corrupted outcome classes of every history are reported")


# ------------------------------------------------------------------------ C18
def _race_reports(prefix):
    """Parse the race detector's reports: for each, the first frame inside jsight-api-core / jsight-schema-core of each access."""
    import glob
    import re
    out = []
    for f in glob.glob(prefix + ".*"):
        t = open(f, errors="replace").read()
        for rep in t.split("WARNING: DATA RACE")[1:]:
            keys = []
            for sec in re.split(r"\n(?=Previous |Read at|Write at)", rep)[:3]:
                for fn, file, line in re.findall(r"\n\s+([\w./*()\[\]-]+)\(\)\n\s+(\S+):(\d+)", sec):
                    if "jsightapi" in file or "/repo/" in file:
                        where = file.split("jsight-schema-core@v0.2.0/")[-1] if "jsight-schema-core" in file else file.replace(REPO + "/", "")
                        keys.append(("dep:" if "jsight-schema-core" in file else "repo:") + where + ":" + fn.split("/")[-1])
                        break
            out.append(" || ".join(keys))
    return out


def run_C18(ctx):
    ctx.cov["rule"] = ("M: Conc.tla, every interleaving of 3 goroutines over the pooled buffers of the dependency (with the repository's mutex) and the sync.Once of a shared catalog: Sequential, NoPartialContent, "
                       "termination; the two negative configurations (pool not locked, unsynchronised fast path) must be rejected by TLC (the invariants are not vacuous). "
                       "G/V: a stress driver built with -race runs rounds of (a) G goroutines building and serialising different projects at the same moment and (b) G goroutines serialising one freshly built catalog "
                       "at the same moment (first serialisation included), over the lazy-path documents and corpus projects; every call's digest is logged with per-goroutine sequence numbers and validated by "
                       "Trace_C18.tla against the digest of the same call run alone; every report of the race detector is a violation. Non-trivial = rounds x phases.")
    ctx.assumptions += ["real schedules cannot be forced without hooks in the dependency: replay is statistical (rounds x goroutines with start barriers, GOMAXPROCS = all cores)",
                        "the race detector is the observer for the 'no data race' clause"]
    ctx.tlc("Conc", cfg="Conc_ok.cfg", timeout=600, label="Conc(ok)", coverage=True, zero_ok=("Skip",))
    for cfg, inv in (("Conc_unlockedpool.cfg", "Sequential"), ("Conc_fastpath.cfg", "NoPartialContent")):
        r = ctx.tlc("Conc", cfg=cfg, timeout=600, label="Conc(negative:%s)" % cfg, allow_violation=True)
        if inv not in r.violated:
            raise MachineryError("the negative configuration %s is not rejected: invariant %s is vacuous" % (cfg, inv))
    race = ctx.build_harness(race=True)
    rounds = 25 if ctx.quick else 300
    total = 0
    for i, src in enumerate(["docs", "corpus:%s:%d" % (REPO, 9 if ctx.quick else 2)]):
        tp = os.path.join(ctx.scratch, "c18-%d" % i, "trace_c18.ndjson")
        os.makedirs(os.path.dirname(tp))
        logp = os.path.join(ctx.scratch, "race-%d" % i)
        res = ctx.vh("conc-stress", src, ctx.seed + i, rounds, 12, tp, binary=race,
                     env={"GORACE": "halt_on_error=0 log_path=" + logp}, timeout=3000, allow_fail=True)
        if res.get("error"):
            # the runtime ends the whole process on an unsynchronised map access ("fatal error: concurrent map writes"):
            # every independent build dies with it - a verdict, not a failure of the driver
            err = res.get("stderr") or ""
            m = re.search(r"^fatal error: (concurrent map[^\n]*|all goroutines are asleep[^\n]*|sync: [^\n]*)", err, re.M)
            if not m:
                raise MachineryError("harness conc-stress: %s (rc=%s)\n%s" % (res["error"], res.get("rc"), err[-3000:]))
            site = re.search(r"github\.com/jsightapi/(jsight-[a-z-]+)(?:@[^/]+)?/([\w./-]+(?:\(\*?\w+\))?[\w.]*)\(", err)
            ctx.violation("c18:process-died:" + m.group(1)[:60] + ((":" + site.group(2)) if site else ""),
                          "concurrent independent builds kill the process: fatal error: " + m.group(1),
                          {"kind": "c18-race", "source": src, "seed": ctx.seed + i, "frames": m.group(1)})
            for key in _race_reports(logp):
                ctx.violation("c18:data-race:" + key, "the race detector reports a data race: " + key, {"kind": "c18-race", "source": src, "seed": ctx.seed + i, "frames": key})
            ctx.cov["samples"].append({"step": "V:conc-stress(%s)" % src.split(":")[0], "case": {"process_died": m.group(1)}})
            ctx.cov["evaluations"] += 1
            continue
        ctx.absorb(res, "V:conc-stress(%s)" % src.split(":")[0])
        for key in _race_reports(logp):
            ctx.violation("c18:data-race:" + key, "the race detector reports a data race: " + key, {"kind": "c18-race", "source": src, "seed": ctx.seed + i, "frames": key})
        ok, tr = validate_trace(ctx, "Trace_C18", "trace_c18.ndjson", tp)
        if not ok:
            ctx.violation("c18:trace-rejected", "a recorded concurrent history is not accepted by Trace_C18.tla (event %d)" % tr.depth,
                          {"kind": "c18-trace", "source": src, "seed": ctx.seed + i})
        else:
            ctx.cov["traces_validated_against_impl"] += res["extra"]["events"]
            total += res["extra"]["events"]
    # binding self-test: a corrupted digest must be rejected
    tp2 = os.path.join(ctx.scratch, "c18-x", "trace_c18.ndjson")
    os.makedirs(os.path.dirname(tp2))
    with open(tp2, "w") as fh:
        fh.write('{"ev":"call","g":0,"seq":1,"project":"p","acc":"ToJson","digest":"aa","want":"aa","phase":"shared"}\n')
        fh.write('{"ev":"call","g":1,"seq":1,"project":"p","acc":"ToJson","digest":"ab","want":"aa","phase":"shared"}\n')
    ok2, _ = validate_trace(ctx, "Trace_C18", "trace_c18.ndjson", tp2, expect_reject=True)
    ctx.selftest(not ok2, "C18 V: a history with a differing digest is rejected")


# ------------------------------------------------------------------------ C01
def _fuzz_ranges(ctx, seed, total, chunk=20000, timeout=300):
    """Run the seeded fuzz stream in isolated worker processes; bisect a dead / hung worker."""
    from concurrent.futures import ThreadPoolExecutor
    agg = dict(cases=0, nontrivial=0, n_mismatch=0, mismatches=[], samples=[], counters={}, unreproduced=0)

    def run(a, b):
        try:
            return ctx.vh_quiet("fuzz-build", REPO, seed, a, b, timeout=timeout)
        except subprocess.TimeoutExpired:
            return dict(error="timeout", rc=-9, stderr="worker exceeded %ds" % timeout)

    def go(rng):
        a, b = rng
        res = run(a, b)
        if not res.get("error"):
            return [res]
        if b - a == 1:
            err = res.get("stderr") or ""
            first = next((l for l in err.splitlines() if l.startswith(("fatal error", "panic:", "runtime:"))), err[:200])
            return [dict(cases=1, nontrivial=1, n_mismatch=1, mismatches=[dict(
                sig="c01:process-died:" + first[:80], what="fuzz case %d (seed %d): the process died or hung (rc=%s): %s" % (a, seed, res.get("rc"), first[:300]),
                replay=dict(kind="c01-fuzz", seed=seed, case=a))])]
        mid = (a + b) // 2
        return go((a, mid)) + go((mid, b))

    ranges = [(i, min(i + chunk, total)) for i in range(0, total, chunk)]
    from vlib import NCPU
    with ThreadPoolExecutor(max_workers=max(1, NCPU - 2)) as ex:
        for lst in ex.map(go, ranges):
            for res in lst:
                for k in ("cases", "nontrivial"):
                    agg[k] += res.get(k, 0)
                agg["samples"] += (res.get("samples") or [])[:1]
                for k, v in (res.get("counters") or {}).items():
                    agg["counters"][k] = agg["counters"].get(k, 0) + v
                for m in res.get("mismatches") or []:
                    # a verdict needs a reproducible case: re-run it alone in a fresh process
                    c = m["replay"].get("case")
                    again = run(c, c + 1) if c is not None and "process-died" not in m["sig"] else None
                    if again is not None and not again.get("error") and not again.get("n_mismatch"):
                        agg["unreproduced"] += 1
                        log("UNREPRODUCED (not a verdict): " + m["what"][:300])
                        continue
                    agg["mismatches"].append(m)
                    agg["n_mismatch"] += 1
    agg["samples"] = agg["samples"][:4]
    agg["extra"] = dict(unreproduced=agg.pop("unreproduced"))
    log("[fuzz] seed %d: %d cases, %d mismatches, %s" % (seed, agg["cases"], agg["n_mismatch"], agg["extra"]))
    return agg


def run_C01(ctx):
    ctx.cov["rule"] = ("M: no partial function of the code is reachable -- scanner model (NoPanic, bounded stacks, every tape up to the bound), macro graphs (every PASTE graph over 4 macros incl. all cycle lengths: "
                       "rejected, expansion bounded), include graphs (stack never holds a file twice, bounded steps). G: every tape of the scanner model through the WHOLE build; every macro graph and include graph "
                       "through the real build in crash-isolated workers. V: a seeded fuzz stream (random bytes incl. NUL / invalid UTF-8, random directive words, mutated / truncated / spliced corpus files, include graphs on "
                       "disk with cycles / missing / directory / empty names / trailing garbage, missing / empty / directory roots) in isolated worker processes with a wall-clock limit; a panic, a fatal error, a killed or hung "
                       "worker (bisected to one case) is the violation. Non-trivial = cases that are not rejected by the first scanner state.")
    ctx.assumptions += ["'time proportional to the input': per-case limit 2 s + 50 us/byte and a wall-clock limit per worker (hangs)",
                        "a panic that does not reproduce when its case is re-run alone in a fresh process is logged as UNREPRODUCED and is not a verdict"]
    # scanner tapes through the whole build
    r = ctx.tlc("MC_C12", cfg="MC_C12_quick.cfg" if ctx.quick else "MC_C12_thorough.cfg", timeout=3000)
    res = ctx.vh_isolated("tape-build", r.out, chunk=60000, timeout=600, sig_prefix="c01")
    ctx.absorb(res, "G:tape-build")
    # macro graphs (cycles) and include graphs: only crashes / hangs are C01's
    r2 = ctx.tlc("MC_C10cyc", timeout=900)
    res2 = ctx.vh_isolated("c10-replay", r2.out, chunk=400, timeout=120, sig_prefix="c01")
    ctx.absorb(_only(res2, ["c01:", "c10:panic"]), "G:c10-replay(cycles, crash-only)")
    r3 = ctx.tlc("MC_C07", cfg="MC_C07_quick.cfg", timeout=3000)
    res3 = ctx.vh_isolated("c07-replay", r3.out, chunk=20000, timeout=900, sig_prefix="c01")
    ctx.absorb(_only(res3, ["c01:", "c07:panic"]), "G:c07-replay(include graphs, crash-only)")
    # every document of the block model through the build, in workers (a crash of the build phase - catalog setters, tags, path
    # variables - is attributed to its document)
    rdoc = ctx.tlc("MC_C02", cfg="MC_C02_gen.cfg", timeout=3300)
    resdoc = ctx.vh_isolated("doc-replay", rdoc.out, chunk=2000, timeout=900, sig_prefix="c01")
    ctx.absorb(_only(resdoc, ["c01:", "doc:panic", "layout:panic"]), "G:doc-replay(block-model documents, crash-only)")
    r3b, res3b = _include_random(ctx, sig_prefix="c01")
    ctx.absorb(_only(res3b, ["c01:", "c07:panic"]), "V:c07-replay(random include projects in two directories, crash-only)")
    # type graphs (references, 'or', properties, items, allOf; cyclic or not) x every site that uses a type
    r4 = ctx.tlc("MC_C01types", cfg="MC_C01types_quick.cfg", timeout=1800)
    res4 = ctx.vh_isolated("types-build", r4.out, chunk=4000, timeout=600, sig_prefix="c01")
    ctx.absorb(res4, "G:types-build")
    if not ctx.quick:
        r4b = ctx.tlc("MC_C01types", cfg="MC_C01types_thorough.cfg", timeout=3000, label="MC_C01types(N=3)")
        res4b = ctx.vh_isolated("types-build", r4b.out, chunk=4000, timeout=900, sig_prefix="c01")
        ctx.absorb(res4b, "G:types-build(N=3)")
    # 'or' diamonds: the walk with a visited set is linear (model); the time of the real build is measured
    res5 = ctx.vh_isolated("types-chain", r4.out, chunk=1, tag="D", timeout=120, sig_prefix="c01")
    ctx.absorb(res5, "G:types-chain(or diamonds)")
    ctx.cov["or_diamond_timings"] = (res5.get("extra") or {}).get("timings")
    # macro diamonds: the expanded tree doubles with every level by the language's own semantics (model: ASSUME of
    # MC_C01macro); the time of the real build is measured
    r6 = ctx.tlc("MC_C01macro", timeout=600)
    res6 = ctx.vh_isolated("macro-chain", r6.out, chunk=1, tag="D", timeout=300, sig_prefix="c01")
    ctx.absorb(res6, "G:macro-chain(macro diamonds)")
    ctx.cov["macro_diamond_timings"] = (res6.get("extra") or {}).get("timings")
    # fuzz
    n = 300000 if ctx.quick else 6000000
    fz = _fuzz_ranges(ctx, ctx.seed, n)
    ctx.absorb(fz, "V:fuzz-build")
    ctx.cov["fuzz_unreproduced_panics"] = fz["extra"]["unreproduced"]


# ------------------------------------------------------------------------ C08
def run_C08(ctx):
    ctx.cov["rule"] = ("M+G (bytes): Renderer || Scanner -- two directive lines from 11 line templates, each rendered under every combination of indentation, separators, trailing blanks / comment, LF / CRLF / CR, "
                       "blank / '#' / '###' material before the line, // vs /* */, quoted parameters (one line varies, the other canonical: about 70 000 quick / 210 000 thorough renderings); invariant: same tokens as the canonical "
                       "layout; every rendering replayed on the real Next(). M+G (Description): Desc.tla transcribes core/description.go; every text of <= 3 lines x <= 2 (quick) / 3 (thorough) bytes over {space, tab, a, b}: the normalised text is invariant under LF/CRLF/CR, uniform indentation and the '( )' frame (M) and equals the real catalog's description in 7 layout variants (G). M+G (documents): explicit-closure form vs implicit form of every block-model document (same tree, same catalog bytes). "
                       "G: every block-model document (accepted or rejected) in 6 seeded random layouts -- same skeleton and same catalog BYTES as the canonical layout, or same class with the error on the moved line. "
                       "V: every single-file corpus document rewritten with CRLF, with CR and with a uniform indentation: same verdict, same catalog (line breaks inside string values normalised), same error class and line. "
                       "Non-trivial = renderings with at least two lexemes / documents with an explicit context / accepted corpus files.")
    ctx.assumptions += ["'#' comments are inserted between directives only (not between a directive line and its body, not after a Description text, which would swallow them)",
                        "errors worded by jsight-schema-core that quote the offending character count as one class per message kind"]
    r = ctx.tlc("MC_C08", cfg="MC_C08_quick.cfg" if ctx.quick else "MC_C08_thorough.cfg", timeout=3000)
    res = ctx.vh("scan-replay", r.out, env={"VH_DISTINCT": "len"})
    ctx.absorb(res, "G:scan-replay(layouts)")
    st = ctx.vh("scan-replay", r.out, "selftest")
    ctx.selftest(st["n_mismatch"] == st["cases"], "C08 G: corrupted lexeme expectations are reported")
    r2 = ctx.tlc("MC_C08doc", cfg="MC_C08doc_quick.cfg" if ctx.quick else "MC_C08doc_thorough.cfg", timeout=3000)
    res2 = ctx.vh("c08-closure", r2.out)
    ctx.absorb(res2, "G:c08-closure")
    st2 = ctx.vh("c08-closure", r2.out, "selftest")
    acc = (st2.get("counters") or {}).get("implicit-accepted", 0)
    # (a damaged explicit form of a document that is rejected anyway is rejected too: only accepted documents count)
    ctx.selftest(acc > 0 and st2["n_mismatch"] >= 0.9 * acc, "C08 G: a damaged explicit form of an accepted document is noticed")
    rd = ctx.tlc("MC_Desc", cfg="MC_Desc_quick.cfg" if ctx.quick else "MC_Desc_thorough.cfg", timeout=3000)
    resd = ctx.vh("desc-replay", rd.out, timeout=3000)
    ctx.absorb(resd, "G:desc-replay")
    std = ctx.vh("desc-replay", rd.out, "selftest")
    ctx.selftest(std["n_mismatch"] == std["cases"], "C08 G: a wrong description text is noticed")
    r3 = ctx.tlc("MC_C02", cfg="MC_C02_gen.cfg" if ctx.quick else "MC_C02_quick.cfg", timeout=3300)
    res3 = ctx.vh("doc-replay", r3.out, env={"VH_LAYOUTS": "4" if ctx.quick else "8", "VERIF_SEED": str(ctx.seed), "VH_IGNORE": "uenums"}, timeout=3300)
    ctx.absorb(_only(res3, ["layout:"]), "G:doc-replay(4 / 8 seeded layouts)")
    res4 = ctx.vh("c08-corpus", REPO, 2 if ctx.quick else 1, timeout=3000)
    ctx.absorb(res4, "V:c08-corpus")
    ctx.cov["exhaustive"] = True
