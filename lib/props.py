"""Per-property check procedures.  Each run_Cxx(ctx) performs M (TLC on the
specification), G (replay of TLC's emissions on the real code) and V (trace
validation of recorded real executions) as described in DESIGN.md section 5."""
import json
import os
import subprocess

from vlib import MachineryError, log


def replay(ctx, path):
    r = json.load(open(path))
    case = os.path.join(ctx.scratch, "replay.json")
    json.dump(r["replay"], open(case, "w"))
    res = ctx.vh("replay", case, allow_fail=True)
    print(json.dumps({k: v for k, v in res.items() if not k.startswith("_")}, indent=1)[:6000])
    if res.get("n_mismatch", 0) > 0:
        print("VIOLATION property=%s replay=%s" % (ctx.prop, path))
        return 1
    return 0 if not res.get("error") else 2


def validate_trace(ctx, module, trace_name, trace_path, expect_reject=False, workers=1, timeout=900):
    """Run the trace specification on a recorded NDJSON trace; accepted iff the postcondition holds."""
    dst = os.path.join(ctx.scratch, trace_name)
    if os.path.abspath(trace_path) != os.path.abspath(dst):
        import shutil
        shutil.copy(trace_path, dst)
    r = ctx.tlc(module, workers=workers, timeout=timeout, extra_files=[dst],
                label=module + ("(corrupted)" if expect_reject else ""))
    accepted = not r.postcondition_false
    return accepted, r


# ------------------------------------------------------------------------ C11
def run_C11(ctx):
    ctx.cov["rule"] = ("G: one case per edge of the complete state graph of the context resolver "
                       "(state = chain of open (kind, explicit) contexts; edge = directive kind x has-path x explicit, or ')'); "
                       "non-trivial = nesting depth >= 2 or a rejection, distinct by (target chain, verdict, token). "
                       "V: seeded random token sequences up to 40 tokens, every prefix observed on the real tree builder.")
    ctx.assumptions += [
        "directives are rendered one per line with minimal valid parameters/bodies; the scanner is trusted to cut them into lexemes (C12 checks that)",
        "the specification's context table (spec/Lang.tla) is an independent transcription of the JSight API 0.3 table",
    ]
    # M + G: complete graph, all action properties; the harness replays every edge.
    r = ctx.tlc("MC_C11", timeout=600)
    res = ctx.vh("c11-replay", r.out)
    if res["cases"] != r.generated - 1:
        raise MachineryError("emitted %d edges but TLC generated %d states" % (res["cases"], r.generated))
    ctx.absorb(res, "G:c11-replay")
    ctx.cov["exhaustive"] = True
    st = ctx.vh("c11-replay", r.out, "selftest")
    ctx.selftest(st["n_mismatch"] == st["cases"], "C11 G: every corrupted verdict is reported")
    # V: recorded executions validated by Trace_C11
    ntr, maxlen = (300, 40) if ctx.quick else (6000, 60)
    tp = os.path.join(ctx.scratch, "trace_c11.ndjson")
    rec = ctx.vh("c11-record", tp, ctx.seed, ntr, maxlen)
    ok, tr = validate_trace(ctx, "Trace_C11", "trace_c11.ndjson", tp)
    ctx.absorb(rec, "V:c11-record")
    if not ok:
        ctx.violation("c11:trace-rejected", "a recorded execution of the tree builder is not a behaviour of Tree.tla "
                      "(longest matched prefix: %d of %d events)" % (tr.depth - 1, rec["extra"]["events"]),
                      {"kind": "c11-trace", "seed": ctx.seed, "traces": ntr, "maxlen": maxlen})
    else:
        ctx.cov["traces_validated_against_impl"] += rec["cases"]
    tp2 = os.path.join(ctx.scratch, "c", "trace_c11.ndjson")
    os.makedirs(os.path.dirname(tp2))
    ctx.vh("c11-record", tp2, ctx.seed, 20, 20, "corrupt")
    ok2, _ = validate_trace(ctx, "Trace_C11", "trace_c11.ndjson", tp2, expect_reject=True)
    ctx.selftest(not ok2, "C11 V: a trace with one corrupted field is rejected")


# ------------------------------------------------------------------------ C13
def run_C13(ctx):
    ctx.cov["rule"] = ("G: one case per edge (prefix . byte) of the keyword recogniser explored breadth-first from the directive-start "
                       "state over the full 256-byte alphabet (bytes fed only while inside or just behind a keyword); the expectation is "
                       "the specification's run to end of file on exactly that tape. Non-trivial = distinct (outcome, error class, lexeme shape, tape length).")
    ctx.assumptions += ["the keyword list of spec/Lang.tla is an independent transcription of the JSight API 0.3 keywords",
                        "a body start directly behind a keyword is judged by jsight-schema-core (outcome 'oracle': lexeme prefix compared)"]
    r = ctx.tlc("MC_C13", timeout=600)
    res = ctx.vh("scan-replay", r.out, env={"VH_DISTINCT": "len"})
    if res["cases"] == 0 or res.get("counters", {}).get("tables-compared") != 1:
        raise MachineryError("C13: nothing replayed or keyword tables not compared")
    ctx.absorb(res, "G:scan-replay(keywords)")
    ctx.cov["exhaustive"] = True
    ctx.cov["keywords_accepted_by_real_scanner"] = res.get("extra", {}).get("keywords_accepted")
    st = ctx.vh("scan-replay", r.out, "selftest")
    ctx.selftest(st["n_mismatch"] == st["cases"], "C13 G: every corrupted expectation is reported")


# ------------------------------------------------------------------------ C12
def run_C12(ctx):
    ctx.cov["rule"] = ("G: one case per Feed edge of the byte-level scanner model over all tapes assembled from the chunk menu "
                       "(12 single bytes of every class the scanner distinguishes, 30 keywords, a response code, 4 parameters, 4 bodies) up to MaxLen bytes; "
                       "expectation = specification's run to end of file (type, begin, end of every lexeme; error index). "
                       "Non-trivial = distinct (outcome, error class, lexeme shape, tape length).")
    ctx.assumptions += ["extent and validity of schema / enum bodies are decided by jsight-schema-core Len() (trusted oracle: pool bodies with known length)"]
    cfg = "MC_C12_quick.cfg" if ctx.quick else "MC_C12_thorough.cfg"
    r = ctx.tlc("MC_C12", cfg=cfg, timeout=3000)
    res = ctx.vh("scan-replay", r.out, env={"VH_DISTINCT": "len"})
    ctx.absorb(res, "G:scan-replay(extent)")
    ctx.cov["exhaustive"] = True
    st = ctx.vh("scan-replay", r.out, "selftest")
    ctx.selftest(st["n_mismatch"] == st["cases"], "C12 G: every corrupted expectation is reported")


# ------------------------------------------------------------------------ C10
def run_C10(ctx):
    ctx.cov["rule"] = ("G: every document of <= MaxLen tokens over a MACRO/PASTE menu (19 tokens: 2 defined macro names + 1 undefined, explicit/implicit "
                       "contexts, URL/method/response/body/ENUM/TYPE, ')') whose tree builds; for each the predicted expansion (tree shape or error class + line) "
                       "is compared with the real scanProject+processPaste, and the catalog of the macro form with the catalog of the in-place form. "
                       "Non-trivial = contains MACRO or PASTE, distinct by (verdict, size, token kinds).")
    ctx.assumptions += ["both forms are rendered one directive per line; error wording is compared by class only"]
    cfg = "MC_C10_quick.cfg" if ctx.quick else "MC_C10_thorough.cfg"
    r = ctx.tlc("MC_C10", cfg=cfg, timeout=3300)
    res = ctx.vh("c10-replay", r.out)
    ctx.absorb(res, "G:c10-replay")
    ctx.cov["exhaustive"] = True
    st = ctx.vh("c10-replay", r.out, "selftest")
    ctx.selftest(st["n_mismatch"] == st["cases"], "C10 G: every corrupted expectation is reported")
    # cycles of every length 1..4 (and a long chain that is not a cycle)
    r2 = ctx.tlc("MC_C10cyc", timeout=900)
    res2 = ctx.vh_isolated("c10-replay", r2.out, chunk=400, timeout=120, sig_prefix="c10")
    ctx.absorb(res2, "G:c10-replay(cycles)")


# ------------------------------------------------------------------ C07 / C14 / C09
def _include_graphs(ctx, tag):
    cfg = "MC_C07_quick.cfg" if ctx.quick else "MC_C07_thorough.cfg"
    r = ctx.tlc("MC_C07", cfg=cfg, timeout=3000)
    res = ctx.vh_isolated("c07-replay", r.out, chunk=20000, timeout=900, sig_prefix="c07")
    return r, res


def run_C07(ctx):
    ctx.cov["rule"] = ("G: every terminal state of the include-graph model (3 files quick / 4 thorough; root <= 3 tokens, others <= 2, menu: TYPE, a misplaced Body, "
                       "explicit URL, ')', INCLUDE of each file / of a missing file, plus rare names and malformed INCLUDE lines); contents are chosen lazily when a file is first opened. "
                       "For each: error class, file, line, recomputed line/column/quote, include trace (rendered vs model), trace of every accepted directive, and the "
                       "duplicate-TYPE rule error of the build phase with its trace. Non-trivial = has at least one INCLUDE, distinct by token kinds of all files.")
    ctx.assumptions += ["files use LF line endings (mixed conventions are outside the definition of 'the line this index has')",
                        "known finding C07-tracer-cache is recognised only when the observed trace equals the quirk model's prediction"]
    r, res = _include_graphs(ctx, "c07")
    ctx.absorb(res, "G:c07-replay")
    ctx.cov["exhaustive"] = True
    st = ctx.vh("c07-replay", r.out, "selftest")
    ctx.selftest(st["n_mismatch"] >= st["cases"] * 0.95, "C07 G: corrupted verdicts / traces are reported")


def run_C14(ctx):
    ctx.cov["rule"] = ("G(names): every INCLUDE parameter over the alphabet {a . / \\ space} up to 6 (quick) / 7 (thorough) characters against a project with decoy files outside the root; "
                       "the file-access hook records every path handed to the OS. G(graphs): every terminal state of the include-graph model (cycles of every length over the files, "
                       "repeated non-cyclic inclusion, missing file, directory, refused names). Non-trivial = distinct (class, outcome, path depth) / graphs with an INCLUDE.")
    ctx.assumptions += ["names that need quoting and contain a backslash are skipped (the scanner's quoted-parameter escapes change them); they are covered bare"]
    cfg = "MC_C14_quick.cfg" if ctx.quick else "MC_C14_thorough.cfg"
    r = ctx.tlc("MC_C14", cfg=cfg, timeout=900)
    res = ctx.vh("c14-replay", r.out)
    ctx.absorb(res, "G:c14-replay(names)")
    st = ctx.vh("c14-replay", r.out, "selftest")
    ctx.selftest(st["n_mismatch"] == st["cases"], "C14 G: corrupted name classes are reported")
    r2, res2 = _include_graphs(ctx, "c14")
    # C14 owns: paths handed to the OS, recursion / missing / directory verdicts and their location
    keep = [m for m in (res2.get("mismatches") or []) if not m["sig"].startswith("c07:tracer-cache-quirk")
            and not m["sig"].startswith(("c07:trace-", "c07:node-trace", "c07:dup-trace", "c07:location-fields"))]
    res2 = dict(res2, mismatches=keep, n_mismatch=len(keep))
    ctx.absorb(res2, "G:c07-replay(graphs)")
    ctx.cov["exhaustive"] = True
