package main

import (
	"bytes"
	"encoding/json"
	"fmt"
	"os"
	"path/filepath"
	"sort"
	"strings"

	"github.com/jsightapi/jsight-schema-core/fs"

	"github.com/jsightapi/jsight-api-core/core"
	"github.com/jsightapi/jsight-api-core/directive"
	"github.com/jsightapi/jsight-api-core/kit"
)

func init() {
	subcmds["c19-replay"] = c19Replay
}

type c19Case struct {
	Proj    string           `json:"proj"`
	Banned  []string         `json:"banned"`
	Content map[string][]Tok `json:"content"`
	Occurs  bool             `json:"occurs"`
	Err     struct {
		Cls   string   `json:"cls"`
		F     string   `json:"f"`
		I     int      `json:"i"`
		Trace []trItem `json:"trace"`
	} `json:"err"`
}

func enumOf(kind string) (directive.Enumeration, bool) {
	if kind == "RESP" {
		return directive.HTTPResponseCode, true
	}
	for i := 0; i <= int(directive.OperationID); i++ {
		if directive.Enumeration(i).String() == kind {
			return directive.Enumeration(i), true
		}
	}
	return 0, false
}

func buildWith(rootPath string, opts ...core.Option) (o buildObs) {
	defer func() {
		if r := recover(); r != nil {
			o.Res, o.Msg = "panic", fmt.Sprint(r)
		}
	}()
	b, err := os.ReadFile(rootPath)
	if err != nil {
		o.Res, o.Msg = "panic", err.Error()
		return o
	}
	j, je := kit.NewJApiFromFile(fs.NewFile(rootPath, b), opts...)
	if je != nil {
		o.Res, o.Msg, o.Line, o.Err = "err", je.Msg, int(je.Line), je
		if je.File != nil {
			o.File = je.File.Name()
		}
		return o
	}
	js, err := j.ToJson()
	if err != nil {
		o.Res, o.Msg = "tojson-err", err.Error()
		return o
	}
	o.Res, o.JSON = "ok", js
	return o
}

// c19-replay <tlc-output> [selftest]
func c19Replay(args []string) *Result {
	res := &Result{}
	if err := loadPools(args[0]); err != nil {
		res.Error = err.Error()
		return res
	}
	selftest := len(args) > 1 && args[1] == "selftest"
	base, err := os.MkdirTemp(scratchBase(), "vh-c19-")
	if err != nil {
		res.Error = err.Error()
		return res
	}
	defer os.RemoveAll(base)
	plain := map[string]buildObs{}
	distinct := map[string]struct{}{}
	kindsSeen := map[string]struct{}{}
	ferr := forEachEmitted(args[0], "E", func(js string) error {
		var cs c19Case
		if err := json.Unmarshal([]byte(js), &cs); err != nil {
			return fmt.Errorf("bad emission: %v", err)
		}
		res.Cases++
		p, err := writeProject(base, cs.Content, false)
		if err != nil {
			return err
		}
		root := filepath.Join(p.dir, "root.jst")
		var bans []directive.Enumeration
		for _, k := range cs.Banned {
			e, ok := enumOf(k)
			if !ok {
				return fmt.Errorf("kind %s unknown to the directive table", k)
			}
			bans = append(bans, e)
			kindsSeen[k] = struct{}{}
		}
		sort.Strings(cs.Banned)
		distinct[cs.Proj+"/"+strings.Join(cs.Banned, "+")] = struct{}{}
		earlier := cs.Occurs && cs.Err.Cls != "" && cs.Err.Cls != "notallowed"
		if selftest {
			cs.Occurs = !cs.Occurs
		}
		if _, ok := plain[cs.Proj]; !ok {
			plain[cs.Proj] = buildWith(root)
		}
		o := buildWith(root, core.WithBannedDirectives(bans...))
		replay := map[string]any{"kind": "c19", "proj": cs.Proj, "banned": cs.Banned, "root": p.files["root.jst"].text, "inc": p.files["inc.jst"].text}
		res.count(fmt.Sprintf("occurs-%v", cs.Occurs))
		if len(res.Samples) < 3 && res.Cases%211 == 7 {
			res.sample(map[string]any{"project": cs.Proj, "banned": cs.Banned, "occurs": cs.Occurs, "verdict": o.Res, "message": firstLine(o.Msg)})
		}
		switch {
		case o.Res == "panic":
			res.mismatch("c19:panic", o.Msg, replay)
		case earlier:
			// the project has a fault of its own that is met before the first banned directive: it stops the run first, as without the ban
			res.count("earlier-fault")
			if selftest {
				break
			}
			if o.Res != "err" || classifyBuildErr(o.Msg) != cs.Err.Cls {
				res.mismatch("c19:earlier-fault", fmt.Sprintf("expected the %s error met before the banned directive; code: %s %s", cs.Err.Cls, o.Res, firstLine(o.Msg)), replay)
			}
		case cs.Occurs:
			if o.Res != "err" || classifyBuildErr(o.Msg) != "notallowed" {
				res.mismatch("c19:banned-not-rejected:"+strings.Join(cs.Banned, "+"), fmt.Sprintf("banned %v occurs in the project; code: %s %s", cs.Banned, o.Res, firstLine(o.Msg)), replay)
			} else if selftest {
				// nothing more
			} else if p.rel(o.File) != cs.Err.F || o.Line != p.lineOf(cs.Err.F, cs.Err.I) {
				res.mismatch("c19:location", fmt.Sprintf("not-allowed reported at %s:%d, the first banned directive is at %s:%d", p.rel(o.File), o.Line, cs.Err.F, p.lineOf(cs.Err.F, cs.Err.I)), replay)
			} else if tr := p.errTrace(o.Err); !eqStrs(tr, p.traceStrings(cs.Err.Trace)) {
				res.mismatch("c19:trace", fmt.Sprintf("include trace %v, expected %v", tr, p.traceStrings(cs.Err.Trace)), replay)
			}
		default:
			b0 := plain[cs.Proj]
			if o.Res != b0.Res || !bytes.Equal(o.JSON, b0.JSON) || firstLine(o.Msg) != firstLine(b0.Msg) {
				res.mismatch("c19:unrelated-ban-changes-result", fmt.Sprintf("banned %v does not occur, yet the result differs: %s %s vs %s %s", cs.Banned, o.Res, firstLine(o.Msg), b0.Res, firstLine(b0.Msg)), replay)
			}
		}
		return nil
	})
	if ferr != nil && ferr != errStop {
		res.Error = ferr.Error()
	}
	res.Nontrivial = len(distinct)
	res.Extra = map[string]any{"kinds_banned": len(kindsSeen)}
	return res
}
