package main

import (
	"encoding/json"
	"fmt"
	"os"
	"strings"

	"github.com/jsightapi/jsight-schema-core/fs"

	"github.com/jsightapi/jsight-api-core/core"
)

// c15-corpus <repo> <seed> <orders-per-file> [selftest]: the relation MC_C15 states on the model (OrderIrrelevant: same verdict,
// same entries with the same content, only the order inside sections and tag lists follows the text) evaluated on the
// repository's own accepted documents.  The top-level blocks are found with the real tree builder (every root directive
// with the lines up to the next root directive); documents with a root-level MACRO or PASTE are left out (a PASTE is a
// position, not a declaration).
func init() { subcmds["c15-corpus"] = c15Corpus }

func c15Corpus(args []string) *Result {
	res := &Result{}
	r := newRng(uint64(atoi(args[1])))
	perFile := atoi(args[2])
	selftest := len(args) > 3 && args[3] == "selftest"
	for _, f := range corpusFiles(args[0]) {
		raw, err := os.ReadFile(f)
		if err != nil || strings.Contains(string(raw), "INCLUDE") || len(raw) > 20000 {
			continue
		}
		text := strings.ReplaceAll(strings.ReplaceAll(string(raw), "\r\n", "\n"), "\r", "\n")
		base := buildText(text)
		if base.Res != "ok" {
			continue
		}
		var roots []*core.VerifNode
		func() {
			defer func() { _ = recover() }()
			c := core.NewJApiCore(fs.NewFile("root.jst", text))
			if c.VerifScanOnly() == nil {
				roots = c.VerifTree()
			}
		}()
		if len(roots) < 3 || roots[0].Kind != "JSIGHT" {
			continue
		}
		skip := false
		for _, n := range roots {
			if n.Kind == "MACRO" || n.Kind == "PASTE" {
				skip = true
			}
		}
		if skip {
			continue
		}
		lines := strings.Split(strings.TrimSuffix(text, "\n"), "\n")
		// block i = lines [start_i, start_{i+1}); the lines in front of the first root directive stay in front
		var blocks []string
		for i, n := range roots {
			end := len(lines)
			if i+1 < len(roots) {
				end = roots[i+1].Line - 1
			}
			blocks = append(blocks, strings.Join(lines[n.Line-1:end], "\n")+"\n")
		}
		head := strings.Join(lines[:roots[0].Line-1], "\n")
		if head != "" {
			head += "\n"
		}
		a, err1 := orderInsensitive(base.JSON)
		if err1 != nil {
			continue
		}
		for k := 0; k < perFile; k++ {
			perm := make([]int, len(blocks)-1)
			for i := range perm {
				perm[i] = i + 1
			}
			for i := len(perm) - 1; i > 0; i-- {
				j := r.intn(i + 1)
				perm[i], perm[j] = perm[j], perm[i]
			}
			var sb strings.Builder
			sb.WriteString(head)
			sb.WriteString(blocks[0])
			for _, p := range perm {
				sb.WriteString(blocks[p])
			}
			if selftest {
				sb.WriteString("TYPE @zzSelftest any\n")
			}
			o := buildText(sb.String())
			res.Cases++
			res.Nontrivial++
			replay := map[string]any{"kind": "c15-corpus", "corpus_file": strings.TrimPrefix(f, args[0]), "text": sb.String(), "base_text": text}
			switch {
			case o.Res != "ok":
				res.mismatch("c15:corpus-verdict", fmt.Sprintf("the document is accepted; with its top-level blocks in another order: %s (%s) at line %d", o.Res, firstLine(o.Msg), o.Line), replay)
			default:
				b, err2 := orderInsensitive(o.JSON)
				if err2 != nil {
					res.mismatch("c15:corpus-shape", err2.Error(), replay)
				} else if a != b && stripExamples(a) == stripExamples(b) {
					res.mismatch("c15:example-depends-on-block-order", "only the generated example strings of the schemas depend on the order of the blocks", replay)
				} else if a != b {
					var av, bv any
					_ = json.Unmarshal([]byte(a), &av)
					_ = json.Unmarshal([]byte(b), &bv)
					res.mismatch("c15:corpus-content-"+diffKey(firstDiff("catalog", av, bv)), "the catalog content depends on the order of the blocks: "+firstDiff("catalog", av, bv), replay)
				}
			}
			if len(res.Samples) < 3 && len(blocks) >= 5 {
				res.sample(map[string]any{"corpus_file": strings.TrimPrefix(f, args[0]), "blocks": len(blocks)})
			}
		}
	}
	return res
}
