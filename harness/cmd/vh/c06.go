package main

import (
	"crypto/sha1"
	"encoding/json"
	"fmt"
	"os"
	"os/exec"
)

func init() {
	subcmds["c06-docs"] = c06Docs
	subcmds["c06-procs"] = c06Procs
	subcmds["digest"] = digestCmd
}

// c06-docs <tlc-output with doc emissions>: every emitted document built 6 times in-process.
func c06Docs(args []string) *Result {
	res := &Result{}
	if err := loadPools(args[0]); err != nil {
		res.Error = err.Error()
		return res
	}
	err := forEachEmitted(args[0], "E", func(js string) error {
		var cs struct {
			Doc []Tok `json:"doc"`
		}
		if err := json.Unmarshal([]byte(js), &cs); err != nil {
			return err
		}
		text := "JSIGHT 0.3\n" + renderTokens(cs.Doc, false, canon).text
		src := projSrc{name: "macro-graph", text: text}
		res.Cases++
		res.Nontrivial++
		if sig, what := checkC06(src, 6); sig != "" {
			res.mismatch(sig, what, map[string]any{"kind": "c06", "text": text})
		}
		if len(res.Samples) < 2 && res.Cases%500 == 9 {
			res.sample(map[string]any{"text": text})
		}
		return nil
	})
	if err != nil {
		res.Error = err.Error()
	}
	return res
}

func digestOf(src projSrc) string {
	o := outcomeOf(src)
	return fmt.Sprintf("%s:%x", o.res, sha1.Sum([]byte(o.data)))
}

// digest <path>: prints the outcome digest of one project (used for fresh-process comparison)
func digestCmd(args []string) *Result {
	fmt.Println("DIGEST " + digestOf(projSrc{name: args[0], path: args[0]}))
	return &Result{}
}

// c06-procs <repo> <seed> <n>: n corpus projects, each built in two fresh processes and in this one.
func c06Procs(args []string) *Result {
	res := &Result{}
	files := corpusFiles(args[0])
	r := newRng(uint64(atoi(args[1])))
	n := atoi(args[2])
	self, _ := os.Executable()
	for i := 0; i < n && len(files) > 0; i++ {
		f := files[r.intn(len(files))]
		here := digestOf(projSrc{name: f, path: f})
		res.Cases++
		res.Nontrivial++
		for k := 0; k < 2; k++ {
			out, err := exec.Command(self, "digest", f).Output()
			got := ""
			for _, l := range splitLines(string(out)) {
				if len(l) > 7 && l[:7] == "DIGEST " {
					got = l[7:]
				}
			}
			if err != nil && got == "" {
				res.drift("fresh process failed on " + f + ": " + err.Error())
				break
			}
			if got != here {
				res.mismatch("c06:fresh-process", fmt.Sprintf("%s: a fresh process gives %s, this process %s", f, got, here), map[string]any{"kind": "c06-proc", "path": f})
				break
			}
		}
		if len(res.Samples) < 2 {
			res.sample(map[string]any{"file": f, "digest": here})
		}
	}
	return res
}

func splitLines(s string) []string {
	var out []string
	cur := ""
	for _, c := range s {
		if c == '\n' {
			out = append(out, cur)
			cur = ""
		} else {
			cur += string(c)
		}
	}
	if cur != "" {
		out = append(out, cur)
	}
	return out
}

func init() {
	subcmds["c06-history"] = c06History
}

// c06-history <seed> <n>: a history of builds in ONE process over a project whose included file and
// root file are rewritten between builds; every build must give what a fresh process gives for the
// files as they are on disk at that moment (nothing may depend on prior builds).
func c06History(args []string) *Result {
	res := &Result{}
	r := newRng(uint64(atoi(args[0])))
	n := atoi(args[1])
	base, err := os.MkdirTemp(scratchBase(), "vh-c06-")
	if err != nil {
		res.Error = err.Error()
		return res
	}
	defer os.RemoveAll(base)
	incs := []string{
		"TYPE @person\n{\n  \"name\": \"Tom\"\n}\n",
		"TYPE @person\n{\n  \"name\": \"Tom\",\n  \"age\": 5\n}\n",
		"TYPE @animal\n{\n  \"kind\": \"cat\"\n}\n",
		"TYPE @person any\nTYPE @person any\n",
		"",
	}
	roots := []string{
		"JSIGHT 0.3\nINCLUDE common.jst\nGET /p\n  200 @person\n",
		"JSIGHT 0.3\nINCLUDE common.jst\nGET /p\n  200 any\n",
	}
	self, _ := os.Executable()
	rootPath := base + "/root.jst"
	fresh := map[string]string{}
	for i := 0; i < n; i++ {
		ic, rc := incs[r.intn(len(incs))], roots[r.intn(len(roots))]
		if err := os.WriteFile(base+"/common.jst", []byte(ic), 0o644); err != nil {
			res.Error = err.Error()
			return res
		}
		_ = os.WriteFile(rootPath, []byte(rc), 0o644)
		key := ic + "\x00" + rc
		if _, ok := fresh[key]; !ok {
			out, _ := exec.Command(self, "digest", rootPath).Output()
			for _, l := range splitLines(string(out)) {
				if len(l) > 7 && l[:7] == "DIGEST " {
					fresh[key] = l[7:]
				}
			}
			if fresh[key] == "" {
				res.Error = "fresh process gave no digest"
				return res
			}
		}
		here := digestOf(projSrc{name: "history", path: rootPath})
		res.Cases++
		res.Nontrivial++
		if here != fresh[key] {
			res.mismatch("c06:depends-on-prior-builds", fmt.Sprintf("build %d of the history gives %s; a fresh process on the same files gives %s", i+1, here, fresh[key]),
				map[string]any{"kind": "c06-history", "seed": args[0], "step": i + 1, "include": ic, "root": rc})
			break
		}
	}
	res.sample(map[string]any{"history_length": n, "distinct_file_states": len(fresh)})
	return res
}
