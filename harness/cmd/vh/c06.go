package main

import (
	"crypto/sha1"
	"encoding/json"
	"fmt"
	"os"
	"os/exec"
	"strings"
	"sync"

	"github.com/jsightapi/jsight-schema-core/fs"

	"github.com/jsightapi/jsight-api-core/kit"
)

func init() {
	subcmds["c06-docs"] = c06Docs
	subcmds["c06-procs"] = c06Procs
	subcmds["digest"] = digestCmd
}

// c06-docs <tlc-output with doc emissions>: every emitted document built 6 times in-process.
func c06Docs(args []string) *Result {
	res := &Result{}
	if err := loadPools(args[0]); err != nil {
		res.Error = err.Error()
		return res
	}
	err := forEachEmitted(args[0], "E", func(js string) error {
		var cs struct {
			Doc []Tok `json:"doc"`
		}
		if err := json.Unmarshal([]byte(js), &cs); err != nil {
			return err
		}
		text := "JSIGHT 0.3\n" + renderTokens(cs.Doc, false, canon).text
		src := projSrc{name: "macro-graph", text: text}
		res.Cases++
		res.Nontrivial++
		if sig, what := checkC06(src, 6); sig != "" {
			res.mismatch(sig, what, map[string]any{"kind": "c06", "text": text})
		}
		if len(res.Samples) < 2 && res.Cases%500 == 9 {
			res.sample(map[string]any{"text": text})
		}
		return nil
	})
	if err != nil {
		res.Error = err.Error()
	}
	return res
}

func digestOf(src projSrc) string {
	o := outcomeOf(src)
	return fmt.Sprintf("%s:%x", o.res, sha1.Sum([]byte(o.data)))
}

// digest <path>: prints the outcome digest of one project (used for fresh-process comparison)
func digestCmd(args []string) *Result {
	fmt.Println("DIGEST " + digestOf(projSrc{name: args[0], path: args[0]}))
	return &Result{}
}

// c06-procs <repo> <seed> <n>: n corpus projects, each built in two fresh processes and in this one.
func c06Procs(args []string) *Result {
	res := &Result{}
	files := corpusFiles(args[0])
	r := newRng(uint64(atoi(args[1])))
	n := atoi(args[2])
	self, _ := os.Executable()
	for i := 0; i < n && len(files) > 0; i++ {
		f := files[r.intn(len(files))]
		here := digestOf(projSrc{name: f, path: f})
		res.Cases++
		res.Nontrivial++
		for k := 0; k < 2; k++ {
			out, err := exec.Command(self, "digest", f).Output()
			got := ""
			for _, l := range splitLines(string(out)) {
				if len(l) > 7 && l[:7] == "DIGEST " {
					got = l[7:]
				}
			}
			if err != nil && got == "" {
				res.drift("fresh process failed on " + f + ": " + err.Error())
				break
			}
			if got != here {
				res.mismatch("c06:fresh-process", fmt.Sprintf("%s: a fresh process gives %s, this process %s", f, got, here), map[string]any{"kind": "c06-proc", "path": f})
				break
			}
		}
		if len(res.Samples) < 2 {
			res.sample(map[string]any{"file": f, "digest": here})
		}
	}
	return res
}

func splitLines(s string) []string {
	var out []string
	cur := ""
	for _, c := range s {
		if c == '\n' {
			out = append(out, cur)
			cur = ""
		} else {
			cur += string(c)
		}
	}
	if cur != "" {
		out = append(out, cur)
	}
	return out
}

func init() {
	subcmds["c06-history"] = c06History
}

// c06-history <seed> <n>: a history of builds in ONE process over a project whose included file and
// root file are rewritten between builds; every build must give what a fresh process gives for the
// files as they are on disk at that moment (nothing may depend on prior builds).
func c06History(args []string) *Result {
	res := &Result{}
	r := newRng(uint64(atoi(args[0])))
	n := atoi(args[1])
	base, err := os.MkdirTemp(scratchBase(), "vh-c06-")
	if err != nil {
		res.Error = err.Error()
		return res
	}
	defer os.RemoveAll(base)
	incs := []string{
		"TYPE @person\n{\n  \"name\": \"Tom\"\n}\n",
		"TYPE @person\n{\n  \"name\": \"Tom\",\n  \"age\": 5\n}\n",
		"TYPE @animal\n{\n  \"kind\": \"cat\"\n}\n",
		"TYPE @person any\nTYPE @person any\n",
		"",
	}
	roots := []string{
		"JSIGHT 0.3\nINCLUDE common.jst\nGET /p\n  200 @person\n",
		"JSIGHT 0.3\nINCLUDE common.jst\nGET /p\n  200 any\n",
	}
	self, _ := os.Executable()
	rootPath := base + "/root.jst"
	fresh := map[string]string{}
	for i := 0; i < n; i++ {
		ic, rc := incs[r.intn(len(incs))], roots[r.intn(len(roots))]
		if err := os.WriteFile(base+"/common.jst", []byte(ic), 0o644); err != nil {
			res.Error = err.Error()
			return res
		}
		_ = os.WriteFile(rootPath, []byte(rc), 0o644)
		key := ic + "\x00" + rc
		if _, ok := fresh[key]; !ok {
			out, _ := exec.Command(self, "digest", rootPath).Output()
			for _, l := range splitLines(string(out)) {
				if len(l) > 7 && l[:7] == "DIGEST " {
					fresh[key] = l[7:]
				}
			}
			if fresh[key] == "" {
				res.Error = "fresh process gave no digest"
				return res
			}
		}
		here := digestOf(projSrc{name: "history", path: rootPath})
		res.Cases++
		res.Nontrivial++
		if here != fresh[key] {
			res.mismatch("c06:depends-on-prior-builds", fmt.Sprintf("build %d of the history gives %s; a fresh process on the same files gives %s", i+1, here, fresh[key]),
				map[string]any{"kind": "c06-history", "seed": args[0], "step": i + 1, "include": ic, "root": rc})
			break
		}
	}
	res.sample(map[string]any{"history_length": n, "distinct_file_states": len(fresh)})
	return res
}

// c06-rejected-conc <source> <goroutines>: every REJECTED project of the source is built alone and then by several goroutines at
// once (start barrier); each of the concurrent builds must report what the lone build reports: message, file, index, line, column
// and rendered include trace.  (Builds that run side by side - or that start goroutines of their own - must not race for
// "the" error.)
func init() { subcmds["c06-rejected-conc"] = c06RejectedConc }

func c06RejectedConc(args []string) *Result {
	res := &Result{}
	srcs, err := loadSources(args[0])
	if err != nil {
		res.Error = err.Error()
		return res
	}
	G := atoi(args[1])
	errOf := func(s projSrc) (out string) {
		defer func() {
			if r := recover(); r != nil {
				out = "panic: " + fmt.Sprint(r)
			}
		}()
		_, je := kit.NewJApiFromFile(fs.NewFile("root.jst", s.text))
		if je == nil {
			return ""
		}
		return fmt.Sprintf("%s|%s|%d|%d|%d|%s", je.Msg, je.File.Name(), je.Index, je.Line, je.Column, je.Error())
	}
	for _, s := range srcs {
		if s.path != "" {
			continue
		}
		alone := errOf(s)
		if alone == "" || strings.HasPrefix(alone, "panic") {
			continue
		}
		res.Cases++
		res.Nontrivial++
		got := make([]string, G)
		start := make(chan struct{})
		var wg sync.WaitGroup
		for g := 0; g < G; g++ {
			wg.Add(1)
			go func(g int) {
				defer wg.Done()
				<-start
				got[g] = errOf(s)
			}(g)
		}
		close(start)
		wg.Wait()
		for g := 0; g < G; g++ {
			if got[g] != alone {
				res.mismatch("c06:rejected-concurrent", fmt.Sprintf("%s: built alone: %.200s; one of %d builds of the same project running at once: %.200s", s.name, alone, G, got[g]),
					map[string]any{"kind": "c06-rejected-conc", "project": s.name, "text": s.text})
				break
			}
		}
		if len(res.Samples) < 2 && res.Cases%500 == 7 {
			res.sample(map[string]any{"project": s.name, "error": firstLine(alone)})
		}
	}
	return res
}
