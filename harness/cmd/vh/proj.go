package main

import (
	"bytes"
	"encoding/json"
	"fmt"
	"sort"
	"strings"
)

// ---- order-preserving JSON ---------------------------------------------------

type okv struct {
	K string
	V any
}
type oobj []okv

func (o oobj) get(k string) (any, bool) {
	for _, kv := range o {
		if kv.K == k {
			return kv.V, true
		}
	}
	return nil, false
}
func (o oobj) str(k string) string {
	if v, ok := o.get(k); ok {
		if s, ok := v.(string); ok {
			return s
		}
	}
	return ""
}
func (o oobj) obj(k string) oobj {
	if v, ok := o.get(k); ok {
		if s, ok := v.(oobj); ok {
			return s
		}
	}
	return nil
}
func (o oobj) arr(k string) []any {
	if v, ok := o.get(k); ok {
		if s, ok := v.([]any); ok {
			return s
		}
	}
	return nil
}

func parseOrdered(b []byte) (any, error) {
	dec := json.NewDecoder(bytes.NewReader(b))
	dec.UseNumber()
	v, err := parseValue(dec)
	if err != nil {
		return nil, err
	}
	if _, err := dec.Token(); err == nil {
		return nil, fmt.Errorf("trailing data after JSON value")
	}
	return v, nil
}

func parseValue(dec *json.Decoder) (any, error) {
	t, err := dec.Token()
	if err != nil {
		return nil, err
	}
	switch d := t.(type) {
	case json.Delim:
		switch d {
		case '{':
			var o oobj
			seen := map[string]struct{}{}
			for dec.More() {
				kt, err := dec.Token()
				if err != nil {
					return nil, err
				}
				k, ok := kt.(string)
				if !ok {
					return nil, fmt.Errorf("non-string key")
				}
				v, err := parseValue(dec)
				if err != nil {
					return nil, err
				}
				if _, dup := seen[k]; dup {
					return nil, fmt.Errorf("the key %q occurs twice in one object", k)
				}
				seen[k] = struct{}{}
				o = append(o, okv{k, v})
			}
			_, err := dec.Token()
			if o == nil {
				o = oobj{}
			}
			return o, err
		case '[':
			a := []any{}
			for dec.More() {
				v, err := parseValue(dec)
				if err != nil {
					return nil, err
				}
				a = append(a, v)
			}
			_, err := dec.Token()
			return a, err
		}
		return nil, fmt.Errorf("unexpected delimiter %v", d)
	default:
		return t, nil
	}
}

// ---- the catalog skeleton (spec/Catalog.tla Skeleton) -------------------------------

type M = map[string]any

func strSet(a []any) []any {
	ss := make([]string, 0, len(a))
	for _, v := range a {
		ss = append(ss, fmt.Sprint(v))
	}
	sort.Strings(ss)
	out := make([]any, 0, len(ss))
	for _, s := range ss {
		out = append(out, s)
	}
	return out
}

func schemaSkel(s oobj) M {
	m := M{"notation": s.str("notation"), "root": "", "rtype": "", "uses": []any{}, "uenums": []any{}, "props": []any{}}
	if s.str("notation") == "jsight" {
		c := s.obj("content")
		m["root"] = c.str("tokenType")
		m["rtype"] = c.str("type")
		m["uses"] = strSet(s.arr("usedUserTypes"))
		m["uenums"] = strSet(s.arr("usedUserEnums"))
		props := []any{}
		for _, ch := range c.arr("children") {
			co, _ := ch.(oobj)
			props = append(props, M{"key": co.str("key"), "tt": co.str("tokenType"), "ty": co.str("type")})
		}
		m["props"] = props
	}
	return m
}

func optSchema(holder oobj) []any {
	if holder == nil {
		return []any{}
	}
	return []any{schemaSkel(holder.obj("schema"))}
}

func optBody(b oobj) []any {
	if b == nil {
		return []any{}
	}
	return []any{M{"format": b.str("format"), "schema": schemaSkel(b.obj("schema"))}}
}

// projectCatalog reduces the real catalog JSON to the skeleton the specification predicts.
// It fails when the JSON does not have the JDoc Exchange shape it relies on.
func projectCatalog(js []byte) (M, error) {
	v, err := parseOrdered(js)
	if err != nil {
		return nil, err
	}
	top, ok := v.(oobj)
	if !ok {
		return nil, fmt.Errorf("catalog is not a JSON object")
	}
	sk := M{"jsight": top.str("jsight")}
	if inf := top.obj("info"); inf != nil {
		sk["info"] = []any{M{"title": inf.str("title"), "version": inf.str("version"), "description": inf.str("description")}}
	} else {
		sk["info"] = []any{}
	}
	servers := []any{}
	for _, kv := range top.obj("servers") {
		s, _ := kv.V.(oobj)
		servers = append(servers, M{"name": kv.K, "annotation": s.str("annotation"), "baseUrl": s.str("baseUrl")})
	}
	sk["servers"] = servers
	tags := []any{}
	for _, kv := range top.obj("tags") {
		t, _ := kv.V.(oobj)
		if t.str("name") != kv.K {
			return nil, fmt.Errorf("tag key %q differs from its name %q", kv.K, t.str("name"))
		}
		m := M{"name": kv.K, "title": t.str("title"), "description": t.str("description"), "http": []any{}, "rpc": []any{}}
		for _, g := range t.arr("interactionGroups") {
			go_, _ := g.(oobj)
			ids := go_.arr("interactions")
			if ids == nil {
				ids = []any{}
			}
			switch go_.str("protocol") {
			case "http":
				m["http"] = ids
			case "json-rpc-2.0":
				m["rpc"] = ids
			default:
				return nil, fmt.Errorf("unknown protocol %q in tag %s", go_.str("protocol"), kv.K)
			}
		}
		tags = append(tags, m)
	}
	sk["tags"] = tags
	types := []any{}
	for _, kv := range top.obj("userTypes") {
		t, _ := kv.V.(oobj)
		types = append(types, M{"name": kv.K, "annotation": t.str("annotation"), "schema": schemaSkel(t.obj("schema"))})
	}
	sk["types"] = types
	enums := []any{}
	for _, kv := range top.obj("userEnums") {
		t, _ := kv.V.(oobj)
		enums = append(enums, M{"name": kv.K, "annotation": t.str("annotation")})
	}
	sk["enums"] = enums
	inters := []any{}
	for _, kv := range top.obj("interactions") {
		x, _ := kv.V.(oobj)
		if x.str("id") != kv.K {
			return nil, fmt.Errorf("interaction key %q differs from its id %q", kv.K, x.str("id"))
		}
		tg := x.arr("tags")
		if tg == nil {
			tg = []any{}
		}
		m := M{"id": kv.K, "proto": x.str("protocol"), "path": x.str("path"), "tags": tg,
			"annotation": x.str("annotation"), "description": x.str("description"),
			"pathVars": []any{}, "query": []any{}, "request": []any{}, "responses": []any{}, "params": []any{}, "result": []any{}}
		if x.str("protocol") == "http" {
			m["method"] = x.str("httpMethod")
			if pv := x.obj("pathVariables"); pv != nil {
				keys := []any{}
				for _, ch := range pv.obj("schema").obj("content").arr("children") {
					co, _ := ch.(oobj)
					keys = append(keys, co.str("key"))
				}
				m["pathVars"] = keys
			}
			if q := x.obj("query"); q != nil {
				m["query"] = []any{M{"format": q.str("format"), "example": q.str("example"), "schema": schemaSkel(q.obj("schema"))}}
			}
			if r := x.obj("request"); r != nil {
				m["request"] = []any{M{"headers": optSchema(r.obj("headers")), "body": optBody(r.obj("body"))}}
			}
			resps := []any{}
			for _, rv := range x.arr("responses") {
				r, _ := rv.(oobj)
				resps = append(resps, M{"code": r.str("code"), "annotation": r.str("annotation"),
					"headers": optSchema(r.obj("headers")), "body": optBody(r.obj("body"))})
			}
			m["responses"] = resps
		} else {
			m["method"] = x.str("method")
			m["params"] = optSchema(x.obj("params"))
			m["result"] = optSchema(x.obj("result"))
		}
		inters = append(inters, m)
	}
	sk["inters"] = inters
	return sk, nil
}

// canonJSON renders a value with sorted object keys (sets inside the skeleton are sorted lists).
func canonJSON(v any) string {
	b, _ := json.Marshal(v) // encoding/json sorts map keys
	return string(b)
}

// normalizeSpecSkeleton sorts the set-valued fields of the specification's skeleton.
func normalizeSpecSkeleton(v any) any {
	switch x := v.(type) {
	case map[string]any:
		for k, e := range x {
			if k == "uses" || k == "uenums" {
				if a, ok := e.([]any); ok {
					x[k] = strSet(a)
					continue
				}
			}
			x[k] = normalizeSpecSkeleton(e)
		}
		return x
	case []any:
		for i := range x {
			x[i] = normalizeSpecSkeleton(x[i])
		}
		return x
	case string:
		// "\xNN" in a text of the specification stands for the raw byte
		if strings.Contains(x, `\x`) {
			return rawText(x)
		}
	}
	return v
}

// firstDiff describes the first difference between two skeletons.
func firstDiff(path string, a, b any) string {
	switch x := a.(type) {
	case map[string]any:
		y, ok := b.(map[string]any)
		if !ok {
			return fmt.Sprintf("%s: spec %v code %v", path, a, b)
		}
		keys := make([]string, 0, len(x))
		for k := range x {
			keys = append(keys, k)
		}
		sort.Strings(keys)
		for _, k := range keys {
			if d := firstDiff(path+"."+k, x[k], y[k]); d != "" {
				return d
			}
		}
		for k := range y {
			if _, ok := x[k]; !ok {
				return fmt.Sprintf("%s.%s: only in code", path, k)
			}
		}
		return ""
	case []any:
		y, ok := b.([]any)
		if !ok {
			return fmt.Sprintf("%s: spec %v code %v", path, canonJSON(a), canonJSON(b))
		}
		for i := range x {
			if i >= len(y) {
				return fmt.Sprintf("%s[%d]: missing in code (spec %s)", path, i, canonJSON(x[i]))
			}
			if d := firstDiff(fmt.Sprintf("%s[%d]", path, i), x[i], y[i]); d != "" {
				return d
			}
		}
		if len(y) > len(x) {
			return fmt.Sprintf("%s[%d]: only in code (%s)", path, len(x), canonJSON(y[len(x)]))
		}
		return ""
	}
	if canonJSON(a) != canonJSON(b) {
		return fmt.Sprintf("%s: spec %s code %s", path, canonJSON(a), canonJSON(b))
	}
	return ""
}
