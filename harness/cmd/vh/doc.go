package main

import (
	"encoding/json"
	"fmt"
	"os"
	"strings"

	"github.com/jsightapi/jsight-api-core/jerr"
)

func init() {
	subcmds["doc-replay"] = docReplay
}

// expectation of spec/Catalog.tla Build(toks)
type buildExp struct {
	Res   string `json:"res"`
	Cls   string `json:"cls"`
	Tok   int    `json:"tok"`
	Where string `json:"where"`
	Skel  []any  `json:"skel"`
}

type docCase struct {
	Blocks []string `json:"blocks"`
	Doc    []Tok    `json:"doc"`
	X      buildExp `json:"x"`
}

// classifyBuildErr maps any error of the build to the specification's classes.
func classifyBuildErr(msg string) string {
	c := classifyIncErr(msg)
	if !strings.HasPrefix(c, "other:") {
		return c
	}
	first := firstLine(msg)
	has := func(s string) bool { return strings.Contains(first, s) }
	switch {
	case has("File cannot contain byte zero"):
		return "lexical" // the line of the specification's token "X" (a NUL byte): refused by the scanner
	case has("is already defined for the directive"):
		return "paramdup"
	case has(jerr.DirectiveJSIGHTShouldBeTheFirst):
		return "jsightfirst"
	case has(jerr.DirectiveJSIGHTGottaBeOnlyOneTime):
		return "jsightonce"
	case has(jerr.UnsupportedVersion):
		return "unsupported"
	case has(jerr.DirectiveINFOGottaBeOnlyOneTime):
		return "infoonce"
	case has(jerr.DirectiveBaseURLAlreadyDefined):
		return "baseurlonce"
	case has(jerr.NotUniqueDirective):
		return "notunique"
	case has(jerr.MethodIsAlreadyDefinedInResource):
		return "dupinteraction"
	case has("the path ") && has("has already been defined"):
		return "duppath"
	case has("the OperationId"):
		return "dupopid"
	case has("the ambiguous paths are not allowed"):
		return "similar"
	case has(jerr.PathParameterIsDuplicatedInThePath):
		return "dupparam"
	case has(jerr.PathEmptyParameter):
		return "emptyparam"
	case has(jerr.InfoIsEmpty):
		return "infoempty"
	case has(jerr.ApartFromTheOpeningParenthesis):
		return "descparen"
	case has("the description cannot be empty"):
		return "descempty"
	case has(jerr.BodyIsEmpty):
		return "bodyempty"
	case has(jerr.UndefinedRequestBodyForResource):
		return "reqnobody"
	case has("undefined response body"):
		return "respnobody"
	case has("Type ") && has("not found"):
		return "typenotfound"
	case has("Enum ") && has("not found"):
		return "enumnotfound"
	case has(jerr.TagNotFound):
		return "tagnotfound"
	case has(jerr.ParametersAreForbiddenForTheDirective):
		return "paramsforbidden"
	case has("cannot be declared simultaneously"):
		return "typeandnotation"
	case has(jerr.ProtocolNotFound):
		return "noprotocol"
	case has(jerr.ProtocolParameterErr):
		return "badprotocol"
	case has("cannot be within the same URL directive"):
		return "mixedurl"
	case has(jerr.BodyMustBeObject):
		return "headersnotobject"
	case has("Has unused parameters"):
		return "unusedpathparam"
	case has("has already been defined earlier"):
		return "pathredefined"
	case has(jerr.PathNotFound):
		return "pathnotfound"
	case has(jerr.IncorrectPath):
		return "incorrectpath"
	case has(jerr.IncorrectRequest):
		return "incorrectrequest"
	case has(jerr.HTTPResourceNotFound):
		return "resourcenotfound"
	case has("the body of the Path directive must be an object"):
		return "pathnotobject"
	case has(jerr.ParentNotFound):
		return "noparent"
	}
	return c
}

// expectedLine: the line the specification's error token (and "where") corresponds to.
func expectedLine(rd rendered, toks []Tok, tok int, where string) int {
	if tok < 1 || tok > len(rd.tokLine) {
		return -1
	}
	l := rd.tokLine[tok-1]
	if where == "body" && tok-1 < len(rd.bodyLine) && rd.bodyLine[tok-1] > 0 {
		return rd.bodyLine[tok-1]
	}
	if where == "body" || where == "body1" {
		l++
		if where == "body1" {
			l++
		}
		if toks[tok-1].E {
			l++
		}
	}
	return l
}

// checkBuild compares one real build with the specification's expectation.
// sigPrefix names the property for signatures.
func checkBuild(res *Result, sigPrefix string, toks []Tok, rd rendered, exp *buildExp, o *buildObs, replay any) bool {
	switch {
	case o.Res == "panic":
		res.mismatch(sigPrefix+":panic", "build panics: "+o.Msg, replay)
	case o.Res == "tojson-err":
		res.mismatch(sigPrefix+":tojson-error", "build succeeds but ToJson fails: "+o.Msg, replay)
	case exp.Res == "ok":
		if o.Res != "ok" {
			res.mismatch(sigPrefix+":spec-ok-code-"+short(classifyBuildErr(o.Msg)), fmt.Sprintf("spec: accepted; code: %s at line %d", firstLine(o.Msg), o.Line), replay)
			return false
		}
		if bad := checkC05(o.JSON); len(bad) > 0 {
			res.mismatch("c05:"+short(bad[0]), "cross-reference invariant broken: "+strings.Join(bad, "; "), replay)
			return false
		}
		if len(exp.Skel) == 0 {
			return true // only the verdict is predicted for this case
		}
		sk, err := projectCatalog(o.JSON)
		if err != nil {
			res.mismatch(sigPrefix+":catalog-shape", "catalog JSON does not have the JDoc Exchange shape: "+err.Error(), replay)
			return false
		}
		var want any = map[string]any{}
		if len(exp.Skel) > 0 {
			// work on a copy: the expectation is reused for other renderings of the same document
			var cp any
			_ = json.Unmarshal([]byte(canonJSON(exp.Skel[0])), &cp)
			want = normalizeSpecSkeleton(cp)
		}
		var got any
		_ = json.Unmarshal([]byte(canonJSON(sk)), &got)
		for _, k := range skelIgnoreKeys {
			stripKey(want, k)
			stripKey(got, k)
		}
		d := firstDiff("catalog", want, got)
		if d != "" && strings.HasSuffix(diffKey(d), ".uenums") && strings.Contains(d, "missing in code") {
			// recorded deviation (known_findings.json): usedUserEnums is never populated by the code;
			// report it under its own signature and compare everything else
			res.mismatch(sigPrefix+":usedUserEnums-never-populated", "a schema that uses an ENUM rule does not list it in usedUserEnums: "+d, replay)
			stripKey(want, "uenums")
			stripKey(got, "uenums")
			d = firstDiff("catalog", want, got)
		}
		if d != "" {
			res.mismatch(sigPrefix+":catalog-"+diffKey(d), "catalog differs from the model: "+d, replay)
			return false
		}
		return true
	default:
		if o.Res != "err" {
			// whatever the real code accepts has to be a closed catalog, whether the specification accepts the document or not
			if bad := checkC05(o.JSON); len(bad) > 0 {
				res.mismatch("c05:"+short(bad[0]), "cross-reference invariant broken (in a catalog the specification does not even accept): "+strings.Join(bad, "; "), replay)
			}
			res.mismatch(sigPrefix+":spec-"+exp.Cls+"-code-ok", fmt.Sprintf("spec: rejected (%s at token %d); code accepts", exp.Cls, exp.Tok), replay)
			return false
		}
		got := classifyBuildErr(o.Msg)
		if got != exp.Cls {
			res.mismatch(sigPrefix+":class-"+exp.Cls+"-"+short(got), fmt.Sprintf("spec: %s at token %d; code: %s (%s) at line %d", exp.Cls, exp.Tok, got, firstLine(o.Msg), o.Line), replay)
			return false
		}
		if want := expectedLine(rd, toks, exp.Tok, exp.Where); want > 0 && o.Line != want {
			res.mismatch(sigPrefix+":line-"+exp.Cls, fmt.Sprintf("%s reported on line %d, the offending directive (token %d, %s) is on line %d", exp.Cls, o.Line, exp.Tok, exp.Where, want), replay)
			return false
		}
		return true
	}
	return false
}

// diffKey keeps the structural path of a difference (indices removed) for signatures.
func diffKey(d string) string {
	p := d
	if i := strings.IndexByte(p, ':'); i > 0 {
		p = p[:i]
	}
	var sb strings.Builder
	in := false
	for _, c := range p {
		switch {
		case c == '[':
			in = true
		case c == ']':
			in = false
		case !in:
			sb.WriteRune(c)
		}
	}
	return sb.String()
}

// doc-replay <tlc-output> [selftest]
func docReplay(args []string) *Result {
	res := &Result{}
	if err := loadPools(args[0]); err != nil {
		res.Error = err.Error()
		return res
	}
	selftest := len(args) > 1 && args[1] == "selftest"
	distinct := map[string]struct{}{}
	nLayouts := 0
	fmt.Sscan(os.Getenv("VH_LAYOUTS"), &nLayouts)
	if ig := os.Getenv("VH_IGNORE"); ig != "" {
		skelIgnoreKeys = strings.Split(ig, ",") // skeleton fields the calling check does not own
	}
	seed := 1
	fmt.Sscan(os.Getenv("VERIF_SEED"), &seed)
	lrng := newRng(uint64(seed))
	err := forEachEmitted(args[0], "E", func(js string) error {
		var cs docCase
		if err := json.Unmarshal([]byte(js), &cs); err != nil {
			return fmt.Errorf("bad emission: %v", err)
		}
		res.Cases++
		if selftest {
			if cs.X.Res == "ok" {
				cs.X.Skel = []any{map[string]any{"jsight": "0.3", "corrupted": true}}
			} else {
				cs.X.Res = "ok"
			}
		}
		rd := renderTokens(cs.Doc, false, canon)
		o := buildText(rd.text)
		res.count("spec-" + cs.X.Res + "-" + cs.X.Cls)
		if len(cs.Blocks) > 0 {
			distinct[strings.Join(cs.Blocks, ",")] = struct{}{}
		}
		okCanon := checkBuild(res, "doc", cs.Doc, rd, &cs.X, &o, map[string]any{"kind": "doc", "case": cs, "text": rd.text})
		// the same document in other layouts the language defines as equivalent (C08 / C02)
		for l := 0; l < nLayouts && !selftest; l++ {
			lo := randomLayout(lrng)
			rd2 := renderTokens(cs.Doc, false, lo)
			o2 := buildText(rd2.text)
			res.count("layouts")
			if !okCanon {
				// the canonical layout already deviates from the specification (reported above, C02's business); the layouts
				// must still agree with one another: compare with the canonical layout directly
				if o.Res == "panic" || o2.Res == "panic" {
					break
				}
				if o.Res != o2.Res || (o.Res == "ok" && string(o.JSON) != string(o2.JSON)) || (o.Res == "err" && classifyBuildErr(o.Msg) != classifyBuildErr(o2.Msg)) {
					res.mismatch("layout:differs-from-canonical", fmt.Sprintf("canonical layout: %s %s; this layout: %s %s", o.Res, firstLine(o.Msg), o2.Res, firstLine(o2.Msg)),
						map[string]any{"kind": "doc-layout", "case": cs, "text": rd2.text, "canonical": rd.text})
					break
				}
				continue
			}
			if !checkBuild(res, "layout", cs.Doc, rd2, &cs.X, &o2, map[string]any{"kind": "doc-layout", "case": cs, "text": rd2.text}) {
				break
			}
			if o.Res == "ok" && o2.Res == "ok" && string(o.JSON) != string(o2.JSON) {
				sig, what := "layout:catalog-bytes", "the catalog changes with the layout (same skeleton, different bytes)"
				if collapseEnumNotes(o.JSON) == collapseEnumNotes(o2.JSON) {
					// recorded finding: the notes of ENUM values are copied with their raw line breaks and indentation
					sig, what = "layout:enum-note-raw-text", "the note of an ENUM value keeps the line break and the indentation of the text: the catalog changes with the line-ending convention / the indentation (everything else is equal)"
				}
				res.mismatch(sig, what, map[string]any{"kind": "doc-layout", "case": cs, "text": rd2.text, "canonical": rd.text})
				break
			}
		}
		if len(res.Samples) < 3 && len(cs.Blocks) >= 2 && cs.X.Res == "ok" {
			res.sample(map[string]any{"blocks": cs.Blocks, "text": rd.text, "verdict": cs.X.Res})
		}
		if selftest && res.Cases >= 300 {
			return errStop
		}
		return nil
	})
	if err != nil && err != errStop {
		res.Error = err.Error()
	}
	res.Nontrivial = len(distinct)
	return res
}

// skelIgnoreKeys: skeleton fields a check does not own (set by the sub-command).
var skelIgnoreKeys []string

func stripKey(v any, key string) {
	switch x := v.(type) {
	case map[string]any:
		delete(x, key)
		for _, e := range x {
			stripKey(e, key)
		}
	case []any:
		for _, e := range x {
			stripKey(e, key)
		}
	}
}

// collapseEnumNotes renders a catalog with every "note" below userEnums collapsed like an annotation (runs of white space = one blank).
func collapseEnumNotes(js []byte) string {
	var v map[string]any
	if json.Unmarshal(js, &v) != nil {
		return string(js)
	}
	var walk func(x any)
	walk = func(x any) {
		switch t := x.(type) {
		case map[string]any:
			if n, ok := t["note"].(string); ok {
				t["note"] = strings.Join(strings.Fields(n), " ")
			}
			for _, e := range t {
				walk(e)
			}
		case []any:
			for _, e := range t {
				walk(e)
			}
		}
	}
	walk(v["userEnums"])
	b, _ := json.Marshal(v)
	return string(b)
}
