package main

import (
	"fmt"
	"regexp"
	"strings"
)

var pathParamRe = regexp.MustCompile(`\{([^{}/]*)\}`)

// pathParamsOf lists the {parameters} of a path text, in order.
func pathParamsOf(path string) []string {
	out := []string{}
	for _, seg := range strings.Split(strings.Trim(path, "/"), "/") {
		if len(seg) >= 2 && seg[0] == '{' && seg[len(seg)-1] == '}' {
			out = append(out, seg[1:len(seg)-1])
		}
	}
	return out
}

// collectUsed walks a schema object of the real JSON and returns usedUserTypes / usedUserEnums.
func schemaUsed(s oobj) (types, enums []string) {
	for _, v := range s.arr("usedUserTypes") {
		types = append(types, fmt.Sprint(v))
	}
	for _, v := range s.arr("usedUserEnums") {
		enums = append(enums, fmt.Sprint(v))
	}
	return
}

// checkC05 evaluates the cross-reference invariants of property C05 directly on the real
// catalog JSON; it returns the list of violated clauses.
func checkC05(js []byte) []string {
	var bad []string
	v, err := parseOrdered(js)
	if err != nil {
		return []string{"not JSON: " + err.Error()}
	}
	top, ok := v.(oobj)
	if !ok {
		return []string{"catalog is not an object"}
	}
	if top.str("jsight") != "0.3" {
		bad = append(bad, fmt.Sprintf("jsight version %q", top.str("jsight")))
	}
	types := map[string]bool{}
	for _, kv := range top.obj("userTypes") {
		types[kv.K] = true
	}
	enums := map[string]bool{}
	for _, kv := range top.obj("userEnums") {
		enums[kv.K] = true
	}
	checkSchema := func(where string, s oobj) {
		if s == nil {
			return
		}
		tt, ee := schemaUsed(s)
		for _, t := range tt {
			if !types[t] {
				bad = append(bad, fmt.Sprintf("%s uses undefined type %s", where, t))
			}
		}
		for _, e := range ee {
			if !enums[e] {
				bad = append(bad, fmt.Sprintf("%s uses undefined enum %s", where, e))
			}
		}
	}
	for _, kv := range top.obj("userTypes") {
		t, _ := kv.V.(oobj)
		checkSchema("type "+kv.K, t.obj("schema"))
	}
	tags := top.obj("tags")
	tagList := func(tag oobj, proto string) []string {
		var out []string
		for _, g := range tag.arr("interactionGroups") {
			gg, _ := g.(oobj)
			if gg.str("protocol") == proto {
				for _, id := range gg.arr("interactions") {
					out = append(out, fmt.Sprint(id))
				}
			}
		}
		return out
	}
	inters := top.obj("interactions")
	interTags := map[string][]string{}
	interProto := map[string]string{}
	for _, kv := range inters {
		x, _ := kv.V.(oobj)
		proto := x.str("protocol")
		interProto[kv.K] = proto
		method := x.str("httpMethod")
		if proto != "http" {
			method = x.str("method")
		}
		if x.str("id") != kv.K || kv.K != proto+" "+method+" "+x.str("path") {
			bad = append(bad, fmt.Sprintf("interaction key %q, id %q, fields %q %q %q", kv.K, x.str("id"), proto, method, x.str("path")))
		}
		for _, t := range x.arr("tags") {
			tn := fmt.Sprint(t)
			interTags[kv.K] = append(interTags[kv.K], tn)
			tg := tags.obj(tn)
			if tg == nil {
				bad = append(bad, fmt.Sprintf("interaction %q names tag %s which does not exist", kv.K, tn))
				continue
			}
			n := 0
			for _, id := range tagList(tg, proto) {
				if id == kv.K {
					n++
				}
			}
			if n != 1 {
				bad = append(bad, fmt.Sprintf("tag %s lists interaction %q %d times under %s", tn, kv.K, n, proto))
			}
		}
		if proto == "http" {
			want := pathParamsOf(x.str("path"))
			got := []string{}
			if pv := x.obj("pathVariables"); pv != nil {
				for _, ch := range pv.obj("schema").obj("content").arr("children") {
					co, _ := ch.(oobj)
					got = append(got, co.str("key"))
				}
				checkSchema("pathVariables of "+kv.K, pv.obj("schema"))
			}
			if strings.Join(sortedCopy(want), ",") != strings.Join(sortedCopy(got), ",") {
				bad = append(bad, fmt.Sprintf("interaction %q: pathVariables %v, path parameters %v", kv.K, got, want))
			}
			for _, rv := range x.arr("responses") {
				r, _ := rv.(oobj)
				code := r.str("code")
				if len(code) != 3 || code[0] < '1' || code[0] > '5' || code[1] < '0' || code[1] > '9' || code[2] < '0' || code[2] > '9' {
					bad = append(bad, fmt.Sprintf("interaction %q: response code %q", kv.K, code))
				}
				if r.obj("body") == nil {
					bad = append(bad, fmt.Sprintf("interaction %q: response %s has no body", kv.K, code))
				} else {
					checkSchema("response "+code+" of "+kv.K, r.obj("body").obj("schema"))
				}
				if h := r.obj("headers"); h != nil {
					checkSchema("response headers of "+kv.K, h.obj("schema"))
				}
			}
			if q := x.obj("query"); q != nil {
				checkSchema("query of "+kv.K, q.obj("schema"))
			}
			if rq := x.obj("request"); rq != nil {
				if b := rq.obj("body"); b != nil {
					checkSchema("request body of "+kv.K, b.obj("schema"))
				}
				if h := rq.obj("headers"); h != nil {
					checkSchema("request headers of "+kv.K, h.obj("schema"))
				}
			}
		} else {
			if p := x.obj("params"); p != nil {
				checkSchema("params of "+kv.K, p.obj("schema"))
			}
			if p := x.obj("result"); p != nil {
				checkSchema("result of "+kv.K, p.obj("schema"))
			}
		}
	}
	for _, kv := range tags {
		tg, _ := kv.V.(oobj)
		for _, proto := range []string{"http", "json-rpc-2.0"} {
			for _, id := range tagList(tg, proto) {
				if interProto[id] != proto {
					bad = append(bad, fmt.Sprintf("tag %s lists %q under %s, the interaction has protocol %q", kv.K, id, proto, interProto[id]))
					continue
				}
				found := false
				for _, t := range interTags[id] {
					if t == kv.K {
						found = true
					}
				}
				if !found {
					bad = append(bad, fmt.Sprintf("tag %s lists interaction %q which does not name the tag", kv.K, id))
				}
			}
		}
	}
	return bad
}

func sortedCopy(a []string) []string {
	b := append([]string{}, a...)
	for i := 1; i < len(b); i++ {
		for j := i; j > 0 && b[j] < b[j-1]; j-- {
			b[j], b[j-1] = b[j-1], b[j]
		}
	}
	return b
}
