package main

import (
	"encoding/json"
	"fmt"
	"os"
	"sort"
	"strings"

	"github.com/jsightapi/jsight-schema-core/fs"

	"github.com/jsightapi/jsight-api-core/directive"
	"github.com/jsightapi/jsight-api-core/scanner"
)

func init() {
	subcmds["scan-replay"] = scanReplay
}

type lex struct {
	T string `json:"t"`
	B int    `json:"b"`
	E int    `json:"e"`
}

// scanCase is Scanner!Summary: the specification's run to end of file on a tape.
type scanCase struct {
	Tape []int  `json:"tape"`
	Res  string `json:"res"` // eof | err | oracle | PANIC
	Ei   int    `json:"ei"`
	Ec   string `json:"ec"`
	Out  []lex  `json:"out"`
}

var lexName = map[scanner.LexemeType]string{scanner.Keyword: "K", scanner.Parameter: "P",
	scanner.Annotation: "A", scanner.Schema: "S", scanner.Text: "T", scanner.Enum: "E",
	scanner.ContextExplicitOpening: "CO", scanner.ContextExplicitClosing: "CC", scanner.Json: "J"}

type scanObs struct {
	Out []lex
	Res string // eof | err | PANIC
	Ei  int
	Msg string
}

// scanReal runs the real scanner to the end of the input.
func scanReal(b []byte) (o scanObs) {
	defer func() {
		if r := recover(); r != nil {
			o.Res = "PANIC"
			o.Msg = fmt.Sprint(r)
		}
	}()
	s := scanner.NewJApiScanner(fs.NewFile("x.jst", b))
	for n := 0; ; n++ {
		l, je := s.Next()
		if je != nil {
			o.Res, o.Ei, o.Msg = "err", int(je.Index), je.Msg
			return o
		}
		if l == nil {
			o.Res = "eof"
			return o
		}
		o.Out = append(o.Out, lex{lexName[l.Type()], int(l.Begin()), int(l.End())})
		if n > 4*len(b)+16 {
			o.Res, o.Msg = "PANIC", "scanner does not terminate (more lexemes than bytes)"
			return o
		}
	}
}

func tapeBytes(t []int) []byte {
	b := make([]byte, len(t))
	for i, v := range t {
		b[i] = byte(v)
	}
	return b
}

func eqLex(a, b []lex) bool {
	if len(a) != len(b) {
		return false
	}
	for i := range a {
		if a[i] != b[i] {
			return false
		}
	}
	return true
}

// compareScan: the real scanner against the specification's summary.
func compareScan(cs *scanCase, o *scanObs) (ok bool, what string) {
	if cs.Res == "oracle" {
		// the extent of a body is decided by jsight-schema-core: compare the prefix only
		if o.Res == "PANIC" {
			return false, "panic: " + o.Msg
		}
		if len(o.Out) < len(cs.Out) || !eqLex(o.Out[:len(cs.Out)], cs.Out) {
			return false, fmt.Sprintf("lexeme prefix differs: spec %v code %v", cs.Out, o.Out)
		}
		return true, ""
	}
	if o.Res != cs.Res {
		return false, fmt.Sprintf("outcome: spec %s(%s@%d) code %s(%q@%d)", cs.Res, cs.Ec, cs.Ei, o.Res, o.Msg, o.Ei)
	}
	if cs.Res == "err" && o.Ei != cs.Ei {
		return false, fmt.Sprintf("error index: spec %d (%s) code %d (%q)", cs.Ei, cs.Ec, o.Ei, o.Msg)
	}
	if !eqLexModuloBodyTail(o.Out, cs.Out, tapeBytes(cs.Tape)) {
		return false, fmt.Sprintf("lexemes: spec %v code %v", cs.Out, o.Out)
	}
	return true, ""
}

// scan-replay <tlc-output> [selftest] : every emitted summary against the real Next();
// keywords delivered must be known to directive.NewDirectiveType; the "L" line (the
// specification's keyword table) must equal the code's enumeration.
func scanReplay(args []string) *Result {
	res := &Result{}
	selftest := len(args) > 1 && args[1] == "selftest"
	distinct := map[string]struct{}{}
	kwSeen := map[string]struct{}{}
	err := forEachEmitted(args[0], "E", func(js string) error {
		var cs scanCase
		if err := json.Unmarshal([]byte(js), &cs); err != nil {
			return fmt.Errorf("bad emission %q: %v", js, err)
		}
		if selftest {
			if cs.Res == "err" {
				cs.Ei++
			} else {
				cs.Out = append(cs.Out, lex{"K", 0, 0})
			}
		}
		b := tapeBytes(cs.Tape)
		o := scanReal(b)
		res.Cases++
		res.count("spec-" + cs.Res)
		if ok, what := compareScan(&cs, &o); !ok {
			sig := "scan:" + short(what)
			if !selftest && behindBody(&cs, &o) {
				// everything the two disagree about lies behind the last byte of a schema / enum body: there the
				// dependency's Len() keeps reading (its own comment grammar) - recorded finding, own signature
				sig = "scan:behind-a-body:" + short(what)
			}
			res.mismatch(sig, what, map[string]any{"kind": "scan", "case": cs, "text": string(b)})
		}
		for _, l := range o.Out {
			if l.T == "K" && l.B >= 0 && l.E < len(b) && l.B <= l.E {
				w := string(b[l.B : l.E+1])
				kwSeen[w] = struct{}{}
				if _, err := directive.NewDirectiveType(w); err != nil {
					res.mismatch("scan:keyword-unknown-to-directive-table", "scanner accepts keyword "+w+" unknown to directive.NewDirectiveType", map[string]any{"kind": "scan", "case": cs, "text": string(b)})
				}
			}
		}
		key := cs.Res + "/" + cs.Ec + "/" + lexShape(cs.Out)
		if os.Getenv("VH_DISTINCT") == "len" {
			key += fmt.Sprint("/", len(cs.Tape), "/", cs.Ei)
		}
		if len(cs.Out) > 0 || cs.Res == "err" {
			distinct[key] = struct{}{}
		}
		if res.Cases%40000 == 1 {
			res.sample(map[string]any{"text": string(b), "spec": cs.Res, "lexemes": cs.Out, "err_index": cs.Ei})
		}
		if selftest && res.Cases >= 3000 {
			return errStop
		}
		return nil
	})
	if err != nil && err != errStop {
		res.Error = err.Error()
		return res
	}
	res.Nontrivial = len(distinct)
	if selftest {
		return res
	}
	// the keyword tables
	_ = forEachEmitted(args[0], "L", func(js string) error {
		var l struct {
			Kinds []string `json:"kinds"`
		}
		if err := json.Unmarshal([]byte(js), &l); err != nil {
			return err
		}
		spec := map[string]bool{}
		for _, k := range l.Kinds {
			spec[k] = true
		}
		code := map[string]bool{}
		for i := 0; i <= int(directive.OperationID); i++ {
			s := directive.Enumeration(i).String()
			if directive.Enumeration(i) == directive.HTTPResponseCode {
				continue
			}
			code[s] = true
			if !spec[s] {
				res.mismatch("scan:table-extra:"+s, "directive table has "+s+" which is not a JSight API 0.3 keyword", map[string]any{"kind": "table", "kw": s})
			}
			// reachable: the scanner accepts it at a directive start
			o := scanReal([]byte(s + "\n"))
			if len(o.Out) == 0 || o.Out[0].T != "K" || o.Out[0].E != len(s)-1 {
				res.mismatch("scan:table-unreachable:"+s, "directive "+s+" of the table is not accepted by the scanner", map[string]any{"kind": "table", "kw": s})
			}
		}
		for k := range spec {
			if !code[k] {
				res.mismatch("scan:table-missing:"+k, "keyword "+k+" of the language is missing from the directive table", map[string]any{"kind": "table", "kw": k})
			}
		}
		res.count("tables-compared")
		return nil
	})
	if strings.Contains(args[0], "C13") || len(kwSeen) > 0 {
		ks := make([]string, 0, len(kwSeen))
		for k := range kwSeen {
			ks = append(ks, k)
		}
		sort.Strings(ks)
		res.Extra = map[string]any{"keywords_accepted": len(ks)}
	}
	return res
}

func lexShape(ll []lex) string {
	var sb strings.Builder
	for _, l := range ll {
		sb.WriteString(l.T)
		sb.WriteByte(' ')
	}
	return sb.String()
}

// short keeps the structural part of a message for use as a signature.
func short(s string) string {
	if i := strings.IndexByte(s, ':'); i > 0 {
		return s[:i]
	}
	return s
}

// eqLexModuloBodyTail: equal lexemes, except that the extent of a schema / enum body (decided by
// jsight-schema-core Len()) may also cover blank lines and '#' comments that follow the body.
func eqLexModuloBodyTail(code, spec []lex, tape []byte) bool {
	if len(code) != len(spec) {
		return false
	}
	for i := range code {
		if code[i] == spec[i] {
			continue
		}
		c, s := code[i], spec[i]
		if c.T != s.T || (c.T != "S" && c.T != "E") || c.B != s.B || c.E < s.E || c.E >= len(tape) {
			return false
		}
		if !onlyTrivia(tape[s.E+1 : c.E+1]) {
			return false
		}
	}
	return true
}

// behindBody: the specification and the code agree on every lexeme in front of a body lexeme of the specification and
// on where that body begins; whatever differs (extent of the body, later lexemes, the error) lies behind the body's
// last byte as the specification sees it.
func behindBody(cs *scanCase, o *scanObs) bool {
	i := 0
	for i < len(cs.Out) && i < len(o.Out) && cs.Out[i] == o.Out[i] {
		i++
	}
	// the last body lexeme of the specification at or before the first difference
	bi := -1
	for k := 0; k < len(cs.Out) && k <= i; k++ {
		if cs.Out[k].T == "S" || cs.Out[k].T == "E" {
			bi = k
		}
	}
	if bi < 0 {
		return false
	}
	end := cs.Out[bi].E
	if bi < len(o.Out) && (o.Out[bi].T != cs.Out[bi].T || o.Out[bi].B != cs.Out[bi].B || o.Out[bi].E < end) {
		return false
	}
	depPanic := o.Res == "err" && o.Ei == cs.Out[bi].B && strings.Contains(o.Msg, "runtime error")
	if bi >= len(o.Out) && !(o.Res == "err" && o.Ei > end) && !depPanic {
		return false
	}
	if cs.Res == "err" && cs.Ei <= end {
		return false
	}
	if o.Res == "err" && o.Ei <= end {
		// (a panic of the dependency while it reads behind the body is recovered by Len() and reported at the body start)
		return depPanic
	}
	return true
}

// onlyTrivia: blanks, line ends, '#' line comments and '###' block comments only.
func onlyTrivia(t []byte) bool {
	for i := 0; i < len(t); {
		switch {
		case t[i] == ' ' || t[i] == '\t' || t[i] == '\n' || t[i] == '\r':
			i++
		case i+2 < len(t) && t[i] == '#' && t[i+1] == '#' && t[i+2] == '#':
			j := i + 3
			for j+2 < len(t) && !(t[j] == '#' && t[j+1] == '#' && t[j+2] == '#') {
				j++
			}
			if j+2 >= len(t) {
				return false
			}
			i = j + 3
		case t[i] == '#':
			for i < len(t) && t[i] != '\n' && t[i] != '\r' {
				i++
			}
		default:
			return false
		}
	}
	return true
}

func init() {
	subcmds["scan-record"] = scanRecord
}

type bodyRec struct {
	S   int  `json:"s"`
	L   int  `json:"l"`
	OkS bool `json:"okS"`
	OkE bool `json:"okE"`
}

// scan-record <repo> <out.ndjson> <step> <mutations> <seed> [corrupt]: real scanner runs on whole files, logged for Trace_Scan.tla.
func scanRecord(args []string) *Result {
	res := &Result{}
	step, nmut, seed := atoi(args[2]), atoi(args[3]), atoi(args[4])
	corrupt := len(args) > 5 && args[5] == "corrupt"
	r := newRng(uint64(seed))
	w := newNDJSON(args[1])
	defer w.close()
	emit := func(name string, b []byte) {
		if len(b) > 6000 {
			return
		}
		o := scanReal(b)
		tape := make([]int, len(b))
		for i, c := range b {
			tape[i] = int(c)
		}
		bodies := []bodyRec{}
		for _, l := range o.Out {
			if l.T == "S" || l.T == "E" {
				bodies = append(bodies, bodyRec{S: l.B, L: l.E - l.B + 1, OkS: l.T == "S", OkE: l.T == "E"})
			}
		}
		out := o.Out
		if out == nil {
			out = []lex{}
		}
		if corrupt && res.Cases == 2 && len(out) > 0 {
			out[len(out)-1].E++
		}
		w.write(map[string]any{"file": name, "tape": tape, "bodies": bodies, "res": o.Res, "ei": o.Ei, "out": out})
		res.Cases++
		res.count("real-" + o.Res)
		if len(o.Out) > 3 {
			res.Nontrivial++
		}
		if o.Res == "PANIC" {
			res.mismatch("scan:panic", name+": the scanner panics: "+o.Msg, map[string]any{"kind": "scan-file", "file": name, "text": string(b)})
		}
		if len(res.Samples) < 2 && len(o.Out) > 10 {
			res.sample(map[string]any{"file": name, "bytes": len(b), "lexemes": len(o.Out), "outcome": o.Res})
		}
	}
	for i, f := range corpusFiles(args[0]) {
		if i%step != 0 {
			continue
		}
		b, err := os.ReadFile(f)
		if err != nil {
			continue
		}
		name := strings.TrimPrefix(f, args[0])
		emit(name, b)
		for m := 0; m < nmut; m++ {
			t := string(b)
			for k := 0; k <= r.intn(2); k++ {
				t = mutateText(r, t)
			}
			emit(fmt.Sprintf("%s#mut%d", name, m), []byte(t))
		}
	}
	res.Extra = map[string]any{"logged": w.n}
	return res
}
