package main

import (
	"encoding/json"
	"fmt"
	"os"
	"os/exec"
	"path/filepath"
	"sort"
	"strings"

	"github.com/jsightapi/jsight-api-core/core"
)

func init() {
	subcmds["replay"] = replayCmd
}

// replay <file>: re-execute one recorded case on the real code (built from /repo's current tree) and report
// whether it still contradicts the recorded expectation.  The file is the "replay" object of a violation.
func replayCmd(args []string) *Result {
	res := &Result{}
	b, err := os.ReadFile(args[0])
	if err != nil {
		res.Error = err.Error()
		return res
	}
	var r map[string]json.RawMessage
	if err := json.Unmarshal(b, &r); err != nil {
		res.Error = err.Error()
		return res
	}
	var kind string
	_ = json.Unmarshal(r["kind"], &kind)
	str := func(k string) string {
		var s string
		_ = json.Unmarshal(r[k], &s)
		return s
	}
	res.Cases = 1
	say := func(format string, a ...any) { fmt.Printf("REPLAY "+format+"\n", a...) }
	switch kind {
	case "c11":
		var cs c11Case
		if err := json.Unmarshal(r["case"], &cs); err != nil {
			res.Error = err.Error()
			return res
		}
		if e := str("eol"); e != "" {
			c11EOL = e
		}
		ok, what, _ := c11Check(&cs)
		say("document (line breaks %q):\n%s", c11EOL, renderTokens(cs.H, true, canon).text)
		if !ok {
			res.mismatch("c11:"+what, what, json.RawMessage(b))
		}
	case "scan", "c01-text":
		var cs scanCase
		if kind == "scan" {
			_ = json.Unmarshal(r["case"], &cs)
		} else {
			var ints []int
			_ = json.Unmarshal(r["bytes"], &ints)
			cs.Tape = ints
		}
		text := tapeBytes(cs.Tape)
		o := scanReal(text)
		say("text %q -> scanner %s lexemes %v error index %d %q", string(text), o.Res, o.Out, o.Ei, o.Msg)
		out, pm, _ := totalBuild("root.jst", text)
		say("whole build: %s %s", out, pm)
		if kind == "scan" {
			if ok, what := compareScan(&cs, &o); !ok {
				res.mismatch("scan:"+short(what), what, json.RawMessage(b))
			}
		} else if out == "panic" {
			res.mismatch("c01:panic", pm, json.RawMessage(b))
		}
	case "c11-doc":
		o := observeTree(str("text"))
		say("document:\n%s", str("text"))
		say("scanned tree [%s]\nafter the MACRO/PASTE pass [%s] (%s)", o.ScanShape, o.ExpShape, o.ExpRes)
		if o.ExpRes == "ok" && o.ExpShape != o.ScanShape {
			res.mismatch("c11:paste-pass-renests", "the MACRO/PASTE pass re-nests the directives", json.RawMessage(b))
		}
	case "c06-hist":
		// a history of builds sharing option values: re-run it here and compare the last step with a fresh process
		var rec struct {
			History []struct {
				Include string   `json:"include"`
				Root    string   `json:"root"`
				Options []string `json:"options"`
			} `json:"history"`
			Pool map[string][]string `json:"pool"`
		}
		_ = json.Unmarshal(b, &rec)
		dir, _ := os.MkdirTemp(scratchBase(), "vh-replay-")
		defer os.RemoveAll(dir)
		pool := map[string]core.Option{}
		for nm, kinds := range rec.Pool {
			bans, err := c06Bans(kinds)
			if err != nil {
				res.Error = err.Error()
				return res
			}
			pool[nm] = core.WithBannedDirectives(bans...)
		}
		rootPath := filepath.Join(dir, "root.jst")
		var last buildObs
		var lastBans []string
		for i, st := range rec.History {
			_ = os.WriteFile(filepath.Join(dir, "common.jst"), []byte(st.Include), 0o644)
			_ = os.WriteFile(rootPath, []byte(st.Root), 0o644)
			var opts []core.Option
			set := map[string]struct{}{}
			for _, o := range st.Options {
				opts = append(opts, pool[o])
				for _, k := range rec.Pool[o] {
					set[k] = struct{}{}
				}
			}
			lastBans = lastBans[:0]
			for k := range set {
				lastBans = append(lastBans, k)
			}
			sort.Strings(lastBans)
			last = buildWith(rootPath, opts...)
			say("step %d options %v: %s %s", i+1, st.Options, last.Res, firstLine(last.Msg))
		}
		self, _ := os.Executable()
		out, _ := exec.Command(self, "digest-bans", rootPath, strings.Join(lastBans, ",")).Output()
		fresh := ""
		for _, l := range splitLines(string(out)) {
			if strings.HasPrefix(l, "DIGEST ") {
				fresh = l[7:]
			}
		}
		say("fresh process, fresh options %v: %s", lastBans, clip(fresh, 120))
		if here := c06ObsDigest(last, dir); fresh != "" && here != fresh {
			res.mismatch("c06:depends-on-prior-builds", "the last step of the history differs from a fresh process: "+clip(here, 120), json.RawMessage(b))
		}
	case "c07", "c09", "c19", "c03-include", "c06-history":
		// multi-file projects: rendered files are part of the record
		dir, _ := os.MkdirTemp(scratchBase(), "vh-replay-")
		defer os.RemoveAll(dir)
		files := map[string]string{}
		_ = json.Unmarshal(r["files"], &files)
		for _, k := range []string{"root", "inc", "include"} {
			if s := str(k); s != "" {
				name := map[string]string{"root": "root.jst", "inc": "inc.jst", "include": "common.jst"}[k]
				files[name] = s
			}
		}
		if len(files) == 0 {
			res.Error = "the record carries no rendered files (recorded by an older harness)"
			return res
		}
		_ = os.MkdirAll(filepath.Join(dir, "sub"), 0o755)
		for n, t := range files {
			_ = os.WriteFile(filepath.Join(dir, n), []byte(t), 0o644)
			say("file %s:\n%s", n, t)
		}
		o := buildProject(filepath.Join(dir, "root.jst"))
		say("build: %s %s (%s:%d)", o.Res, firstLine(o.Msg), strings.TrimPrefix(o.File, dir+"/"), o.Line)
		if o.Err != nil {
			say("rendered error:\n%s", strings.ReplaceAll(o.Err.Error(), dir+"/", ""))
		}
		var want struct {
			Res string `json:"res"`
			Err struct {
				Cls string `json:"cls"`
			} `json:"err"`
		}
		_ = json.Unmarshal(r["case"], &want)
		if want.Res == "err" && (o.Res != "err" || classifyBuildErr(o.Msg) != want.Err.Cls) && kind == "c07" {
			// the scan phase expectation: compare on the scan phase only is not possible here; report the difference
			res.mismatch(kind+":class", fmt.Sprintf("expected %s, build gives %s %s", want.Err.Cls, o.Res, firstLine(o.Msg)), json.RawMessage(b))
		}
		if o.Res == "panic" {
			res.mismatch(kind+":panic", o.Msg, json.RawMessage(b))
		}
	case "sweep":
		// accepted-project sweeps: the check of the property that recorded the case, with the same signatures
		src := projSrc{name: str("project"), text: str("text"), path: str("path")}
		if src.text != "" {
			src.path = ""
		}
		say("project %s", src.name)
		prop := os.Getenv("VH_PROP")
		if prop == "C06" {
			if sig, what := checkC06(src, 6); sig != "" {
				res.mismatch(sig, what, json.RawMessage(b))
			}
			break
		}
		j, ok, msg := src.build()
		say("build: ok=%v %s", ok, firstLine(msg))
		if !ok {
			if strings.HasPrefix(msg, "panic") {
				res.mismatch("sweep:panic", msg, json.RawMessage(b))
			}
			break
		}
		var sig, what string
		switch prop {
		case "C17":
			sig, what = checkC17(&j)
		default:
			probeSrc = &src
			sig, what = checkC04(&j)
		}
		if sig != "" {
			res.mismatch(sig, what, json.RawMessage(b))
		}
	default:
		// single-file documents: the rendered text and (when present) the expectation of the specification
		text := str("text")
		if text == "" {
			text = str("doc")
		}
		if text == "" {
			text = str("explicit")
		}
		if text == "" {
			res.Error = "the record carries no rendered text for kind " + kind
			return res
		}
		o := buildText(text)
		say("document:\n%s", text)
		say("build: %s %s line %d", o.Res, firstLine(o.Msg), o.Line)
		var cs struct {
			X buildExp `json:"x"`
		}
		_ = json.Unmarshal(r["case"], &cs)
		switch {
		case o.Res == "panic" || o.Res == "tojson-err":
			res.mismatch(kind+":"+o.Res, o.Msg, json.RawMessage(b))
		case cs.X.Res == "ok" && o.Res != "ok":
			res.mismatch(kind+":spec-ok-code-err", firstLine(o.Msg), json.RawMessage(b))
		case cs.X.Res == "err" && (o.Res != "err" || classifyBuildErr(o.Msg) != cs.X.Cls):
			res.mismatch(kind+":class", fmt.Sprintf("specification: %s; code: %s %s", cs.X.Cls, o.Res, firstLine(o.Msg)), json.RawMessage(b))
		case cs.X.Res == "ok" && len(cs.X.Skel) > 0:
			rd := rendered{text: text}
			checkBuild(res, kind, nil, rd, &cs.X, &o, json.RawMessage(b))
		}
	}
	return res
}
