package main

import (
	"bytes"
	"encoding/json"
	"fmt"
	"os"
	"strings"
)

func init() {
	subcmds["c08-closure"] = c08Closure
	subcmds["c08-corpus"] = c08Corpus
}

// c08-closure <tlc-output> [selftest]: implicit form vs explicit closure through the real build.
func c08Closure(args []string) *Result {
	res := &Result{}
	if err := loadPools(args[0]); err != nil {
		res.Error = err.Error()
		return res
	}
	selftest := len(args) > 1 && args[1] == "selftest"
	err := forEachEmitted(args[0], "E", func(js string) error {
		var cs struct {
			Blocks   []string `json:"blocks"`
			Doc      []Tok    `json:"doc"`
			Closures [][]Tok  `json:"closures"`
			X        buildExp `json:"x"`
		}
		if err := json.Unmarshal([]byte(js), &cs); err != nil {
			return err
		}
		a := buildText(renderTokens(cs.Doc, false, canon).text)
		var rb rendered
		nExpl := 0
		for ci, closure := range cs.Closures {
			res.Cases++
			if selftest {
				closure = closure[:len(closure)-1]
			}
			rb = renderTokens(closure, false, canon)
			b := buildText(rb.text)
			nExpl = 0
			for _, t := range closure {
				if t.E {
					nExpl++
				}
			}
			if nExpl > 0 {
				res.Nontrivial++
			}
			if a.Res == "ok" {
				res.count("implicit-accepted")
			}
			if ci == 0 {
				res.count("all-explicit")
			} else {
				res.count("one-explicit")
			}
			replay := map[string]any{"kind": "c08-closure", "blocks": cs.Blocks, "implicit": renderTokens(cs.Doc, false, canon).text, "explicit": rb.text}
			switch {
			case a.Res == "panic" || b.Res == "panic":
				res.drift("panic: " + a.Msg + b.Msg)
			case a.Res != b.Res:
				res.mismatch("c08:closure-verdict", fmt.Sprintf("implicit form: %s (%s); explicit form: %s (%s) line %d", a.Res, firstLine(a.Msg), b.Res, firstLine(b.Msg), b.Line), replay)
			case a.Res == "ok" && !bytes.Equal(a.JSON, b.JSON):
				res.mismatch("c08:closure-catalog", "the explicit '( )' form gives a different catalog than the implicit form", replay)
			case a.Res == "err" && classifyBuildErr(a.Msg) != classifyBuildErr(b.Msg):
				res.mismatch("c08:closure-class", fmt.Sprintf("implicit: %s; explicit: %s", firstLine(a.Msg), firstLine(b.Msg)), replay)
			}
		}
		if len(res.Samples) < 2 && nExpl > 2 {
			res.sample(map[string]any{"explicit": rb.text})
		}
		return nil
	})
	if err != nil {
		res.Error = err.Error()
	}
	return res
}

// text-level rewrites of whole files that the language defines as insignificant
func rewrites(text string) map[string]string {
	out := map[string]string{}
	if strings.Contains(text, "\r") {
		return out
	}
	out["crlf"] = strings.ReplaceAll(text, "\n", "\r\n")
	out["cr"] = strings.ReplaceAll(text, "\n", "\r")
	lines := strings.Split(text, "\n")
	ind := make([]string, len(lines))
	for i, l := range lines {
		if l == "" {
			ind[i] = l
		} else {
			ind[i] = "   " + l
		}
	}
	out["indent"] = strings.Join(ind, "\n")
	return out
}

// normaliseNL maps every line-ending convention inside JSON string values to \n (descriptions keep their line breaks).
func normaliseNL(js []byte) []byte {
	s := string(js)
	s = strings.ReplaceAll(s, `\r\n`, `\n`)
	s = strings.ReplaceAll(s, `\r`, `\n`)
	return []byte(s)
}

// c08-corpus <repo> [step]: every single-file corpus document rewritten with CRLF, CR and a uniform indentation.
func c08Corpus(args []string) *Result {
	res := &Result{}
	step := 1
	if len(args) > 1 {
		step = atoi(args[1])
	}
	for i, f := range corpusFiles(args[0]) {
		if i%step != 0 {
			continue
		}
		b, err := os.ReadFile(f)
		if err != nil || bytes.Contains(b, []byte("INCLUDE")) {
			continue
		}
		base := buildText(string(b))
		if base.Res == "panic" {
			continue
		}
		res.Cases++
		for name, t := range rewrites(string(b)) {
			o := buildText(t)
			replay := map[string]any{"kind": "c08-corpus", "file": f, "rewrite": name}
			res.count(name + "-" + o.Res)
			switch {
			case o.Res == "panic":
				res.drift(f + " " + name + ": panic " + o.Msg)
			case o.Res != base.Res:
				res.mismatch("c08:"+name+"-verdict", fmt.Sprintf("%s: original %s (%s); %s form %s (%s) line %d", strings.TrimPrefix(f, args[0]), base.Res, firstLine(base.Msg), name, o.Res, firstLine(o.Msg), o.Line), replay)
			case o.Res == "ok" && !bytes.Equal(normaliseNL(o.JSON), normaliseNL(base.JSON)):
				var av, bv any
				_ = json.Unmarshal(normaliseNL(base.JSON), &av)
				_ = json.Unmarshal(normaliseNL(o.JSON), &bv)
				if name == "indent" {
					// multi-line notes inside schema bodies contain their own indentation
					collapseNotes(av)
					collapseNotes(bv)
					if firstDiff("catalog", av, bv) == "" {
						break
					}
				}
				res.mismatch("c08:"+name+"-catalog", fmt.Sprintf("%s: the %s form gives a different catalog: %s", strings.TrimPrefix(f, args[0]), name, firstDiff("catalog", av, bv)), replay)
			case o.Res == "err" && layoutClass(o.Msg) != layoutClass(base.Msg):
				res.mismatch("c08:"+name+"-class", fmt.Sprintf("%s: original %q; %s form %q", strings.TrimPrefix(f, args[0]), firstLine(base.Msg), name, firstLine(o.Msg)), replay)
			case o.Res == "err" && o.Line != base.Line && base.Line != 0:
				res.mismatch("c08:"+name+"-line", fmt.Sprintf("%s: error on line %d, in the %s form on line %d", strings.TrimPrefix(f, args[0]), base.Line, name, o.Line), replay)
			}
		}
		if base.Res == "ok" {
			res.Nontrivial++
		}
		if len(res.Samples) < 2 && base.Res == "ok" {
			res.sample(map[string]any{"file": strings.TrimPrefix(f, args[0]), "rewrites": []string{"crlf", "cr", "indent"}})
		}
	}
	return res
}

// layoutClass: the error class for comparisons across layouts: the specification's class, and for errors
// worded by jsight-schema-core (which quote the offending character) one class per kind of message.
func layoutClass(msg string) string {
	c := classifyBuildErr(msg)
	if !strings.HasPrefix(c, "other:") {
		return c
	}
	m := strings.NewReplacer(`\r`, `\n`, "\r", "\n").Replace(firstLine(msg))
	if strings.HasPrefix(m, "Invalid character") || strings.HasPrefix(m, "invalid character") {
		return "other:invalid-character"
	}
	return "other:" + m
}

func collapseNotes(v any) {
	switch x := v.(type) {
	case map[string]any:
		for k, e := range x {
			if s, ok := e.(string); ok && (k == "note" || k == "annotation" || k == "description") {
				x[k] = strings.Join(strings.Fields(s), " ")
				continue
			}
			collapseNotes(e)
		}
	case []any:
		for _, e := range x {
			collapseNotes(e)
		}
	}
}
