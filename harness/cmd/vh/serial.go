package main

import (
	"bytes"
	"encoding/json"
	"fmt"
	"os"
	"strings"

	"github.com/jsightapi/jsight-schema-core/fs"

	"github.com/jsightapi/jsight-api-core/kit"
)

func init() {
	subcmds["serial-replay"] = serialReplay
}

// lazyDocs: small documents that between them exercise every lazy path of serialisation.
var lazyDocs = map[string]string{
	"regex":     "JSIGHT 0.3\nTYPE @r regex\n/[a-z]{5}-[0-9]{3}/\nGET /a\n  Request regex\n  /[A-Z]{7}/\n  200 regex\n  /[0-9]{8}/\n  404 @r\n",
	"allof":     "JSIGHT 0.3\nTYPE @base\n{\n  \"id\": 1\n}\nTYPE @mid\n{ // {allOf: \"@base\"}\n  \"name\": \"n\"\n}\nTYPE @top\n{ // {allOf: [\"@mid\"]}\n  \"x\": true\n}\nGET /a\n  200 @top\nPOST /a\n  Request @mid\n  201 [@top]\n",
	"or":        "JSIGHT 0.3\nTYPE @a\n{\"a\": 1}\nTYPE @b\n{\"b\": \"s\"}\nTYPE @u\n@a | @b\nGET /u\n  200\n  {\n    \"v\": @u,\n    \"w\": 1 // {or: [\"integer\", \"string\"]}\n  }\n",
	"pathenum":  "JSIGHT 0.3\nENUM @color\n[\n  \"red\", // the red\n  \"blue\"\n]\nURL /cats/{id}/toys/{toy}\n  Path\n  {\n    \"id\": 1, // cat id\n    \"toy\": \"ball\"\n  }\n  GET\n    Query \"c=red\"\n    {\n      \"c\": \"red\" // {enum: @color}\n    }\n    200 any\nGET /dogs/{name}\n  200 any\n",
	"resporder": "JSIGHT 0.3\nTAG @t // tagged\nGET /a // first\n  Tags @t\n  404 any\n    Headers\n    {\"X-Err\": \"e\"}\n  200\n  {\"ok\": true}\n  201 empty\nDELETE /a\n  500 any\n  204 empty\n",
	"macro":     "JSIGHT 0.3\nMACRO @errs\n(\n  404 any\n  500 regex\n  /err-[0-9]+/\n)\nURL /m\n  GET\n    200 any\n    PASTE @errs\n  PUT\n    Request\n      Headers\n      {\"H\": \"v\"}\n      Body any\n    PASTE @errs\n    200 any\n",
	"rpc":       "JSIGHT 0.3\nINFO\n  Title \"RPC api\"\n  Version 2\nURL /rpc\n  Protocol json-rpc-2.0\n  Method sum // adds\n    Params\n    [1, 2]\n    Result\n    3\n  Method ping\n",
}

type accessor func(j *kit.JApi) ([]byte, string)

func wrapBytes(f func() ([]byte, error)) ([]byte, string) {
	var b []byte
	var es string
	func() {
		defer func() {
			if r := recover(); r != nil {
				es = "panic: " + fmt.Sprint(r)
			}
		}()
		var err error
		b, err = f()
		if err != nil {
			es = "error: " + err.Error()
		}
	}()
	return b, es
}

var accessors = map[string]accessor{
	"ToJson":              func(j *kit.JApi) ([]byte, string) { return wrapBytes(j.ToJson) },
	"ToJsonIndent":        func(j *kit.JApi) ([]byte, string) { return wrapBytes(j.ToJsonIndent) },
	"ToOpenAPIJson":       func(j *kit.JApi) ([]byte, string) { return wrapBytes(j.ToOpenAPIJson) },
	"ToOpenAPIJsonIndent": func(j *kit.JApi) ([]byte, string) { return wrapBytes(j.ToOpenAPIJsonIndent) },
	"Title":               func(j *kit.JApi) ([]byte, string) { return []byte(j.Title()), "" },
}

// project source: either a text (single file) or a root path
type projSrc struct {
	name string
	text string
	path string
}

func (p projSrc) build() (j kit.JApi, ok bool, msg string) {
	defer func() {
		if r := recover(); r != nil {
			ok, msg = false, "panic: "+fmt.Sprint(r)
		}
	}()
	if p.path != "" {
		jj, je := kit.NewJapi(p.path)
		if je != nil {
			return jj, false, je.Msg
		}
		return jj, true, ""
	}
	jj, je := kit.NewJApiFromFile(fs.NewFile("root.jst", p.text))
	if je != nil {
		return jj, false, je.Msg
	}
	return jj, true, ""
}

// depmapDocs reproduce the recorded finding C06-dependency-map-order: jsight-schema-core ranges over Go maps of type
// names (TypesList) while it checks and compiles user types, so which of several faults is reported, and which generated
// regex example a schema gets, changes from build to build.
var depmapDocs = map[string]string{
	"regex-example": "JSIGHT 0.3\nTYPE @r regex\n/[a-c]{3}x/\nTYPE @a\n{\"p\": @r}\nTYPE @b\n{\"q\": @r}\nGET /x\n  200\n  {\"p\": @r}\n",
	"fault-site":    "JSIGHT 0.3\nTYPE @s\n{\"b\": @typo | @l}\nTYPE @l\n{\n  \"s\": @s // {optional: true}\n}\n",
}

// sources: "docs" (the lazy documents), "corpus:<repo>[:step]" (accepted corpus files), "model:<tlc-output>" (MC_C02 documents)
func loadSources(spec string) ([]projSrc, error) {
	var out []projSrc
	switch {
	case spec == "depmap":
		for k, v := range depmapDocs {
			out = append(out, projSrc{name: "depmap:" + k, text: v})
		}
	case spec == "docs":
		for k, v := range lazyDocs {
			out = append(out, projSrc{name: "doc:" + k, text: v})
		}
	case strings.HasPrefix(spec, "corpus:"):
		parts := strings.Split(spec, ":")
		step := 1
		if len(parts) > 2 {
			step = atoi(parts[2])
		}
		for i, f := range corpusFiles(parts[1]) {
			if i%step == 0 {
				out = append(out, projSrc{name: strings.TrimPrefix(f, parts[1]), path: f})
			}
		}
	case strings.HasPrefix(spec, "model:"), strings.HasPrefix(spec, "modelall:"):
		// model: the documents the specification accepts; modelall: rejected ones as well (their error must be stable, C06)
		all := strings.HasPrefix(spec, "modelall:")
		spec = spec[strings.Index(spec, ":")+1:]
		spec = "model:" + spec
		if err := loadPools(spec[6:]); err != nil {
			return nil, err
		}
		nModel := 0
		err := forEachEmitted(spec[6:], "E", func(js string) error {
			var cs docCase
			if err := json.Unmarshal([]byte(js), &cs); err != nil {
				return err
			}
			nModel++
			step := 1
			fmt.Sscan(os.Getenv("VH_SRC_STEP"), &step)
			if step > 1 && nModel%step != 0 {
				return nil
			}
			if cs.X.Res == "ok" || all {
				lo := canon
				if os.Getenv("VH_WIDE_ANN") != "" {
					// annotations with runs of white space (the catalog holds them collapsed): every second document with /* */
					lo = layout{nl: "\n", wideAnn: true, mlAnn: nModel%2 == 0}
				}
				out = append(out, projSrc{name: "model:" + strings.Join(cs.Blocks, ","), text: renderTokens(cs.Doc, false, lo).text})
			}
			return nil
		})
		if err != nil {
			return nil, err
		}
	case strings.HasPrefix(spec, "toks:"):
		// any TLC output whose emissions carry a token list "doc" (MC_C10sites, MC_C10, MC_C03 ...): every document, the build decides
		if err := loadPools(spec[5:]); err != nil {
			return nil, err
		}
		seen := map[string]struct{}{}
		err := forEachEmitted(spec[5:], "E", func(js string) error {
			var cs struct {
				Doc []Tok `json:"doc"`
			}
			if err := json.Unmarshal([]byte(js), &cs); err != nil || len(cs.Doc) == 0 {
				return err
			}
			text := renderTokens(cs.Doc, false, canon).text
			if cs.Doc[0].K != "JSIGHT" {
				text = "JSIGHT 0.3\n" + text
			}
			if _, dup := seen[text]; !dup {
				seen[text] = struct{}{}
				out = append(out, projSrc{name: fmt.Sprintf("toks:%d", len(out)+1), text: text})
			}
			return nil
		})
		if err != nil {
			return nil, err
		}
	case strings.HasPrefix(spec, "types:"):
		// the type graphs of MC_C01types at every use site
		nTypes, stepT := 0, 1
		fmt.Sscan(os.Getenv("VH_SRC_STEP"), &stepT)
		err := forEachEmitted(spec[6:], "E", func(js string) error {
			nTypes++
			if stepT > 1 && nTypes%stepT != 0 {
				return nil
			}
			var cs struct {
				G    []typeShape `json:"g"`
				Site string      `json:"site"`
			}
			if err := json.Unmarshal([]byte(js), &cs); err != nil {
				return err
			}
			for _, sh := range cs.G {
				if sh.K == "keyref" {
					// (a key shortcut of a union that mentions itself kills the process - recorded finding of C01;
					// these sources are built in-process)
					return nil
				}
			}
			out = append(out, projSrc{name: fmt.Sprintf("types:%d", len(out)+1), text: renderTypeGraph(cs.G, cs.Site)})
			return nil
		})
		if err != nil {
			return nil, err
		}
	case strings.HasPrefix(spec, "odd:"):
		// odd:<seed>:<n> - well-formed skeletons whose slots hold unusual values (the grammar-aware family of the C01 fuzz stream)
		parts := strings.Split(spec, ":")
		rr := newRng(uint64(atoi(parts[1]))*7919 + 13)
		for i, n := 0, atoi(parts[2]); i < n; i++ {
			out = append(out, projSrc{name: fmt.Sprintf("odd:%06d", i), text: oddSkeleton(rr)})
		}
	case strings.HasPrefix(spec, "cells:"):
		// the schema-feature matrix of MC_C17 (every rule x value at property / object level in TYPE / response / request
		// position): documents on which the OpenAPI export often answers with an error value
		err := forEachEmitted(spec[6:], "E", func(js string) error {
			var c c17Cell
			if err := json.Unmarshal([]byte(js), &c); err != nil {
				return err
			}
			out = append(out, projSrc{name: fmt.Sprintf("cell:%s/%s=%s/%s/%v", c.Level, c.Rule, c.Value, c.Place, c.Shortcut), text: c17Document(c)})
			return nil
		})
		if err != nil {
			return nil, err
		}
	default:
		return nil, fmt.Errorf("unknown source %q", spec)
	}
	sortSrc(out)
	return out, nil
}

func sortSrc(s []projSrc) {
	for i := 1; i < len(s); i++ {
		for j := i; j > 0 && s[j].name < s[j-1].name; j-- {
			s[j], s[j-1] = s[j-1], s[j]
		}
	}
}

// serial-replay <tlc-output of MC_C16> <source> [selftest]: every emitted call history on every accepted
// project of the source; the bytes of the last call must equal what that accessor returns on a pristine build.
func serialReplay(args []string) *Result {
	res := &Result{}
	selftest := len(args) > 2 && args[2] == "selftest"
	var hists [][]string
	err := forEachEmitted(args[0], "E", func(js string) error {
		var h struct {
			Calls []string `json:"calls"`
		}
		if err := json.Unmarshal([]byte(js), &h); err != nil {
			return err
		}
		hists = append(hists, h.Calls)
		return nil
	})
	if err != nil || len(hists) == 0 {
		res.Error = fmt.Sprint("no call histories: ", err)
		return res
	}
	srcs, err := loadSources(args[1])
	if err != nil {
		res.Error = err.Error()
		return res
	}
	accepted := 0
	for _, src := range srcs {
		j0, ok, _ := src.build()
		if !ok {
			continue
		}
		accepted++
		ref := map[string][]byte{}
		refErr := map[string]string{}
		for name, a := range accessors {
			jj, _, _ := src.build()
			ref[name], refErr[name] = a(&jj)
		}
		_ = j0
		bad := false
		for _, h := range hists {
			if bad {
				break
			}
			jj, _, _ := src.build()
			var out []byte
			var es string
			for i, c := range h {
				out, es = accessors[c](&jj)
				if i < len(h)-1 {
					// what a call returns belongs to the caller: writing into it must not reach later results
					for x := range out {
						out[x] = '#'
					}
				}
			}
			last := h[len(h)-1]
			res.Cases++
			want := ref[last]
			if selftest && res.Cases%2 == 0 {
				want = append([]byte("x"), want...)
			}
			if !bytes.Equal(out, want) || es != refErr[last] {
				what := fmt.Sprintf("%s: after the calls %v, %s returns %d bytes (%s); on a pristine catalog it returns %d bytes (%s)", src.name, h[:len(h)-1], last, len(out), es, len(want), refErr[last])
				res.mismatch("c16:"+last+"-after-"+lastOther(h), what, map[string]any{"kind": "c16", "project": src.name, "text": src.text, "path": src.path, "calls": h})
				bad = !selftest
			}
		}
		if len(res.Samples) < 3 {
			res.sample(map[string]any{"project": src.name, "histories": len(hists), "example_history": hists[len(hists)/2]})
		}
	}
	res.Nontrivial = accepted * len(hists)
	res.Extra = map[string]any{"projects": accepted, "histories": len(hists)}
	return res
}

// lastOther names the kind of accessor that preceded (for signatures).
func lastOther(h []string) string {
	seen := map[string]bool{}
	for _, c := range h[:len(h)-1] {
		seen[strings.TrimSuffix(strings.TrimPrefix(c, "To"), "Indent")] = true
	}
	var ks []string
	for k := range seen {
		ks = append(ks, k)
	}
	sortStrings(ks)
	return strings.Join(ks, "+")
}

func sortStrings(a []string) {
	for i := 1; i < len(a); i++ {
		for j := i; j > 0 && a[j] < a[j-1]; j-- {
			a[j], a[j-1] = a[j-1], a[j]
		}
	}
}

var _ = os.Getenv
