package main

import (
	"encoding/json"
	"fmt"
	"strings"

	"github.com/jsightapi/jsight-schema-core/fs"

	"github.com/jsightapi/jsight-api-core/core"
	"github.com/jsightapi/jsight-api-core/jerr"
)

func init() {
	subcmds["c11-replay"] = c11Replay
	subcmds["c11-record"] = c11Record
}

type ke struct {
	K string `json:"k"`
	E bool   `json:"e"`
}

type c11Case struct {
	H        []Tok  `json:"h"`
	R        string `json:"r"`
	S        []ke   `json:"s"`
	Unclosed bool   `json:"unclosed"`
	N        int    `json:"n"`
}

type c11Obs struct {
	Res    string // ok | ctxerr | noctx | unclosed | other:<msg> | panic:<msg>
	Line   int
	Chain  []ke
	Right  []ke // rightmost path of the tree
	NNodes int
	Msg    string
	// the MACRO/PASTE pass re-resolves every directive's context: for a document without PASTE its result must be
	// the scanned tree without the MACRO definitions
	ScanShape string
	ExpShape  string
	ExpRes    string // "" (not run) | ok | err
	HasPaste  bool
}

// expandPastes: run the MACRO/PASTE pass on documents that contain PASTE as well (c11-docs compares the result with the
// specification's expanded tree; the edge replay of MC_C11 has undefined macros and leaves them alone)
var expandPastes = false

func treeShape(nn []*core.VerifNode, dropMacro bool) string {
	var sb strings.Builder
	for _, n := range nn {
		if dropMacro && n.Kind == "MACRO" {
			continue
		}
		sb.WriteString(n.Kind)
		if len(n.Children) > 0 {
			sb.WriteString("(" + treeShape(n.Children, dropMacro) + ")")
		}
		sb.WriteString(" ")
	}
	return sb.String()
}

func classifyTreeErr(je *jerr.JApiError) string {
	switch {
	case je == nil:
		return "ok"
	case strings.HasPrefix(je.Msg, jerr.IncorrectDirectiveContext):
		return "ctxerr"
	case strings.HasPrefix(je.Msg, jerr.ThereIsNoExplicitContextForClosure):
		return "noctx"
	case strings.HasPrefix(je.Msg, jerr.ContextNotClosed):
		return "unclosed"
	case strings.HasPrefix(je.Msg, jerr.ThereIsNoDirectiveForExplicitContext):
		return "noopen"
	}
	return "other:" + je.Msg
}

func countNodes(nn []*core.VerifNode) int {
	n := 0
	for _, x := range nn {
		n += 1 + countNodes(x.Children)
	}
	return n
}

func observeTree(text string) (o c11Obs) {
	defer func() {
		if r := recover(); r != nil {
			o.Res = fmt.Sprint("panic:", r)
		}
	}()
	c := core.NewJApiCore(fs.NewFile("root.jst", text))
	je := c.VerifScanOnly()
	o.Res = classifyTreeErr(je)
	if je != nil {
		o.Line = int(je.Line)
		o.Msg = je.Msg
	}
	for _, x := range c.VerifContextChain() {
		o.Chain = append(o.Chain, ke{modelKind(x.Kind), x.Explicit})
	}
	tree := c.VerifTree()
	o.NNodes = countNodes(tree)
	o.HasPaste = strings.Contains(text, "PASTE")
	if je == nil && (!o.HasPaste || expandPastes) {
		o.ScanShape = treeShape(tree, true)
		if e := c.VerifExpand(); e != nil {
			o.ExpRes = "err"
		} else {
			o.ExpRes = "ok"
			o.ExpShape = treeShape(c.VerifExpandedTree(), true)
		}
	}
	for nn := tree; len(nn) > 0; {
		last := nn[len(nn)-1]
		o.Right = append(o.Right, ke{modelKind(last.Kind), last.Explicit})
		nn = last.Children
	}
	return o
}

func eqKE(a, b []ke) bool {
	if len(a) != len(b) {
		return false
	}
	for i := range a {
		if a[i] != b[i] {
			return false
		}
	}
	return true
}

// c11Check compares one specification edge with the real tree builder.
// c11EOL is the line-break convention the next case is rendered with; c11-replay rotates it (the context rule does not
// depend on it, line numbers neither).
var c11EOL = "\n"

func c11Check(cs *c11Case) (ok bool, what string, nontrivial bool) {
	rd := renderTokens(cs.H, true, canon)
	if c11EOL != "\n" {
		rd.text = strings.ReplaceAll(rd.text, "\n", c11EOL)
	}
	o := observeTree(rd.text)
	last := len(cs.H) - 1
	nontrivial = len(cs.S) >= 2 || cs.R != "ok"
	switch cs.R {
	case "ok":
		want := "ok"
		if cs.Unclosed {
			want = "unclosed"
		}
		if o.Res != want {
			return false, fmt.Sprintf("spec: accepted (eof=%s); code: %s at line %d", want, o.Res, o.Line), nontrivial
		}
		if !eqKE(o.Chain, cs.S) {
			return false, fmt.Sprintf("open-context chain: spec %v code %v", cs.S, o.Chain), nontrivial
		}
		if o.NNodes != cs.N {
			return false, fmt.Sprintf("tree size: spec %d code %d", cs.N, o.NNodes), nontrivial
		}
		if cs.H[last].T == "D" && !eqKE(o.Right, cs.S) {
			return false, fmt.Sprintf("new directive attached at %v, spec says %v", o.Right, cs.S), nontrivial
		}
		if o.ExpRes == "ok" && o.ExpShape != o.ScanShape {
			return false, fmt.Sprintf("the MACRO/PASTE pass re-nests the directives: scanned tree [%s], after the pass [%s]", o.ScanShape, o.ExpShape), nontrivial
		}
	case "ctxerr", "noctx", "noopen":
		if o.Res != cs.R {
			return false, fmt.Sprintf("spec: %s on token %d; code: %s at line %d", cs.R, last, o.Res, o.Line), nontrivial
		}
		if o.Line != rd.tokLine[last] {
			return false, fmt.Sprintf("%s reported at line %d, offending token is on line %d", cs.R, o.Line, rd.tokLine[last]), nontrivial
		}
	default:
		return false, "unknown expectation " + cs.R, false
	}
	return true, "", nontrivial
}

// c11-replay <tlc-output> [selftest]
func c11Replay(args []string) *Result {
	res := &Result{}
	selftest := len(args) > 1 && args[1] == "selftest"
	distinct := map[string]struct{}{}
	err := forEachEmitted(args[0], "E", func(js string) error {
		var cs c11Case
		if err := json.Unmarshal([]byte(js), &cs); err != nil {
			return fmt.Errorf("bad emission %q: %v", js, err)
		}
		if selftest {
			// corrupt the expectation: the binding must notice
			if cs.R == "ok" {
				cs.R = "ctxerr"
			} else {
				cs.R = "ok"
			}
		}
		res.Cases++
		c11EOL = "\n"
		if !selftest {
			c11EOL = []string{"\n", "\r\n", "\r"}[res.Cases%3]
		}
		ok, what, nt := c11Check(&cs)
		if nt {
			key := fmt.Sprint(cs.S, cs.R, cs.H[len(cs.H)-1])
			if _, seen := distinct[key]; !seen {
				distinct[key] = struct{}{}
			}
		}
		res.count("expect-" + cs.R)
		if !ok {
			rd := renderTokens(cs.H, true, canon)
			res.mismatch("c11:"+what, what, map[string]any{"kind": "c11", "case": cs, "doc": strings.ReplaceAll(rd.text, "\n", c11EOL), "eol": c11EOL})
		} else if res.Cases%50000 == 1 {
			rd := renderTokens(cs.H, true, canon)
			res.sample(map[string]any{"doc": rd.text, "expect": cs.R, "chain": cs.S})
		}
		if selftest && res.Cases >= 2000 {
			return errStop
		}
		return nil
	})
	if err != nil && err != errStop {
		res.Error = err.Error()
	}
	res.Nontrivial = len(distinct)
	return res
}

var errStop = fmt.Errorf("stop")

// ---------------------------------------------------------------------------
// V direction: record real executions on long random token sequences.

var treeKinds = []string{"JSIGHT", "INFO", "Title", "Version", "Description", "SERVER", "BaseUrl",
	"URL", "GET", "POST", "PUT", "PATCH", "DELETE", "Body", "Request", "RESP", "Path", "Headers",
	"Query", "TYPE", "ENUM", "MACRO", "PASTE", "Protocol", "Method", "Params", "Result", "TAG",
	"Tags", "OperationId"}

func isMethod(k string) bool {
	switch k {
	case "GET", "POST", "PUT", "PATCH", "DELETE":
		return true
	}
	return false
}

func randTok(rng *rng) Tok {
	if rng.intn(8) == 0 {
		return Tok{T: "C", K: ")", P: []string{}}
	}
	k := treeKinds[rng.intn(len(treeKinds))]
	t := Tok{T: "D", K: k, P: []string{}}
	if isMethod(k) && rng.intn(2) == 0 {
		t.P = []string{"/p"}
	}
	if k != "Description" && rng.intn(4) == 0 {
		t.E = true
	}
	return t
}

type c11Event struct {
	Ev       string `json:"ev"` // reset | tok | eof
	Tok      Tok    `json:"tok"`
	Res      string `json:"res"`
	Chain    []ke   `json:"chain"`
	N        int    `json:"n"`
	Unclosed bool   `json:"unclosed"`
}

// c11-record <out.ndjson> <seed> <traces> <maxlen> [corrupt]
func c11Record(args []string) *Result {
	res := &Result{}
	seed := atoi(args[1])
	ntr := atoi(args[2])
	maxlen := atoi(args[3])
	corrupt := len(args) > 4 && args[4] == "corrupt"
	rng := newRng(uint64(seed))
	w := newNDJSON(args[0])
	defer w.close()
	emptyTok := Tok{T: "-", P: []string{}}
	events := 0
	for tr := 0; tr < ntr; tr++ {
		w.write(c11Event{Ev: "reset", Tok: emptyTok, Chain: []ke{}})
		events++
		var prefix []Tok
		ended := false
		for len(prefix) < maxlen && !ended {
			// prefer tokens the real code accepts, so that traces get long
			var tok Tok
			var o c11Obs
			for try := 0; try < 12; try++ {
				tok = randTok(rng)
				o = observeTree(renderTokens(append(append([]Tok{}, prefix...), tok), true, canon).text)
				if o.Res == "ok" || o.Res == "unclosed" {
					break
				}
				if rng.intn(60) == 0 {
					break
				}
			}
			ev := c11Event{Ev: "tok", Tok: tok, Chain: o.Chain, N: o.NNodes}
			if ev.Chain == nil {
				ev.Chain = []ke{}
			}
			switch {
			case o.Res == "ok" || o.Res == "unclosed":
				ev.Res = "ok" // the EOF verdict is logged by the eof event
			case o.Res == "ctxerr" || o.Res == "noctx":
				ev.Res = o.Res
				ev.Chain = []ke{}
				ev.N = 0
				ended = true
			default:
				res.Error = "unexpected outcome while recording: " + o.Res
				return res
			}
			if corrupt && events >= 7 && ev.Res == "ok" {
				// the first accepted token at or behind event 7 (a rejection logs no node count)
				ev.N += 1
				corrupt = false
			}
			w.write(ev)
			events++
			prefix = append(prefix, tok)
		}
		if !ended {
			o := observeTree(renderTokens(prefix, true, canon).text)
			w.write(c11Event{Ev: "eof", Tok: emptyTok, Chain: []ke{}, Unclosed: o.Res == "unclosed", Res: "ok"})
			events++
		}
		res.Cases++
		if len(prefix) >= 6 {
			res.Nontrivial++
		}
		if tr < 2 {
			res.sample(map[string]any{"trace_doc": renderTokens(prefix, true, canon).text})
		}
	}
	res.Extra = map[string]any{"events": events}
	return res
}

// c11-docs <tlc-output of MC_C08doc>: the second resolver.  The MACRO/PASTE pass re-resolves the context of every
// directive of the scanned tree (core/compile_core_paste.go); for every document of the block model and every
// explicit-context variant of it that has no PASTE, the tree after the pass must be the scanned tree without the
// MACRO definitions (whole documents: closed explicit siblings, implicit siblings with children, ...).
func c11Docs(args []string) *Result {
	res := &Result{}
	if err := loadPools(args[0]); err != nil {
		res.Error = err.Error()
		return res
	}
	distinct := map[string]struct{}{}
	err := forEachEmitted(args[0], "E", func(js string) error {
		var cs struct {
			Blocks   []string `json:"blocks"`
			Doc      []Tok    `json:"doc"`
			Closures [][]Tok  `json:"closures"`
			XShape   string   `json:"xshape"`
		}
		expandPastes = true
		if err := json.Unmarshal([]byte(js), &cs); err != nil {
			return err
		}
		for _, toks := range append([][]Tok{cs.Doc}, cs.Closures...) {
			text := renderTokens(toks, false, canon).text
			o := observeTree(text)
			res.Cases++
			if o.HasPaste && cs.XShape != "-" && o.Res == "ok" && o.ExpRes == "err" {
				res.mismatch("c11:paste-pass-rejects", "the MACRO/PASTE pass rejects a document whose in-place expansion is well nested: specification ["+cs.XShape+"]",
					map[string]any{"kind": "c11-doc", "text": text, "blocks": cs.Blocks})
				continue
			}
			if o.ExpRes != "ok" {
				res.count("not-compared(" + o.Res + "/" + o.ExpRes + ")")
				continue
			}
			res.count("compared")
			if _, ok := distinct[o.ScanShape]; !ok {
				distinct[o.ScanShape] = struct{}{}
				res.Nontrivial++
			}
			if o.HasPaste {
				// the expansion itself: the real pass against the specification's Expand (Macro.tla)
				if cs.XShape != "-" {
					res.count("compared-with-PASTE")
					if got := strings.ReplaceAll(o.ExpShape, "HTTP-response-code", "RESP"); got != cs.XShape {
						res.mismatch("c11:paste-pass-nesting", fmt.Sprintf("the MACRO/PASTE pass nests the pasted directives differently: specification [%s], code [%s]", cs.XShape, got),
							map[string]any{"kind": "c11-doc", "text": text, "blocks": cs.Blocks})
					}
				}
				continue
			}
			if o.ExpShape != o.ScanShape {
				res.mismatch("c11:paste-pass-renests", fmt.Sprintf("the MACRO/PASTE pass re-nests the directives: scanned tree [%s], after the pass [%s]", o.ScanShape, o.ExpShape),
					map[string]any{"kind": "c11-doc", "text": text, "blocks": cs.Blocks})
			}
		}
		return nil
	})
	if err != nil {
		res.Error = err.Error()
	}
	return res
}

func init() { subcmds["c11-docs"] = c11Docs }
