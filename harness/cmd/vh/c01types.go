package main

import (
	"encoding/json"
	"fmt"
	"strings"
)

func init() {
	subcmds["types-build"] = typesBuild
}

type typeShape struct {
	K string `json:"k"`
	A int    `json:"a"`
	B int    `json:"b"`
}

func renderTypeGraph(g []typeShape, site string) string {
	var sb strings.Builder
	sb.WriteString("JSIGHT 0.3\n\n")
	nm := func(i int) string { return fmt.Sprintf("@t%d", i) }
	for i, s := range g {
		switch s.K {
		case "any", "empty":
			fmt.Fprintf(&sb, "TYPE %s %s\n\n", nm(i+1), s.K)
			continue
		case "regex":
			fmt.Fprintf(&sb, "TYPE %s regex\n/ab+/\n\n", nm(i+1))
			continue
		}
		fmt.Fprintf(&sb, "TYPE %s\n", nm(i+1))
		switch s.K {
		case "scalar":
			sb.WriteString("12\n")
		case "leaf":
			sb.WriteString("{\"k\": 1}\n")
		case "ref":
			sb.WriteString(nm(s.A) + "\n")
		case "or":
			sb.WriteString(nm(s.A) + " | " + nm(s.B) + "\n")
		case "prop":
			sb.WriteString("{\"p\": " + nm(s.A) + "}\n")
		case "optprop":
			sb.WriteString("{\n  \"p\": " + nm(s.A) + " // {optional: true}\n}\n")
		case "nullref":
			sb.WriteString(nm(s.A) + " // {nullable: true}\n")
		case "keyref":
			sb.WriteString("{ " + nm(s.A) + " : 1 }\n")
		case "arr":
			sb.WriteString("[" + nm(s.A) + "]\n")
		case "allof":
			sb.WriteString("{ // {allOf: \"" + nm(s.A) + "\"}\n  \"q\": 1\n}\n")
		}
		sb.WriteString("\n")
	}
	switch site {
	case "none":
		sb.WriteString("GET /x\n  200 any\n")
	case "path-ref":
		sb.WriteString("URL /p/{id}\n  Path\n  @t1\n  GET\n    200 any\n")
	case "path-prop":
		sb.WriteString("URL /p/{id}\n  Path\n  {\"id\": @t1}\n  GET\n    200 any\n")
	case "headers":
		sb.WriteString("GET /h\n  200\n    Headers\n    @t1\n    Body any\n")
	case "query":
		sb.WriteString("GET /q\n  Query\n  @t1\n  200 any\n")
	case "request":
		sb.WriteString("POST /r\n  Request @t1\n  200 any\n")
	case "response":
		sb.WriteString("GET /s\n  200 @t1\n")
	case "rpc":
		sb.WriteString("URL /rpc\n  Protocol json-rpc-2.0\n  Method foo\n    Params\n    @t1\n    Result\n    @t1\n")
	case "typeuse":
		sb.WriteString("TYPE @u\n{\"z\": @t1}\n\nGET /u\n  200 @u\n")
	}
	return sb.String()
}

// types-build <tlc-output>: every type graph x use site of MC_C01types through the whole build.
// Run in an isolated worker: a stack overflow kills the process and is attributed by bisection.
func typesBuild(args []string) *Result {
	res := &Result{}
	err := forEachEmitted(args[0], "E", func(js string) error {
		var cs struct {
			G      []typeShape `json:"g"`
			Site   string      `json:"site"`
			Cyclic bool        `json:"cyclic"`
		}
		if err := json.Unmarshal([]byte(js), &cs); err != nil {
			return err
		}
		text := renderTypeGraph(cs.G, cs.Site)
		res.Cases++
		if cs.Cyclic {
			res.Nontrivial++
		}
		out, pm, dur := totalBuild("root.jst", []byte(text))
		res.count(fmt.Sprintf("%s-cyclic=%v", out, cs.Cyclic))
		if out == "panic" {
			res.mismatch("c01:panic:"+panicSite(pm), fmt.Sprintf("building a type graph panics: %s", pm), map[string]any{"kind": "c01-text", "text": text})
		}
		if dur.Seconds() > 2 {
			res.mismatch("c01:slow", fmt.Sprintf("building a %d-byte type graph takes %v", len(text), dur), map[string]any{"kind": "c01-text", "text": text})
		}
		if len(res.Samples) < 2 && cs.Cyclic && res.Cases%333 == 7 {
			res.sample(map[string]any{"text": text, "outcome": out})
		}
		return nil
	})
	if err != nil {
		res.Error = err.Error()
	}
	return res
}

// types-chain <tlc-output>: the 'or' diamonds of MC_C01types ("D" lines).  Time must be proportional to the input:
// the per-case limit of C01 (2 s + 50 us/byte) applies; the growth factor between depths is reported as well.
func typesChain(args []string) *Result {
	res := &Result{}
	type pt struct {
		depth int
		dur   float64
		bytes int
	}
	var pts []pt
	err := forEachEmitted(args[0], "D", func(js string) error {
		var cs struct {
			Depth int `json:"depth"`
		}
		if err := json.Unmarshal([]byte(js), &cs); err != nil {
			return err
		}
		var sb strings.Builder
		sb.WriteString("JSIGHT 0.3\n")
		for i := 0; i < cs.Depth; i++ {
			fmt.Fprintf(&sb, "TYPE @a%d\n@a%d | @b%d\nTYPE @b%d\n@b%d | @a%d\n", i, i+1, i+1, i, i+1, i+1)
		}
		fmt.Fprintf(&sb, "TYPE @a%d\n1\nTYPE @b%d\n\"s\"\n", cs.Depth, cs.Depth)
		text := sb.String()
		res.Cases++
		res.Nontrivial++
		out, pm, dur := totalBuild("root.jst", []byte(text))
		pts = append(pts, pt{cs.Depth, dur.Seconds(), len(text)})
		res.count(out)
		if out == "panic" {
			res.mismatch("c01:panic:"+panicSite(pm), "building an 'or' diamond panics: "+pm, map[string]any{"kind": "c01-text", "text": text})
		}
		if limit := 2.0 + 50e-6*float64(len(text)); dur.Seconds() > limit {
			res.mismatch("c01:slow:or-diamond", fmt.Sprintf("an 'or' diamond of depth %d (%d bytes, %d types) takes %.1f s to build (limit %.2f s); the time doubles with every level",
				cs.Depth, len(text), 2*cs.Depth+2, dur.Seconds(), limit), map[string]any{"kind": "c01-text", "text": text, "depth": cs.Depth})
		}
		return nil
	})
	if err != nil {
		res.Error = err.Error()
	}
	var tl []string
	for _, p := range pts {
		tl = append(tl, fmt.Sprintf("depth %d: %d bytes %.3f s", p.depth, p.bytes, p.dur))
	}
	res.Extra = map[string]any{"timings": tl}
	return res
}

func init() { subcmds["types-chain"] = typesChain }

// macro-chain <tlc-output of MC_C01macro>: the macro diamonds ("D" lines): @m0 holds a response, every @m(i) pastes
// @m(i-1) twice, a method pastes @m(n).  The text is linear in n, the expanded tree has 2^n responses (the model
// states it); the per-case limit of C01 (2 s + 50 us/byte) applies to the real build.
func macroChain(args []string) *Result {
	res := &Result{}
	var tl []string
	err := forEachEmitted(args[0], "D", func(js string) error {
		var cs struct {
			Depth int `json:"depth"`
		}
		if err := json.Unmarshal([]byte(js), &cs); err != nil {
			return err
		}
		var sb strings.Builder
		sb.WriteString("JSIGHT 0.3\nMACRO @m0\n(\n  200 any\n)\n")
		for i := 1; i <= cs.Depth; i++ {
			fmt.Fprintf(&sb, "MACRO @m%d\n(\n  PASTE @m%d\n  PASTE @m%d\n)\n", i, i-1, i-1)
		}
		fmt.Fprintf(&sb, "GET /z\n  PASTE @m%d\n", cs.Depth)
		text := sb.String()
		res.Cases++
		res.Nontrivial++
		out, pm, dur := totalBuild("root.jst", []byte(text))
		tl = append(tl, fmt.Sprintf("depth %d: %d bytes %.3f s", cs.Depth, len(text), dur.Seconds()))
		res.count(out)
		if out == "panic" {
			res.mismatch("c01:panic:"+panicSite(pm), "building a macro diamond panics: "+pm, map[string]any{"kind": "c01-text", "text": text})
		}
		if limit := 2.0 + 50e-6*float64(len(text)); dur.Seconds() > limit {
			res.mismatch("c01:slow:macro-diamond", fmt.Sprintf("a macro diamond of depth %d (%d bytes, %d macros) takes %.1f s to build (limit %.2f s); the time doubles with every level",
				cs.Depth, len(text), cs.Depth+1, dur.Seconds(), limit), map[string]any{"kind": "c01-text", "text": text, "depth": cs.Depth})
		}
		return nil
	})
	if err != nil {
		res.Error = err.Error()
	}
	res.Extra = map[string]any{"timings": tl}
	return res
}

func init() { subcmds["macro-chain"] = macroChain }
