package main

import (
	"bytes"
	"encoding/json"
	"fmt"
	"github.com/jsightapi/jsight-schema-core/fs"
	"os"
	"strings"
	"unicode/utf8"

	"github.com/jsightapi/jsight-api-core/catalog"
	"github.com/jsightapi/jsight-api-core/kit"
)

func init() {
	subcmds["sweep"] = sweep
}

// ---- C04: JDoc Exchange 2.0.0 shape ----------------------------------------------

func need(o oobj, where string, keys ...string) []string {
	var bad []string
	for _, k := range keys {
		if _, ok := o.get(k); !ok {
			bad = append(bad, where+" lacks "+k)
		}
	}
	return bad
}

func checkContentNode(c oobj, where string, depth int) []string {
	if c == nil {
		return []string{where + ": content missing"}
	}
	if depth > 64 {
		return nil
	}
	tt := c.str("tokenType")
	if tt == "" {
		return []string{where + ": node without tokenType"}
	}
	cv, hasChildren := c.get("children")
	if _, isArr := cv.([]any); hasChildren && !isArr {
		hasChildren = false // "children": null is no list of children
	}
	_, hasScalar := c.get("scalarValue")
	var bad []string
	for i, rv := range c.arr("rules") {
		ro, ok := rv.(oobj)
		if !ok {
			bad = append(bad, fmt.Sprintf("%s.rules[%d] is not an object", where, i))
			continue
		}
		bad = append(bad, checkRuleNode(ro, fmt.Sprintf("%s.rules[%d]", where, i), 0)...)
	}
	if tt == "object" || tt == "array" {
		if !hasChildren || hasScalar {
			bad = append(bad, fmt.Sprintf("%s: %s node must carry children and no scalarValue", where, tt))
		}
		for i, ch := range c.arr("children") {
			co, ok := ch.(oobj)
			if !ok {
				bad = append(bad, fmt.Sprintf("%s.children[%d] is not an object", where, i))
				continue
			}
			if tt == "object" {
				if _, ok := co.get("key"); !ok {
					bad = append(bad, fmt.Sprintf("%s.children[%d] of an object has no key", where, i))
				}
			}
			bad = append(bad, checkContentNode(co, fmt.Sprintf("%s.children[%d]", where, i), depth+1)...)
		}
	} else {
		if !hasScalar || hasChildren {
			bad = append(bad, fmt.Sprintf("%s: scalar node (%s) must carry scalarValue and no children", where, tt))
		}
	}
	if _, ok := c.get("optional"); !ok {
		bad = append(bad, where+": node without optional")
	}
	return bad
}

// checkRuleNode: a rule is a key with a value; a value that is an object or an array carries a list of children
// (rules again), any other value carries scalarValue.
func checkRuleNode(r oobj, where string, depth int) []string {
	if depth > 64 {
		return nil
	}
	var bad []string
	tt := r.str("tokenType")
	if tt == "" {
		return []string{where + ": rule without tokenType"}
	}
	cv, hasChildren := r.get("children")
	kids, isArr := cv.([]any)
	_, hasScalar := r.get("scalarValue")
	if tt == "object" || tt == "array" {
		if !hasChildren || !isArr || hasScalar {
			bad = append(bad, fmt.Sprintf("%s: %s rule must carry a list of children and no scalarValue", where, tt))
		}
		for i, k := range kids {
			if ko, ok := k.(oobj); ok {
				bad = append(bad, checkRuleNode(ko, fmt.Sprintf("%s.children[%d]", where, i), depth+1)...)
			} else {
				bad = append(bad, fmt.Sprintf("%s.children[%d] is not an object", where, i))
			}
		}
	} else if !hasScalar || hasChildren {
		bad = append(bad, fmt.Sprintf("%s: scalar rule (%s) must carry scalarValue and no children", where, tt))
	}
	return bad
}

func checkSchemaShape(s oobj, where string) []string {
	if s == nil {
		return []string{where + ": schema missing"}
	}
	switch s.str("notation") {
	case "jsight":
		c, _ := s.get("content")
		co, ok := c.(oobj)
		if !ok {
			return []string{where + ": jsight schema without content tree"}
		}
		return checkContentNode(co, where+".content", 0)
	case "regex":
		if _, ok := s.get("content"); !ok {
			return []string{where + ": regex schema without content"}
		}
		return nil
	case "any", "empty":
		return nil
	}
	return []string{where + ": unknown notation " + s.str("notation")}
}

func checkShape(js []byte) []string {
	v, err := parseOrdered(js)
	if err != nil {
		return []string{"not JSON: " + err.Error()}
	}
	top, ok := v.(oobj)
	if !ok {
		return []string{"catalog is not an object"}
	}
	bad := need(top, "catalog", "tags", "interactions", "jsight", "jdocExchangeVersion")
	allowed := map[string]bool{"tags": true, "info": true, "servers": true, "userTypes": true, "userEnums": true, "interactions": true, "jsight": true, "jdocExchangeVersion": true}
	for _, kv := range top {
		if !allowed[kv.K] {
			bad = append(bad, "unknown top-level key "+kv.K)
		}
	}
	if top.str("jdocExchangeVersion") != "2.0.0" {
		bad = append(bad, "jdocExchangeVersion "+top.str("jdocExchangeVersion"))
	}
	for _, kv := range top.obj("tags") {
		t, _ := kv.V.(oobj)
		bad = append(bad, need(t, "tag "+kv.K, "name", "title", "interactionGroups")...)
		for _, g := range t.arr("interactionGroups") {
			gg, _ := g.(oobj)
			bad = append(bad, need(gg, "tag "+kv.K+" group", "protocol", "interactions")...)
		}
	}
	for _, kv := range top.obj("servers") {
		s, _ := kv.V.(oobj)
		bad = append(bad, need(s, "server "+kv.K, "baseUrl")...)
	}
	for _, kv := range top.obj("userTypes") {
		t, _ := kv.V.(oobj)
		bad = append(bad, need(t, "userType "+kv.K, "schema")...)
		bad = append(bad, checkSchemaShape(t.obj("schema"), "userType "+kv.K)...)
	}
	for _, kv := range top.obj("userEnums") {
		t, _ := kv.V.(oobj)
		bad = append(bad, need(t, "userEnum "+kv.K, "annotation", "description", "value")...)
		val := t.obj("value")
		if val.str("tokenType") != "array" {
			bad = append(bad, "userEnum "+kv.K+" value is not an array")
		}
		for _, ch := range val.arr("children") {
			co, _ := ch.(oobj)
			bad = append(bad, need(co, "userEnum "+kv.K+" item", "tokenType", "scalarValue")...)
		}
	}
	for _, kv := range top.obj("interactions") {
		x, _ := kv.V.(oobj)
		w := "interaction " + kv.K
		switch x.str("protocol") {
		case "http":
			bad = append(bad, need(x, w, "id", "protocol", "httpMethod", "path", "tags")...)
			if pv := x.obj("pathVariables"); pv != nil {
				bad = append(bad, checkSchemaShape(pv.obj("schema"), w+" pathVariables")...)
			}
			if q := x.obj("query"); q != nil {
				bad = append(bad, need(q, w+" query", "format", "schema")...)
				bad = append(bad, checkSchemaShape(q.obj("schema"), w+" query")...)
			}
			if r := x.obj("request"); r != nil {
				if h := r.obj("headers"); h != nil {
					bad = append(bad, checkSchemaShape(h.obj("schema"), w+" request headers")...)
				}
				if b := r.obj("body"); b != nil {
					bad = append(bad, need(b, w+" request body", "format", "schema")...)
					bad = append(bad, checkSchemaShape(b.obj("schema"), w+" request body")...)
				}
			}
			for _, rv := range x.arr("responses") {
				r, ok := rv.(oobj)
				if !ok {
					bad = append(bad, w+" response is not an object")
					continue
				}
				bad = append(bad, need(r, w+" response", "code", "body")...)
				b := r.obj("body")
				if b == nil {
					bad = append(bad, w+" response "+r.str("code")+" has no body object")
				} else {
					bad = append(bad, need(b, w+" response body", "format", "schema")...)
					bad = append(bad, checkSchemaShape(b.obj("schema"), w+" response "+r.str("code"))...)
				}
				if h := r.obj("headers"); h != nil {
					bad = append(bad, checkSchemaShape(h.obj("schema"), w+" response headers")...)
				}
			}
		case "json-rpc-2.0":
			bad = append(bad, need(x, w, "id", "protocol", "path", "method", "tags")...)
			for _, k := range []string{"params", "result"} {
				if p := x.obj(k); p != nil {
					bad = append(bad, checkSchemaShape(p.obj("schema"), w+" "+k)...)
				}
			}
		default:
			bad = append(bad, w+": unknown protocol "+x.str("protocol"))
		}
	}
	return bad
}

func checkC04(j *kit.JApi) (sig string, what string) {
	a, ea := wrapBytes(j.ToJson)
	b, eb := wrapBytes(j.ToJsonIndent)
	switch {
	case ea != "":
		return "c04:tojson-fails" + failingComponent(j), "the build succeeded but ToJson fails: " + ea
	case eb != "":
		return "c04:tojsonindent-fails", "the build succeeded but ToJsonIndent fails: " + eb
	case !utf8.Valid(a) || !json.Valid(a) || !json.Valid(b):
		return "c04:not-valid-utf8-json", "serialised catalog is not valid UTF-8 JSON"
	}
	var ca, cb bytes.Buffer
	if json.Compact(&ca, a) != nil || json.Compact(&cb, b) != nil || !bytes.Equal(ca.Bytes(), cb.Bytes()) {
		return "c04:indent-differs", "ToJson and ToJsonIndent differ by more than whitespace"
	}
	if bad := checkShape(a); len(bad) > 0 {
		return "c04:shape:" + short(bad[0]), "JDoc Exchange shape: " + strings.Join(bad[:minInt(len(bad), 4)], "; ")
	}
	return "", ""
}

// ---- C17: OpenAPI export -------------------------------------------------------------

func collectRefs(v any, out *[]string) {
	switch x := v.(type) {
	case oobj:
		for _, kv := range x {
			if kv.K == "$ref" {
				if s, ok := kv.V.(string); ok {
					*out = append(*out, s)
				}
			}
			collectRefs(kv.V, out)
		}
	case []any:
		for _, e := range x {
			collectRefs(e, out)
		}
	}
}

func checkC17(j *kit.JApi) (sig string, what string) {
	oa, eo := wrapBytes(j.ToOpenAPIJson)
	if strings.HasPrefix(eo, "panic") {
		return "c17:panic", "ToOpenAPIJson panics: " + eo
	}
	if eo != "" {
		return "", "" // an error value is allowed
	}
	cat, ec := wrapBytes(j.ToJson)
	if ec != "" {
		return "", ""
	}
	v, err := parseOrdered(oa)
	if err != nil {
		return "c17:not-json", "OpenAPI export is not JSON: " + err.Error()
	}
	doc, _ := v.(oobj)
	if doc.str("openapi") == "" || doc.obj("info") == nil {
		return "c17:no-openapi-info", "document lacks openapi / info"
	}
	if _, ok := doc.get("paths"); !ok {
		return "c17:no-paths", "document lacks paths"
	}
	paths := doc.obj("paths")
	cv, _ := parseOrdered(cat)
	ctop, _ := cv.(oobj)
	for _, kv := range ctop.obj("interactions") {
		x, _ := kv.V.(oobj)
		if x.str("protocol") != "http" {
			continue
		}
		item := paths.obj(x.str("path"))
		if item == nil {
			return "c17:path-missing", fmt.Sprintf("interaction %q: paths has no %q", kv.K, x.str("path"))
		}
		op := item.obj(strings.ToLower(x.str("httpMethod")))
		if op == nil {
			return "c17:operation-missing", fmt.Sprintf("interaction %q: no operation %s under %q", kv.K, strings.ToLower(x.str("httpMethod")), x.str("path"))
		}
		for _, pn := range pathParamsOf(x.str("path")) {
			found := false
			for _, holder := range []oobj{item, op} {
				for _, pv := range holder.arr("parameters") {
					po, _ := pv.(oobj)
					if po.str("name") == pn && po.str("in") == "path" {
						if req, _ := po.get("required"); req == true {
							found = true
						}
					}
				}
			}
			if !found {
				return "c17:path-parameter", fmt.Sprintf("interaction %q: {%s} is not declared as a required path parameter", kv.K, pn)
			}
		}
		for _, rk := range op.obj("responses") {
			k := rk.K
			if k != "default" && !(len(k) == 3 && k[0] >= '1' && k[0] <= '5' && k[1] >= '0' && k[1] <= '9' && k[2] >= '0' && k[2] <= '9') {
				return "c17:response-key", fmt.Sprintf("interaction %q: response key %q", kv.K, k)
			}
		}
	}
	comps := doc.obj("components").obj("schemas")
	for _, kv := range ctop.obj("userTypes") {
		if comps.obj(strings.TrimPrefix(kv.K, "@")) == nil {
			if _, ok := comps.get(strings.TrimPrefix(kv.K, "@")); !ok {
				return "c17:type-not-component", fmt.Sprintf("user type %s is not a component", kv.K)
			}
		}
	}
	var refs []string
	collectRefs(doc, &refs)
	for _, r := range refs {
		const p = "#/components/schemas/"
		if !strings.HasPrefix(r, p) {
			return "c17:ref-form", "unexpected $ref " + r
		}
		if _, ok := comps.get(r[len(p):]); !ok {
			return "c17:ref-dangling", "$ref " + r + " does not resolve"
		}
	}
	return "", ""
}

// ---- C06: same project, same result ------------------------------------------------------

type outcome struct {
	res  string
	data string
}

func outcomeOf(src projSrc) outcome {
	j, ok, msg := src.build()
	if !ok {
		if strings.HasPrefix(msg, "panic") {
			return outcome{"panic", msg}
		}
		// rebuild to read the whole error
		var full string
		func() {
			defer func() { recover() }()
			if src.path != "" {
				_, je := kit.NewJapi(src.path)
				full = fmt.Sprintf("%s|%s|%d|%d|%d|%s", je.Msg, je.File.Name(), je.Index, je.Line, je.Column, je.Error())
			} else {
				o := buildText(src.text)
				je := o.Err
				full = fmt.Sprintf("%s|%s|%d|%d|%d|%s", je.Msg, je.File.Name(), je.Index, je.Line, je.Column, je.Error())
			}
		}()
		return outcome{"err", full}
	}
	b, es := wrapBytes(j.ToJson)
	return outcome{"ok", string(b) + es}
}

func checkC06(src projSrc, k int) (sig, what string) {
	first := outcomeOf(src)
	for i := 1; i < k; i++ {
		o := outcomeOf(src)
		if o != first {
			return "c06:run-to-run-" + first.res, fmt.Sprintf("build %d of the same project differs from the first: %.300s  vs  %.300s", i+1, diffSnippet(first.data, o.data), diffSnippet(o.data, first.data))
		}
	}
	// the caller may also hand the very same file object to several builds (kit.NewJApiFromFile): a build must not
	// leave anything behind in it
	if first.res != "panic" {
		name, text := "root.jst", src.text
		if src.path != "" {
			b, err := os.ReadFile(src.path)
			if err != nil {
				return "", ""
			}
			name, text = src.path, string(b)
		}
		f := fs.NewFile(name, text)
		for i := 0; i < 2; i++ {
			o := outcomeOfFile(f)
			if o != first {
				return "c06:same-file-object-" + first.res, fmt.Sprintf("build %d from one and the same file object differs from the build of a fresh one: %.300s  vs  %.300s", i+1, diffSnippet(first.data, o.data), diffSnippet(o.data, first.data))
			}
		}
	}
	return "", ""
}

func outcomeOfFile(f *fs.File) (o outcome) {
	defer func() {
		if r := recover(); r != nil {
			o = outcome{"panic", "panic: " + fmt.Sprint(r)}
		}
	}()
	j, je := kit.NewJApiFromFile(f)
	if je != nil {
		return outcome{"err", fmt.Sprintf("%s|%s|%d|%d|%d|%s", je.Msg, je.File.Name(), je.Index, je.Line, je.Column, je.Error())}
	}
	b, es := wrapBytes(j.ToJson)
	return outcome{"ok", string(b) + es}
}

func diffSnippet(a, b string) string {
	i := 0
	for i < len(a) && i < len(b) && a[i] == b[i] {
		i++
	}
	lo := i - 40
	if lo < 0 {
		lo = 0
	}
	hi := i + 80
	if hi > len(a) {
		hi = len(a)
	}
	return a[lo:hi]
}

// ---- mutated corpus ------------------------------------------------------------------------

func mutateText(r *rng, s string) string {
	lines := strings.Split(s, "\n")
	switch r.intn(7) {
	case 0: // duplicate a line
		i := r.intn(len(lines))
		lines = append(lines[:i+1], lines[i:]...)
	case 1: // delete a line
		i := r.intn(len(lines))
		lines = append(lines[:i], lines[i+1:]...)
	case 2: // swap two lines
		i, j := r.intn(len(lines)), r.intn(len(lines))
		lines[i], lines[j] = lines[j], lines[i]
	case 3: // replace a byte
		b := []byte(s)
		if len(b) > 0 {
			b[r.intn(len(b))] = "{}[]\"/@#() \n\t:,x0|"[r.intn(18)]
		}
		return string(b)
	case 4: // delete a byte
		b := []byte(s)
		if len(b) > 0 {
			i := r.intn(len(b))
			b = append(b[:i], b[i+1:]...)
		}
		return string(b)
	case 5: // truncate
		return s[:r.intn(len(s)+1)]
	case 6: // splice a line of another place
		i, j := r.intn(len(lines)), r.intn(len(lines))
		lines = append(lines[:i+1], append([]string{lines[j]}, lines[i+1:]...)...)
	}
	return strings.Join(lines, "\n")
}

// sweep <checks: c04,c17,c06> <source> [mutations-per-file] [seed]
// source as in serial-replay; with mutations > 0 every single-file corpus document is also mutated.
func sweep(args []string) *Result {
	res := &Result{}
	checks := map[string]bool{}
	for _, c := range strings.Split(args[0], ",") {
		checks[c] = true
	}
	srcs, err := loadSources(args[1])
	if err != nil {
		res.Error = err.Error()
		return res
	}
	nmut, seed := 0, 1
	if len(args) > 2 {
		nmut = atoi(args[2])
	}
	if len(args) > 3 {
		seed = atoi(args[3])
	}
	r := newRng(uint64(seed))
	var all []projSrc
	for _, s := range srcs {
		all = append(all, s)
		if nmut > 0 && s.path != "" {
			b, err := os.ReadFile(s.path)
			if err != nil || bytes.Contains(b, []byte("INCLUDE")) {
				continue
			}
			for m := 0; m < nmut; m++ {
				t := string(b)
				for k := 0; k <= r.intn(3); k++ {
					t = mutateText(r, t)
				}
				all = append(all, projSrc{name: fmt.Sprintf("%s#mut%d", s.name, m), text: t})
			}
		}
	}
	accepted := 0
	// VH_CURRENT_FILE: the project about to be examined is kept in a side file, so that the parent of a sweep which the
	// real code kills (fatal stack overflow, runtime throw) or hangs knows the project
	cur := os.Getenv("VH_CURRENT_FILE")
	for _, s := range all {
		res.Cases++
		replay := map[string]any{"kind": "sweep", "project": s.name, "text": s.text, "path": s.path}
		if cur != "" {
			if b, err := json.Marshal(replay); err == nil {
				_ = os.WriteFile(cur, b, 0o644)
			}
		}
		if checks["c06"] {
			k := 3
			if strings.HasPrefix(s.name, "depmap:") {
				k = 40
			}
			if sig, what := checkC06(s, k); sig != "" {
				if strings.HasPrefix(s.name, "depmap:") {
					sig = "c06:dependency-map-order:" + strings.TrimPrefix(s.name, "depmap:")
				}
				res.mismatch(sig, s.name+": "+what, replay)
			}
		}
		j, ok, msg := s.build()
		if !ok {
			if strings.HasPrefix(msg, "panic") {
				res.drift(s.name + ": build " + msg) // owned by C01
			}
			continue
		}
		accepted++
		if len(res.Samples) < 3 && accepted%97 == 3 {
			res.sample(map[string]any{"project": s.name, "accepted": true})
		}
		if checks["c05"] {
			if b, es := wrapBytes(j.ToJson); es == "" {
				if bad := checkC05(b); len(bad) > 0 {
					res.mismatch("c05:"+short(bad[0]), s.name+": cross-reference invariant broken: "+strings.Join(bad, "; "), replay)
				}
			}
		}
		if checks["c04"] {
			probeSrc = &s
			if sig, what := checkC04(&j); sig != "" {
				res.mismatch(sig, s.name+": "+what, replay)
			}
		}
		if checks["c17"] {
			jj, _, _ := s.build()
			if sig, what := checkC17(&jj); sig != "" {
				res.mismatch(sig, s.name+": "+what, replay)
			}
		}
	}
	res.Nontrivial = accepted
	res.Extra = map[string]any{"accepted": accepted, "projects": len(all)}
	return res
}

func minInt(a, b int) int {
	if a < b {
		return a
	}
	return b
}

// failingComponent names the part of the catalog whose serialisation fails (for signatures):
// ":pathVariables:example-invalid" is the shape of the recorded finding C04-path-body-unchecked
// (a Path body whose example contradicts its rule), anything else is reported as it is.
// The serialisation error of a path-variable schema is raised by the FIRST marshal only (later calls find the schema
// "compiled"), so the probe runs on a fresh build of the same source when the caller provides one (probeSrc).
var probeSrc *projSrc

func failingComponent(j *kit.JApi) string {
	var out string
	func() {
		defer func() { recover() }()
		if probeSrc != nil {
			if j2, ok, _ := probeSrc.build(); ok {
				j = &j2
			}
		}
		// every interaction whose path variables alone do not serialise
		var failing []*catalog.HTTPInteraction
		notFound := false
		_ = j.Catalog().Interactions.Each(func(_ catalog.InteractionID, v catalog.Interaction) error {
			hi, ok := v.(*catalog.HTTPInteraction)
			if !ok || hi.PathVariables == nil {
				return nil
			}
			if _, err := json.Marshal(hi.PathVariables); err != nil {
				failing = append(failing, hi)
				notFound = notFound || strings.Contains(err.Error(), "not found")
			}
			return nil
		})
		if len(failing) == 0 {
			return
		}
		// ... and only when everything else serialises
		saved := make([]*catalog.PathVariables, len(failing))
		for i, hi := range failing {
			saved[i], hi.PathVariables = hi.PathVariables, nil
		}
		_, err2 := j.Catalog().ToJson()
		for i, hi := range failing {
			hi.PathVariables = saved[i]
		}
		if err2 == nil {
			if notFound {
				out = ":pathVariables:type-not-found"
			} else {
				out = ":pathVariables:example-invalid"
			}
		}
	}()
	return out
}
