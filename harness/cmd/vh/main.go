// Command vh is the conformance harness that binds the TLA+ specification in
// /verif/spec to the real jsight-api-core code (built from /repo's working tree
// with -tags verif).  Every sub-command reads cases (TLC emissions or seeds),
// runs the real code, compares with the specification's prediction and prints
// one line "RESULT {json}" at the end.
package main

import (
	"encoding/json"
	"fmt"
	"os"
	"runtime/debug"
	"sort"
)

type subcmd func(args []string) *Result

var subcmds = map[string]subcmd{}

// Result is what every sub-command reports.
type Result struct {
	Cases      int               `json:"cases"`
	Nontrivial int               `json:"nontrivial"`
	Mismatches []Mismatch        `json:"mismatches"`
	NMismatch  int               `json:"n_mismatch"`
	SigCounts  map[string]int    `json:"sig_counts,omitempty"`
	Drift      int               `json:"drift"`
	DriftEx    []string          `json:"drift_examples,omitempty"`
	Samples    []json.RawMessage `json:"samples"`
	Counters   map[string]int    `json:"counters,omitempty"`
	Error      string            `json:"error,omitempty"`
	Extra      map[string]any    `json:"extra,omitempty"`
}

// Mismatch is a contradiction between the specification's prediction and the
// real code on a concrete, replayable case.
type Mismatch struct {
	Sig    string          `json:"sig"`  // stable signature (used by known_findings.json)
	What   string          `json:"what"` // human-readable
	Replay json.RawMessage `json:"replay"`
}

func (r *Result) count(k string) {
	if r.Counters == nil {
		r.Counters = map[string]int{}
	}
	r.Counters[k]++
}

const maxMismatchKept = 200
const maxPerSig = 5

func (r *Result) mismatch(sig, what string, replay any) {
	r.NMismatch++
	if r.SigCounts == nil {
		r.SigCounts = map[string]int{}
	}
	r.SigCounts[sig]++
	if r.SigCounts[sig] > maxPerSig {
		return
	}
	if len(r.Mismatches) < maxMismatchKept {
		b, _ := json.Marshal(replay)
		r.Mismatches = append(r.Mismatches, Mismatch{sig, what, b})
	}
}

func (r *Result) sample(v any) {
	if len(r.Samples) < 5 {
		b, _ := json.Marshal(v)
		r.Samples = append(r.Samples, b)
	}
}

func (r *Result) drift(s string) {
	r.Drift++
	if len(r.DriftEx) < 10 {
		r.DriftEx = append(r.DriftEx, s)
	}
}

func main() {
	// A goroutine stack of 256 MB is far beyond anything a legitimate build needs; an unbounded recursion in the code
	// under test then dies in a fraction of a second instead of filling the default 1 GB first (the verdict is the same).
	debug.SetMaxStack(256 << 20)
	if len(os.Args) < 2 {
		names := make([]string, 0, len(subcmds))
		for k := range subcmds {
			names = append(names, k)
		}
		sort.Strings(names)
		fmt.Fprintln(os.Stderr, "usage: vh <subcommand> [args]; subcommands:", names)
		os.Exit(2)
	}
	f, ok := subcmds[os.Args[1]]
	if !ok {
		fmt.Fprintln(os.Stderr, "unknown subcommand", os.Args[1])
		os.Exit(2)
	}
	res := f(os.Args[2:])
	b, err := json.Marshal(res)
	if err != nil {
		fmt.Fprintln(os.Stderr, "marshal:", err)
		os.Exit(2)
	}
	fmt.Println("RESULT " + string(b))
	if res.Error != "" {
		os.Exit(2)
	}
}
