package main

import (
	"bufio"
	"fmt"
	"os"
	"strings"
	"sync"
	"sync/atomic"
	"time"
)

// forEachEmitted calls f with the JSON text of every line that TLC printed through
// PrintT("<tag> " \o ToJson(..)).  TLC prints TLA+ string literals: the payload is
// wrapped in quotes with \" and \\ escapes.
func forEachEmitted(path, tag string, f func(js string) error) error {
	fh, err := os.Open(path)
	if err != nil {
		return err
	}
	defer fh.Close()
	sc := bufio.NewScanner(fh)
	sc.Buffer(make([]byte, 1<<20), 1<<26)
	prefix := `"` + tag + ` `
	// VH_PROGRESS_FILE: the ordinal of the case about to run is kept in a side file, so that the parent of a
	// worker that dies knows which case killed it
	var prog *os.File
	if pf := os.Getenv("VH_PROGRESS_FILE"); pf != "" && tag != "L" {
		prog, _ = os.OpenFile(pf, os.O_CREATE|os.O_WRONLY, 0o644)
		if prog != nil {
			defer prog.Close()
		}
	}
	n := 0
	if prog != nil {
		startCaseWatchdog()
	}
	for sc.Scan() {
		line := sc.Text()
		if !strings.HasPrefix(line, prefix) || !strings.HasSuffix(line, `"`) {
			continue
		}
		line = line[len(prefix) : len(line)-1]
		if strings.IndexByte(line, '\\') >= 0 {
			line = unescapeTLA(line)
		}
		n++
		if prog != nil {
			_, _ = prog.WriteAt([]byte(fmt.Sprintf("%-12d", n)), 0)
			caseStarted.Store(time.Now().UnixNano())
		}
		if err := f(line); err != nil {
			return err
		}
	}
	return sc.Err()
}

func unescapeTLA(s string) string {
	var b strings.Builder
	b.Grow(len(s))
	for i := 0; i < len(s); i++ {
		if s[i] == '\\' && i+1 < len(s) {
			i++
			switch s[i] {
			case 'n':
				b.WriteByte('\n')
			case 't':
				b.WriteByte('\t')
			case 'r':
				b.WriteByte('\r')
			case 'f':
				b.WriteByte('\f')
			default:
				b.WriteByte(s[i])
			}
			continue
		}
		b.WriteByte(s[i])
	}
	return b.String()
}

// The watchdog of an isolated worker: a case of the real code that does not come back within VH_CASE_LIMIT seconds
// (default 60) ends the worker at once - the parent reads the case's ordinal from the progress file - instead of
// letting it spin until the worker's own timeout.
var caseStarted atomic.Int64
var watchdogOnce sync.Once

func startCaseWatchdog() {
	watchdogOnce.Do(func() {
		limit := 60 * time.Second
		if v := os.Getenv("VH_CASE_LIMIT"); v != "" {
			var n int
			if _, err := fmt.Sscan(v, &n); err == nil && n > 0 {
				limit = time.Duration(n) * time.Second
			}
		}
		go func() {
			for {
				time.Sleep(time.Second)
				if t := caseStarted.Load(); t != 0 && time.Since(time.Unix(0, t)) > limit {
					fmt.Fprintf(os.Stderr, "fatal error: watchdog: the case has been running for more than %v (hang)\n", limit)
					os.Exit(97)
				}
			}
		}()
	})
}
