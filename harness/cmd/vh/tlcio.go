package main

import (
	"bufio"
	"os"
	"strings"
)

// forEachEmitted calls f with the JSON text of every line that TLC printed through
// PrintT("<tag> " \o ToJson(..)).  TLC prints TLA+ string literals: the payload is
// wrapped in quotes with \" and \\ escapes.
func forEachEmitted(path, tag string, f func(js string) error) error {
	fh, err := os.Open(path)
	if err != nil {
		return err
	}
	defer fh.Close()
	sc := bufio.NewScanner(fh)
	sc.Buffer(make([]byte, 1<<20), 1<<26)
	prefix := `"` + tag + ` `
	for sc.Scan() {
		line := sc.Text()
		if !strings.HasPrefix(line, prefix) || !strings.HasSuffix(line, `"`) {
			continue
		}
		line = line[len(prefix) : len(line)-1]
		if strings.IndexByte(line, '\\') >= 0 {
			line = unescapeTLA(line)
		}
		if err := f(line); err != nil {
			return err
		}
	}
	return sc.Err()
}

func unescapeTLA(s string) string {
	var b strings.Builder
	b.Grow(len(s))
	for i := 0; i < len(s); i++ {
		if s[i] == '\\' && i+1 < len(s) {
			i++
			switch s[i] {
			case 'n':
				b.WriteByte('\n')
			case 't':
				b.WriteByte('\t')
			case 'r':
				b.WriteByte('\r')
			case 'f':
				b.WriteByte('\f')
			default:
				b.WriteByte(s[i])
			}
			continue
		}
		b.WriteByte(s[i])
	}
	return b.String()
}
