package main

import (
	"encoding/json"
	"fmt"
	"os"
	"path/filepath"
)

func init() {
	subcmds["c03-replay"] = c03Replay
}

type c03Case struct {
	Model struct {
		Res string `json:"res"`
		Cls string `json:"cls"`
		Tok int    `json:"tok"`
	} `json:"model"`
	Base string   `json:"base"`
	Kind string   `json:"kind"`
	Doc  []Tok    `json:"doc"`
	App  int      `json:"app"`
	X    buildExp `json:"x"`
}

// c03-replay <tlc-output> [selftest]: every (document, fault) written directly, in seeded layouts,
// and -- for appended faults -- inside an INCLUDEd file and inside a MACRO body.
func c03Replay(args []string) *Result {
	res := &Result{}
	if err := loadPools(args[0]); err != nil {
		res.Error = err.Error()
		return res
	}
	selftest := len(args) > 1 && args[1] == "selftest"
	base, err := os.MkdirTemp(scratchBase(), "vh-c03-")
	if err != nil {
		res.Error = err.Error()
		return res
	}
	defer os.RemoveAll(base)
	seed := 1
	fmt.Sscan(os.Getenv("VERIF_SEED"), &seed)
	lrng := newRng(uint64(seed))
	distinct := map[string]struct{}{}
	ferr := forEachEmitted(args[0], "E", func(js string) error {
		var cs c03Case
		if err := json.Unmarshal([]byte(js), &cs); err != nil {
			return fmt.Errorf("bad emission: %v", err)
		}
		res.Cases++
		cs.X.Skel = nil // C03 owns verdict, class and location; the catalog content is C02's
		if selftest {
			if cs.X.Tok > 1 {
				cs.X.Tok--
			} else {
				cs.X.Cls = "dupname"
			}
		}
		distinct[cs.Base+"/"+cs.Kind+fmt.Sprint(cs.X.Tok)] = struct{}{}
		res.count("fault-" + cs.Kind)
		// 1. written directly, canonical + 2 layouts
		for l := 0; l < 3; l++ {
			lo := canon
			if l > 0 {
				lo = randomLayout(lrng)
			}
			rd := renderTokens(cs.Doc, false, lo)
			o := buildText(rd.text)
			// recorded deviation: an error raised while a PASTE is expanded is re-located at the outermost
			// PASTE (the specification's Macro.tla predicts that line); the property asks for the offending directive
			if !selftest && cs.X.Res == "err" && cs.Model.Cls == cs.X.Cls && cs.Model.Tok != cs.X.Tok && o.Res == "err" &&
				classifyBuildErr(o.Msg) == cs.X.Cls && o.Line == expectedLine(rd, cs.Doc, cs.Model.Tok, "kw") {
				res.mismatch("c03:error-relocated-at-outer-paste", fmt.Sprintf("fault %s on token %d (inside a MACRO body) is reported on line %d, the line of the outermost PASTE (token %d)", cs.Kind, cs.X.Tok, o.Line, cs.Model.Tok), map[string]any{"kind": "c03", "case": cs, "text": rd.text})
				return nil
			}
			if !checkBuild(res, "c03", cs.Doc, rd, &cs.X, &o, map[string]any{"kind": "c03", "case": cs, "text": rd.text}) {
				return nil
			}
			if selftest {
				return nil
			}
		}
		if len(res.Samples) < 4 && res.Cases%17 == 3 {
			res.sample(map[string]any{"fault": cs.Kind, "expect": cs.X.Cls, "token": cs.X.Tok, "text": renderTokens(cs.Doc, false, canon).text})
		}
		if cs.App == 0 || cs.X.Res != "err" || cs.X.Tok <= len(cs.Doc)-cs.App {
			return nil
		}
		// 2. the appended (faulty) tokens live in an INCLUDEd file
		head := cs.Doc[:len(cs.Doc)-cs.App]
		tail := cs.Doc[len(cs.Doc)-cs.App:]
		if tail[0].K != "JSIGHT" {
			content := map[string][]Tok{
				"root.jst": append(append([]Tok{}, head...), Tok{T: "I", K: "INCLUDE", P: []string{"inc.jst"}}),
				"inc.jst":  tail,
			}
			p, err := writeProject(base, content, false)
			if err != nil {
				return err
			}
			o := buildProject(filepath.Join(p.dir, "root.jst"))
			res.count("placement-include")
			replay := map[string]any{"kind": "c03-include", "case": cs, "root": p.files["root.jst"].text, "inc": p.files["inc.jst"].text}
			ti := cs.X.Tok - len(head)
			wantLine := expectedLine(p.files["inc.jst"], tail, ti, cs.X.Where)
			switch {
			case o.Res != "err":
				res.mismatch("c03:include-accepted", fmt.Sprintf("fault %s inside an INCLUDEd file: accepted (%s)", cs.Kind, o.Res), replay)
			case classifyBuildErr(o.Msg) != cs.X.Cls:
				res.mismatch("c03:include-class-"+cs.X.Cls, fmt.Sprintf("fault %s inside an INCLUDEd file: %s", cs.Kind, firstLine(o.Msg)), replay)
			case p.rel(o.File) != "inc.jst" || o.Line != wantLine:
				res.mismatch("c03:include-location", fmt.Sprintf("fault %s inside an INCLUDEd file reported at %s:%d, the directive is at inc.jst:%d", cs.Kind, p.rel(o.File), o.Line, wantLine), replay)
			default:
				tr := p.errTrace(o.Err)
				want := fmt.Sprintf("root.jst:%d", p.lineOf("root.jst", len(head)+1))
				if len(tr) != 1 || tr[0] != want {
					res.mismatch("c03:include-trace", fmt.Sprintf("include trace %v, expected [%s]", tr, want), replay)
				}
			}
		}
		// 3. the appended tokens live in a MACRO body that is pasted at the end
		if k := tail[0].K; k != "JSIGHT" && k != "ENUM" && k != "MACRO" && k != "TAG" {
			doc := append([]Tok{}, head...)
			doc = append(doc, Tok{T: "D", K: "MACRO", P: []string{"@mfault"}, E: true})
			doc = append(doc, tail...)
			doc = append(doc, Tok{T: "C", K: ")"}, Tok{T: "D", K: "PASTE", P: []string{"@mfault"}})
			rd := renderTokens(doc, false, canon)
			o := buildText(rd.text)
			res.count("placement-macro")
			exp := cs.X
			exp.Tok = cs.X.Tok + 1 // shifted by the MACRO line
			checkBuild(res, "c03-macro", doc, rd, &exp, &o, map[string]any{"kind": "c03-macro", "case": cs, "text": rd.text})
		}
		return nil
	})
	if ferr != nil && ferr != errStop {
		res.Error = ferr.Error()
	}
	res.Nontrivial = len(distinct)
	return res
}
