package main

import (
	"encoding/json"
	"fmt"
	"os"
	"path/filepath"
	"strings"

	"github.com/jsightapi/jsight-schema-core/fs"

	"github.com/jsightapi/jsight-api-core/core"
	"github.com/jsightapi/jsight-api-core/jerr"
)

func init() {
	subcmds["c14-replay"] = c14Replay
}

type c14Case struct {
	Name    []int   `json:"name"`
	Cls     string  `json:"cls"` // empty | abs | dots | backslash | accepted
	Outcome string  `json:"outcome"`
	Path    [][]int `json:"path"`
}

// c14-replay <tlc-output> [selftest]
func c14Replay(args []string) *Result {
	res := &Result{}
	selftest := len(args) > 1 && args[1] == "selftest"
	base, err := os.MkdirTemp(scratchBase(), "vh-c14-")
	if err != nil {
		res.Error = err.Error()
		return res
	}
	defer os.RemoveAll(base)
	proj := filepath.Join(base, "top", "proj")
	must := func(e error) {
		if e != nil && res.Error == "" {
			res.Error = e.Error()
		}
	}
	must(os.MkdirAll(filepath.Join(proj, "aa"), 0o755))
	must(os.WriteFile(filepath.Join(proj, "a"), []byte("TYPE @t any\n"), 0o644))
	must(os.WriteFile(filepath.Join(proj, "aa", "a"), []byte("TYPE @u any\n"), 0o644))
	// decoys outside the project root: touching any of them is a violation
	must(os.WriteFile(filepath.Join(base, "top", "a"), []byte("TYPE @decoy any\n"), 0o644))
	must(os.WriteFile(filepath.Join(base, "a"), []byte("TYPE @decoy any\n"), 0o644))
	must(os.MkdirAll(filepath.Join(base, "top", "aa"), 0o755))
	if res.Error != "" {
		return res
	}
	distinct := map[string]struct{}{}
	ferr := forEachEmitted(args[0], "E", func(js string) error {
		var cs c14Case
		if err := json.Unmarshal([]byte(js), &cs); err != nil {
			return fmt.Errorf("bad emission: %v", err)
		}
		name := string(tapeBytes(cs.Name))
		mustQuote := name == "" || strings.HasPrefix(name, "/") || strings.Contains(name, " ")
		canQuote := !strings.Contains(name, "\\")
		if mustQuote && !canQuote {
			res.count("skipped-quoted-backslash")
			return nil
		}
		res.Cases++
		if selftest {
			if cs.Cls == "accepted" {
				cs.Cls = "dots"
			} else {
				cs.Cls, cs.Outcome = "accepted", "notexist"
			}
		}
		res.count("spec-" + cs.Cls + cs.Outcome)
		distinct[cs.Cls+cs.Outcome+fmt.Sprint(len(cs.Path))] = struct{}{}
		if res.Cases%1500 == 5 {
			res.sample(map[string]any{"name": name, "class": cs.Cls, "outcome": cs.Outcome})
		}
		// the parameter is written bare and quoted (both where possible): the spelling must not matter
		if !mustQuote {
			c14One(res, proj, &cs, name, "INCLUDE "+name+"\n")
		}
		if canQuote && !(selftest && !mustQuote) {
			c14One(res, proj, &cs, name, "INCLUDE \""+name+"\"\n")
		}
		if selftest && res.Cases >= 1000 {
			return errStop
		}
		return nil
	})
	if ferr != nil && ferr != errStop {
		res.Error = ferr.Error()
	}
	res.Nontrivial = len(distinct)
	return res
}

func c14One(res *Result, proj string, cs *c14Case, name, text string) {
	replay := map[string]any{"kind": "c14", "case": cs, "name": name, "root": text}
	var ops []string
	core.VerifFileAccessObserver = func(op, path string) { ops = append(ops, op+" "+path) }
	var je *jerr.JApiError
	panicked := ""
	func() {
		defer func() {
			if r := recover(); r != nil {
				panicked = fmt.Sprint(r)
			}
		}()
		c := core.NewJApiCore(fs.NewFile(filepath.Join(proj, "root.jst"), text))
		je = c.VerifScanOnly()
	}()
	core.VerifFileAccessObserver = nil
	res.count("renderings")
	if panicked != "" {
		res.mismatch("c14:panic", "panic: "+panicked, replay)
		return
	}
	for _, o := range ops {
		pth := o[strings.IndexByte(o, ' ')+1:]
		rel, err := filepath.Rel(proj, pth)
		if err != nil || rel == ".." || strings.HasPrefix(rel, "../") {
			res.mismatch("c14:outside-project", fmt.Sprintf("%q hands %q to the OS, outside the project directory", strings.TrimSpace(text), pth), replay)
			return
		}
	}
	if cs.Cls != "accepted" {
		if len(ops) != 0 {
			res.mismatch("c14:refused-name-consulted-fs", fmt.Sprintf("%q must be refused (%s) before the file system is consulted; code did %v", strings.TrimSpace(text), cs.Cls, ops), replay)
		} else if je == nil || classifyIncErr(je.Msg) != "badname" {
			msg := "accepted"
			if je != nil {
				msg = firstLine(je.Msg)
			}
			res.mismatch("c14:refused-name-not-refused", fmt.Sprintf("%q must be refused (%s); code: %s", strings.TrimSpace(text), cs.Cls, msg), replay)
		} else if je.Line != 1 {
			res.mismatch("c14:error-not-at-include", fmt.Sprintf("%q: error on line %d", strings.TrimSpace(text), je.Line), replay)
		}
		return
	}
	// accepted names: the path consulted is dir(includer)/clean(name)
	segs := make([]string, 0, len(cs.Path))
	for _, s := range cs.Path {
		segs = append(segs, string(tapeBytes(s)))
	}
	want := filepath.Join(append([]string{proj}, segs...)...)
	if len(ops) == 0 || ops[0] != "stat "+want {
		res.mismatch("c14:accepted-name-wrong-path", fmt.Sprintf("%q: expected stat of %q, code did %v (%v)", strings.TrimSpace(text), want, ops, je), replay)
		return
	}
	got := "ok"
	if je != nil {
		got = classifyIncErr(je.Msg)
	}
	if cs.Outcome == "notexist" && got == "param" {
		got = "notexist" // a path component that is a file: "not a directory", also an error at the INCLUDE
	}
	if got != cs.Outcome {
		res.mismatch("c14:outcome-"+cs.Outcome, fmt.Sprintf("%q: spec %s, code %s", strings.TrimSpace(text), cs.Outcome, got), replay)
	} else if je != nil && je.Line != 1 {
		res.mismatch("c14:error-not-at-include", fmt.Sprintf("%q: error on line %d", strings.TrimSpace(text), je.Line), replay)
	}
}
