package main

import (
	"encoding/json"
	"fmt"
	"strings"
)

func init() {
	subcmds["desc-replay"] = descReplay
}

func infoDescription(js []byte) (string, bool) {
	v, err := parseOrdered(js)
	if err != nil {
		return "", false
	}
	top, _ := v.(oobj)
	inf := top.obj("info")
	if inf == nil {
		return "", false
	}
	return inf.str("description"), true
}

// desc-replay <tlc-output> [selftest]: Description texts through the real build in every layout the
// model declares insignificant.
func descReplay(args []string) *Result {
	res := &Result{}
	selftest := len(args) > 1 && args[1] == "selftest"
	err := forEachEmitted(args[0], "E", func(js string) error {
		var cs struct {
			Lines [][]int `json:"lines"`
			Text  []int   `json:"text"`
		}
		if err := json.Unmarshal([]byte(js), &cs); err != nil {
			return err
		}
		res.Cases++
		want := string(tapeBytes(cs.Text))
		if selftest {
			want += "x"
		}
		lines := make([]string, len(cs.Lines))
		for i, l := range cs.Lines {
			lines[i] = string(tapeBytes(l))
		}
		if len(lines) >= 2 {
			res.Nontrivial++
		}
		type variant struct {
			name, eol, ind string
			frame          bool
		}
		for _, v := range []variant{{"lf", "\n", "", false}, {"crlf", "\r\n", "", false}, {"cr", "\r", "", false},
			{"indent2", "\n", "  ", false}, {"indent-tab", "\n", "\t", false}, {"frame", "\n", "", true}, {"frame-crlf", "\r\n", "  ", true}} {
			var sb strings.Builder
			sb.WriteString("JSIGHT 0.3" + v.eol + "INFO" + v.eol + "  Description" + v.eol)
			if v.frame {
				sb.WriteString("(" + v.eol)
			}
			for _, l := range lines {
				if l != "" {
					sb.WriteString(v.ind)
				}
				sb.WriteString(l + v.eol)
			}
			if v.frame {
				sb.WriteString(")" + v.eol)
			}
			sb.WriteString("TYPE @t any" + v.eol)
			text := sb.String()
			o := buildText(text)
			replay := map[string]any{"kind": "desc", "text": text, "variant": v.name, "expected": want}
			res.count(v.name)
			if o.Res != "ok" {
				res.mismatch("desc:"+v.name+"-rejected", fmt.Sprintf("variant %s of %q is rejected: %s", v.name, lines, firstLine(o.Msg)), replay)
				break
			}
			got, ok := infoDescription(o.JSON)
			if !ok || got != want {
				res.mismatch("desc:"+v.name+"-text", fmt.Sprintf("variant %s of %q: description %q, the specification says %q", v.name, lines, got, want), replay)
				break
			}
			if selftest {
				break
			}
		}
		if len(res.Samples) < 3 && res.Cases%2000 == 77 {
			res.sample(map[string]any{"lines": lines, "description": want})
		}
		if selftest && res.Cases >= 300 {
			return errStop
		}
		return nil
	})
	if err != nil && err != errStop {
		res.Error = err.Error()
	}
	return res
}
