package main

import (
	"crypto/sha1"
	"encoding/json"
	"fmt"
	"os"
	"os/exec"
	"sort"
	"strings"

	"github.com/jsightapi/jsight-api-core/core"
	"github.com/jsightapi/jsight-api-core/directive"
)

// texts of the file states of MC_C06
var c06IncText = map[string]string{
	"person1": "TYPE @person\n{\n  \"name\": \"Tom\"\n}\n",
	"person2": "TYPE @person\n{\n  \"name\": \"Tom\",\n  \"age\": 5\n}\n",
	"animal":  "TYPE @animal\n{\n  \"kind\": \"cat\"\n}\n",
	"duptype": "TYPE @person any\nTYPE @person any\n",
	"empty":   "",
}
var c06RootText = map[string]string{
	"usesPerson": "JSIGHT 0.3\nINCLUDE common.jst\nGET /p\n  200 @person\n",
	"usesAny":    "JSIGHT 0.3\nINCLUDE common.jst\nGET /p\n  200 any\n",
	"withMacro":  "JSIGHT 0.3\nINCLUDE common.jst\nMACRO @m\n(\n  200 any\n)\nURL /q\n  GET\n    Query\n    {\"a\": 1}\n    PASTE @m\n",
}

func c06Bans(kinds []string) ([]directive.Enumeration, error) {
	var out []directive.Enumeration
	for _, k := range kinds {
		e, ok := enumOf(k)
		if !ok {
			return nil, fmt.Errorf("kind %s unknown to the directive table", k)
		}
		out = append(out, e)
	}
	return out, nil
}

func c06ObsDigest(o buildObs, base string) string {
	return fmt.Sprintf("%s|%s|%d|%s|%x", o.Res, o.Msg, o.Line, strings.TrimPrefix(o.File, base), sha1.Sum(o.JSON))
}

// digest-bans <root path> <comma separated kinds>: one build in a fresh process with freshly made options
func digestBans(args []string) *Result {
	var kinds []string
	if len(args) > 1 && args[1] != "" {
		kinds = strings.Split(args[1], ",")
	}
	bans, err := c06Bans(kinds)
	if err != nil {
		return &Result{Error: err.Error()}
	}
	var opts []core.Option
	if len(bans) > 0 {
		opts = append(opts, core.WithBannedDirectives(bans...))
	}
	o := buildWith(args[0], opts...)
	base := args[0][:strings.LastIndex(args[0], "/")]
	fmt.Println("DIGEST " + c06ObsDigest(o, base))
	return &Result{}
}

type c06Step struct {
	Inc    string   `json:"inc"`
	Root   string   `json:"root"`
	Opts   []string `json:"opts"`
	Bans   []string `json:"bans"`
	Expect string   `json:"expect"`
}

// c06-hist-replay <tlc-output> [selftest]
// Every history of MC_C06 in this one process: the option values of a history are made once and shared by its builds.
func c06HistReplay(args []string) *Result {
	res := &Result{}
	selftest := len(args) > 1 && args[1] == "selftest"
	base, err := os.MkdirTemp(scratchBase(), "vh-c06h-")
	if err != nil {
		res.Error = err.Error()
		return res
	}
	defer os.RemoveAll(base)
	self, _ := os.Executable()
	rootPath := base + "/root.jst"
	fresh := map[string]string{}
	distinct := map[string]struct{}{}
	ferr := forEachEmitted(args[0], "E", func(js string) error {
		var cs struct {
			H []c06Step `json:"h"`
		}
		if err := json.Unmarshal([]byte(js), &cs); err != nil {
			return fmt.Errorf("bad emission: %v", err)
		}
		res.Cases++
		if len(cs.H) > 1 {
			res.Nontrivial++
		}
		// the option pool of this history
		pool := map[string]core.Option{}
		poolBans := map[string][]string{"A": {"MACRO", "PASTE"}, "B": {"TYPE", "Query"}}
		for nm, kinds := range poolBans {
			bans, err := c06Bans(kinds)
			if err != nil {
				return err
			}
			pool[nm] = core.WithBannedDirectives(bans...)
		}
		var hist []map[string]any
		for si, st := range cs.H {
			ic, ok1 := c06IncText[st.Inc]
			rc, ok2 := c06RootText[st.Root]
			if !ok1 || !ok2 {
				return fmt.Errorf("unknown file state %s / %s", st.Inc, st.Root)
			}
			// the pool's bans must be what the model says they are
			want := map[string]struct{}{}
			for _, o := range st.Opts {
				for _, k := range poolBans[o] {
					want[k] = struct{}{}
				}
			}
			if len(want) != len(st.Bans) {
				return fmt.Errorf("option pool of the harness differs from the model's (%v vs %v)", st.Opts, st.Bans)
			}
			if err := os.WriteFile(base+"/common.jst", []byte(ic), 0o644); err != nil {
				return err
			}
			if err := os.WriteFile(rootPath, []byte(rc), 0o644); err != nil {
				return err
			}
			sort.Strings(st.Bans)
			key := st.Inc + "/" + st.Root + "/" + strings.Join(st.Bans, ",")
			distinct[key] = struct{}{}
			if _, ok := fresh[key]; !ok {
				out, _ := exec.Command(self, "digest-bans", rootPath, strings.Join(st.Bans, ",")).Output()
				for _, l := range splitLines(string(out)) {
					if strings.HasPrefix(l, "DIGEST ") {
						fresh[key] = l[7:]
					}
				}
				if fresh[key] == "" {
					return fmt.Errorf("fresh process gave no digest for %s", key)
				}
			}
			var opts []core.Option
			for _, o := range st.Opts {
				opts = append(opts, pool[o])
			}
			o := buildWith(rootPath, opts...)
			here := c06ObsDigest(o, base)
			hist = append(hist, map[string]any{"include": ic, "root": rc, "options": st.Opts})
			if si < len(cs.H)-1 {
				continue // prefixes are emitted (and judged) on their own
			}
			cls := "ok"
			if o.Res != "ok" {
				cls = classifyBuildErr(o.Msg)
				if o.Res == "panic" {
					cls = "panic"
				}
			}
			res.count("class-" + cls)
			expect := st.Expect
			if selftest {
				expect = map[string]string{"ok": "notallowed", "notallowed": "dupname", "dupname": "typenotfound", "typenotfound": "ok"}[expect]
			}
			replay := map[string]any{"kind": "c06-hist", "history": hist, "pool": poolBans}
			switch {
			case cls != expect:
				res.mismatch("c06:history-class", fmt.Sprintf("step %d of the history: model %s, code %s (%s)", si+1, expect, cls, firstLine(o.Msg)), replay)
			case here != fresh[key]:
				res.mismatch("c06:depends-on-prior-builds", fmt.Sprintf("step %d of the history gives %s; a fresh process with fresh options on the same files gives %s", si+1, clip(here, 90), clip(fresh[key], 90)), replay)
			}
		}
		return nil
	})
	if ferr != nil {
		res.Error = ferr.Error()
	}
	res.Extra = map[string]any{"distinct_keys": len(distinct)}
	return res
}

func clip(s string, n int) string {
	if len(s) > n {
		return s[:n] + "..."
	}
	return s
}

func init() {
	subcmds["digest-bans"] = digestBans
	subcmds["c06-hist-replay"] = c06HistReplay
}
