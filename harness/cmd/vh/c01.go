package main

import (
	"encoding/json"
	"fmt"
	"os"
	"path/filepath"
	"runtime/debug"
	"strings"
	"time"

	"github.com/jsightapi/jsight-schema-core/fs"

	"github.com/jsightapi/jsight-api-core/kit"
)

func init() {
	subcmds["tape-build"] = tapeBuild
	subcmds["fuzz-build"] = fuzzBuild
}

// totalBuild runs the whole build (and, when accepted, the serialisers) and reports a panic.
// Fatal errors (stack overflow) and hangs kill / block the process: the driver isolates workers.
func totalBuild(path string, text []byte) (outcome string, panicMsg string, dur time.Duration) {
	t0 := time.Now()
	defer func() {
		dur = time.Since(t0)
		if r := recover(); r != nil {
			outcome, panicMsg = "panic", fmt.Sprint(r)
			lastPanicStack = string(debug.Stack())
		}
	}()
	var j kit.JApi
	var je interface{ Error() string }
	if text != nil {
		jj, e := kit.NewJApiFromFile(fs.NewFile(path, text))
		j = jj
		if e != nil {
			je = e
			_ = e.Error()
			_ = e.Line + e.Column + e.Index
			_ = e.Quote
		}
	} else {
		jj, e := kit.NewJapi(path)
		j = jj
		if e != nil {
			je = e
			_ = e.Error()
		}
	}
	if je != nil {
		return "error", "", 0
	}
	_, _ = wrapBytes(j.ToJson)
	return "catalog", "", 0
}

var lastPanicStack string

func panicSite(msg string) string {
	// a stable signature: the message without numbers
	var sb strings.Builder
	for _, c := range msg {
		if c >= '0' && c <= '9' {
			continue
		}
		sb.WriteRune(c)
	}
	s := sb.String()
	if len(s) > 60 {
		s = s[:60]
	}
	return s
}

// tape-build <tlc-output>: every tape of the scanner model through the whole build.
func tapeBuild(args []string) *Result {
	res := &Result{}
	err := forEachEmitted(args[0], "E", func(js string) error {
		var cs scanCase
		if err := json.Unmarshal([]byte(js), &cs); err != nil {
			return err
		}
		b := tapeBytes(cs.Tape)
		res.Cases++
		out, pm, _ := totalBuild("root.jst", b)
		res.count(out)
		if out == "panic" {
			res.mismatch("c01:panic:"+panicSite(pm), fmt.Sprintf("building %q panics: %s", string(b), pm), map[string]any{"kind": "c01-text", "text": string(b), "bytes": cs.Tape})
		}
		if len(cs.Out) >= 2 {
			res.Nontrivial++
		}
		if len(res.Samples) < 2 && res.Cases%70000 == 11 {
			res.sample(map[string]any{"text": string(b), "outcome": out})
		}
		return nil
	})
	if err != nil {
		res.Error = err.Error()
	}
	return res
}

var dslWords = []string{"JSIGHT", "0.3", "INFO", "Title", "Version", "Description", "SERVER", "BaseUrl", "URL", "GET", "POST", "PUT", "PATCH", "DELETE",
	"Body", "Request", "200", "404", "599", "Path", "Headers", "Query", "TYPE", "ENUM", "MACRO", "PASTE", "INCLUDE", "Protocol", "Method", "Params", "Result", "TAG", "Tags", "OperationId",
	"@a", "@b", "@cat", "[@a]", "/a", "/a/{id}", "/{x}/{x}", "/", "any", "empty", "regex", "jsight", "json-rpc-2.0", "\"q=1\"", "\"", "(", ")", "//", "/*", "*/", "#", "###",
	"{", "}", "{}", "[", "]", "[1]", "{\"k\": 1}", "{\"k\": @a}", "{\"id\": 1}", "@a | @b", "/ab+/", "/(/", "// {enum: @e}", "// {type: \"string\"}", "x.jst", "a.jst", "b.jst", "..", "\"\"", "\\", "\x00", "\xff\xfe", "\r", "\t"}

func fuzzCase(seed, k int, corpus []string, dir string) (path string, text []byte, desc string) {
	r := newRng(uint64(seed)*1000003 + uint64(k))
	switch k % 8 {
	case 7: // a well-formed skeleton whose slots hold unusual values: the build phase is reached
		return "root.jst", []byte(oddSkeleton(r)), "well-formed skeleton with unusual values"
	case 6: // long lines made of runs of one byte (limits of the error quote, UTF-8 boundaries), with or without a final line break
		var sb strings.Builder
		if r.intn(3) > 0 {
			sb.WriteString("JSIGHT 0.3\n")
		}
		for i, n := 0, 1+r.intn(3); i < n; i++ {
			if r.intn(2) == 0 {
				sb.WriteString(dslWords[r.intn(len(dslWords))] + " ")
			}
			c := []byte{0x80, 0xBF, 0xA0, 0xC3, 0xE2, 0xF0, 0xFF, 'a', ' ', '/', '#', '"', '{', 0x00}[r.intn(14)]
			ln := []int{150, 190, 196, 197, 198, 199, 200, 201, 202, 203, 260, 420}[r.intn(12)]
			sb.WriteString(strings.Repeat(string([]byte{c}), ln))
			if i < n-1 || r.intn(2) == 0 {
				sb.WriteString([]string{"\n", "\r\n", "\r"}[r.intn(3)])
			}
		}
		return "root.jst", []byte(sb.String()), "long runs"
	case 0: // random bytes
		n := r.intn(200)
		b := make([]byte, n)
		for i := range b {
			b[i] = byte(r.intn(256))
		}
		return "root.jst", b, "random bytes"
	case 1: // random DSL words
		var sb strings.Builder
		for i, n := 0, r.intn(40); i < n; i++ {
			sb.WriteString(dslWords[r.intn(len(dslWords))])
			sb.WriteString([]string{" ", "\n", "\n  ", "", "\r\n", " \t"}[r.intn(6)])
		}
		return "root.jst", []byte(sb.String()), "random directive words"
	case 2, 3: // mutated / truncated / spliced corpus file
		if len(corpus) == 0 {
			return "root.jst", []byte{}, "empty"
		}
		b, _ := os.ReadFile(corpus[r.intn(len(corpus))])
		if k%8 == 3 {
			o, _ := os.ReadFile(corpus[r.intn(len(corpus))])
			b = append(b[:r.intn(len(b)+1)], o[r.intn(len(o)+1):]...)
		}
		for i, n := 0, 1+r.intn(4); i < n && len(b) > 0; i++ {
			p := r.intn(len(b))
			switch r.intn(5) {
			case 0:
				b[p] = byte(r.intn(256))
			case 1:
				b[p] = "\r\n\x00()#/\"{}@"[r.intn(11)]
			case 2:
				b = append(b[:p], b[p+1:]...)
			case 3:
				b = b[:p]
			case 4:
				w := dslWords[r.intn(len(dslWords))]
				b = append(b[:p], append([]byte(w), b[p:]...)...)
			}
		}
		return "root.jst", b, "mutated corpus file"
	case 4: // include graphs on disk
		names := []string{"root.jst", "a.jst", "b.jst", "sub/c.jst"}
		_ = os.MkdirAll(filepath.Join(dir, "sub"), 0o755)
		for _, n := range names {
			var sb strings.Builder
			if n == "root.jst" && r.intn(4) > 0 {
				sb.WriteString("JSIGHT 0.3\n")
			}
			for i, m := 0, r.intn(6); i < m; i++ {
				switch r.intn(5) {
				case 0:
					sb.WriteString("INCLUDE " + []string{"a.jst", "b.jst", "sub/c.jst", "c.jst", "root.jst", "../root.jst", "missing.jst", "sub", "\"\"", "..", "/etc/passwd", "a.jst extra", "a.jst // note"}[r.intn(13)] + "\n")
				case 1:
					sb.WriteString("TYPE @t" + fmt.Sprint(r.intn(3)) + " any\n")
				case 2:
					sb.WriteString("URL /u" + fmt.Sprint(r.intn(3)) + "\n(\n")
				case 3:
					sb.WriteString(")\n")
				case 4:
					sb.WriteString(dslWords[r.intn(len(dslWords))] + "\n")
				}
			}
			_ = os.WriteFile(filepath.Join(dir, n), []byte(sb.String()), 0o644)
		}
		return filepath.Join(dir, "root.jst"), nil, "include graph on disk"
	default: // special roots
		switch r.intn(5) {
		case 0:
			return filepath.Join(dir, "does-not-exist.jst"), nil, "missing root file"
		case 1:
			_ = os.WriteFile(filepath.Join(dir, "empty.jst"), nil, 0o644)
			return filepath.Join(dir, "empty.jst"), nil, "empty root file"
		case 2:
			return dir, nil, "directory as root"
		case 3:
			return "root.jst", []byte{0, 0, 0}, "NUL bytes"
		default:
			return "root.jst", []byte("\xef\xbb\xbfJSIGHT 0.3\n"), "BOM"
		}
	}
}

var oddSegs = []string{".", ".", "..", "a", "b", "{x}", "{y}", "{}", "{x", "x}", "{@t}", "@t", "%41", "~", "a.b", "{a.b}", "{x}{y}", "\xd0\xb8", "{\xd0\xb8}", "a b", "*", "{.}", "...", "-"}

func oddPath(r *rng) string {
	var sb strings.Builder
	for i, n := 0, 1+r.intn(4); i < n; i++ {
		sb.WriteByte('/')
		sb.WriteString(oddSegs[r.intn(len(oddSegs))])
	}
	if r.intn(6) == 0 {
		sb.WriteByte('/')
	}
	p := sb.String()
	if strings.ContainsAny(p, " ") || r.intn(8) == 0 {
		return `"` + p + `"`
	}
	return p
}

// oddSkeleton: JSIGHT, optional declarations, then 1-3 resources (stand-alone method / URL with a method / JSON-RPC URL),
// each with an unusual path, optional Path / Tags / Query / OperationId and responses with unusual codes and annotations.
func oddSkeleton(r *rng) string {
	var sb strings.Builder
	sb.WriteString("JSIGHT 0.3\n")
	if r.intn(2) == 0 {
		sb.WriteString("TYPE @t\n" + []string{"{\"k\": 1}", "1", "\"s\"", "@t | @u", "[1]", "{\"x\": @t} // {optional: true}"}[r.intn(6)] + "\n")
	}
	if r.intn(3) == 0 {
		sb.WriteString("TYPE @u regex\n/" + []string{"a+", "[a-z]{2}", "\\d", "x|y"}[r.intn(4)] + "/\n")
	}
	if r.intn(3) == 0 {
		sb.WriteString("TAG @g" + []string{"", " // \xc2\xa0title", " // t"}[r.intn(3)] + "\n")
	}
	ann := func() string {
		return []string{"", "", " // note", " /* multi\n   line */", " // \xe2\x80\xa8", " // a  \t b"}[r.intn(6)]
	}
	code := func() string {
		return []string{"200", "200", "404", "100", "599", "204", "200", "404", "20:", "40=", "10A", "600", "099", "2000", "59/"}[r.intn(15)]
	}
	for i, n := 0, 1+r.intn(3); i < n; i++ {
		p := oddPath(r)
		switch r.intn(4) {
		case 0, 1:
			sb.WriteString([]string{"GET", "POST", "PUT", "PATCH", "DELETE"}[r.intn(5)] + " " + p + ann() + "\n")
		case 2:
			sb.WriteString("URL " + p + "\n")
			if r.intn(3) == 0 {
				sb.WriteString("  Tags @g\n")
			}
			sb.WriteString("  " + []string{"GET", "POST"}[r.intn(2)] + ann() + "\n")
		default:
			sb.WriteString("URL " + p + "\n  Protocol json-rpc-2.0\n  Method " + []string{"foo", "a.b", "\"x y\"", "\xd0\xb8"}[r.intn(4)] + ann() + "\n")
			sb.WriteString("    Params\n    " + []string{"{}", "[1]", "@t", "{\"a\": 1}"}[r.intn(4)] + "\n")
			if r.intn(2) == 0 {
				sb.WriteString("    Result\n    " + []string{"1", "@t", "{\"r\": @u}"}[r.intn(3)] + "\n")
			}
			continue
		}
		if r.intn(3) == 0 {
			sb.WriteString("    Path\n    " + []string{"{\"x\": 1}", "{\"y\": \"s\"}", "{\"x\": @t}", "{\"x\": 1, \"y\": 2}", "{\"@t\": 1}", "{\"a.b\": 1}", "@t"}[r.intn(7)] + "\n")
		}
		if r.intn(4) == 0 {
			sb.WriteString("    Query " + []string{"\"q=1\"", "q=1", "\"\""}[r.intn(3)] + "\n    {\"q\": 1}\n")
		}
		if r.intn(5) == 0 {
			sb.WriteString("    OperationId " + []string{"op", "\"o p\"", "\xd0\xb8"}[r.intn(3)] + "\n")
		}
		for j, m := 0, 1+r.intn(2); j < m; j++ {
			sb.WriteString("    " + code() + " " + []string{"any", "@t", "[@t]", "empty", "@u"}[r.intn(5)] + ann() + "\n")
		}
	}
	return sb.String()
}

// fuzz-build <repo> <seed> <from> <to>: cases from..to-1 of the seeded fuzz stream.
func fuzzBuild(args []string) *Result {
	res := &Result{}
	corpus := corpusFiles(args[0])
	seed, from, to := atoi(args[1]), atoi(args[2]), atoi(args[3])
	dir, err := os.MkdirTemp(scratchBase(), "vh-c01-")
	if err != nil {
		res.Error = err.Error()
		return res
	}
	defer os.RemoveAll(dir)
	for k := from; k < to; k++ {
		path, text, desc := fuzzCase(seed, k, corpus, dir)
		res.Cases++
		out, pm, dur := totalBuild(path, text)
		res.count(desc + ":" + out)
		n := len(text)
		if out == "panic" {
			res.mismatch("c01:panic:"+panicSite(pm), fmt.Sprintf("fuzz case %d (%s) panics: %s", k, desc, pm), map[string]any{"kind": "c01-fuzz", "seed": seed, "case": k, "text": string(text), "path": path, "stack": lastPanicStack})
		} else if dur > 2*time.Second+time.Duration(n)*50*time.Microsecond {
			res.mismatch("c01:slow", fmt.Sprintf("fuzz case %d (%s, %d bytes) took %v", k, desc, n, dur), map[string]any{"kind": "c01-fuzz", "seed": seed, "case": k, "text": string(text)})
		}
		if out != "error" || k%7 >= 4 {
			res.Nontrivial++
		}
		if len(res.Samples) < 3 && k%997 == 3 {
			res.sample(map[string]any{"case": k, "kind": desc, "outcome": out, "text": clip(string(text), 300)})
		}
	}
	return res
}
