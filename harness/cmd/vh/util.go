package main

import (
	"bufio"
	"encoding/json"
	"os"
	"strconv"
)

func atoi(s string) int {
	n, err := strconv.Atoi(s)
	if err != nil {
		panic("bad integer argument " + s)
	}
	return n
}

// rng is a small deterministic generator (splitmix64) so that runs are
// reproducible from VERIF_SEED alone.
type rng struct{ s uint64 }

func newRng(seed uint64) *rng { return &rng{seed*0x9E3779B97F4A7C15 + 0x1234567} }

func (r *rng) next() uint64 {
	r.s += 0x9E3779B97F4A7C15
	z := r.s
	z = (z ^ (z >> 30)) * 0xBF58476D1CE4E5B9
	z = (z ^ (z >> 27)) * 0x94D049BB133111EB
	return z ^ (z >> 31)
}

func (r *rng) intn(n int) int {
	if n <= 0 {
		return 0
	}
	return int(r.next() % uint64(n))
}

func (r *rng) pick(ss []string) string { return ss[r.intn(len(ss))] }

type ndjson struct {
	f *os.File
	w *bufio.Writer
	n int
}

func newNDJSON(path string) *ndjson {
	f, err := os.Create(path)
	if err != nil {
		panic(err)
	}
	return &ndjson{f: f, w: bufio.NewWriterSize(f, 1<<20)}
}

func (n *ndjson) write(v any) {
	b, err := json.Marshal(v)
	if err != nil {
		panic(err)
	}
	n.w.Write(b)
	n.w.WriteByte('\n')
	n.n++
}

func (n *ndjson) close() {
	n.w.Flush()
	n.f.Close()
}
