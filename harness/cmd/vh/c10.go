package main

import (
	"bytes"
	"encoding/json"
	"fmt"
	"sort"
	"strings"

	"github.com/jsightapi/jsight-schema-core/fs"

	"github.com/jsightapi/jsight-api-core/core"
	"github.com/jsightapi/jsight-api-core/jerr"
	"github.com/jsightapi/jsight-api-core/kit"
)

func init() {
	subcmds["c10-replay"] = c10Replay
}

type shapeNode struct {
	K      string   `json:"k"`
	P      []string `json:"p"`
	A      string   `json:"a"`
	B      string   `json:"b"`
	C      string   `json:"c"`
	E      bool     `json:"e"`
	Parent int      `json:"parent"`
}

type c10Case struct {
	Doc  []Tok  `json:"doc"`
	TRes string `json:"tres"`
	X    struct {
		Res    string      `json:"res"`
		ErrTok int         `json:"errTok"`
		Shape  []shapeNode `json:"shape"`
	} `json:"x"`
	Inl struct {
		OK   bool  `json:"ok"`
		Toks []Tok `json:"toks"`
	} `json:"inl"`
}

// classifyErr maps a real error message to the specification's error classes.
func classifyErr(msg string) string {
	first := msg
	if i := strings.IndexByte(first, '\n'); i >= 0 {
		first = first[:i]
	}
	has := func(s string) bool { return strings.Contains(first, s) }
	switch {
	case has(jerr.IncorrectDirectiveContext):
		return "ctxerr"
	case has(jerr.ThereIsNoExplicitContextForClosure):
		return "noctx"
	case has(jerr.ContextNotClosed):
		return "unclosed"
	case has(jerr.AnnotationIsForbiddenForTheDirective):
		return "annotation"
	case has(jerr.RequiredParameterNotSpecified):
		return "noparam"
	case has("the macros cannot be empty"):
		return "macroempty"
	case has("has already been declared before"):
		return "dupname"
	case has(jerr.MacroNotFound):
		return "nomacro"
	case has("recursion is detected"):
		return "recursion"
	case has(jerr.IncludeDirectiveErr):
		return "include-jsight"
	case has(jerr.DirectiveNotAllowed):
		return "notallowed"
	}
	return "other:" + first
}

type flatNode struct {
	K, A, C string
	E       bool
	HasBody bool
	Parent  int
	Params  []string
}

func flatten(nn []*core.VerifNode, parent int, out *[]flatNode) {
	for _, n := range nn {
		f := flatNode{K: modelKind(n.Kind), A: n.Annotation, E: n.Explicit, HasBody: n.HasBody, Parent: parent}
		if f.K == "RESP" {
			f.C = n.Keyword
		}
		for _, v := range n.Named {
			f.Params = append(f.Params, v)
		}
		f.Params = append(f.Params, n.Unnamed...)
		sort.Strings(f.Params)
		*out = append(*out, f)
		flatten(n.Children, len(*out), out)
	}
}

func shapeMatches(spec []shapeNode, real []flatNode) (bool, string) {
	if len(spec) != len(real) {
		return false, fmt.Sprintf("expanded tree has %d nodes, spec says %d", len(real), len(spec))
	}
	for i := range spec {
		s, r := spec[i], real[i]
		want := paramValues(Tok{K: s.K, P: s.P})
		sort.Strings(want)
		if s.K != r.K || s.E != r.E || s.Parent != r.Parent || s.A != r.A || s.C != r.C || (s.B != "") != r.HasBody ||
			strings.Join(want, "\x00") != strings.Join(r.Params, "\x00") {
			return false, fmt.Sprintf("node %d: spec %+v code %+v", i+1, s, r)
		}
	}
	return true, ""
}

type expandObs struct {
	Res  string
	Line int
	Msg  string
	Flat []flatNode
}

func observeExpand(text string) (o expandObs) {
	defer func() {
		if r := recover(); r != nil {
			o.Res = fmt.Sprint("panic:", r)
		}
	}()
	c := core.NewJApiCore(fs.NewFile("root.jst", text))
	je := c.VerifScanOnly()
	if je == nil {
		je = c.VerifExpand()
	}
	if je != nil {
		o.Res, o.Line, o.Msg = classifyErr(je.Msg), int(je.Line), je.Msg
		return o
	}
	o.Res = "ok"
	flatten(c.VerifExpandedTree(), 0, &o.Flat)
	return o
}

type buildObs struct {
	Res  string // ok | err | panic
	JSON []byte
	Msg  string
	Line int
	File string
	Err  *jerr.JApiError
}

// buildText builds a single-file project through the public entry point.
func buildText(text string) (o buildObs) {
	defer func() {
		if r := recover(); r != nil {
			o.Res, o.Msg = "panic", fmt.Sprint(r)
		}
	}()
	j, je := kit.NewJApiFromFile(fs.NewFile("root.jst", text))
	if je != nil {
		o.Res, o.Msg, o.Line, o.Err = "err", je.Msg, int(je.Line), je
		if je.File != nil {
			o.File = je.File.Name()
		}
		return o
	}
	b, err := j.ToJson()
	if err != nil {
		o.Res, o.Msg = "tojson-err", err.Error()
		return o
	}
	o.Res, o.JSON = "ok", b
	return o
}

func firstLine(s string) string {
	if i := strings.IndexByte(s, '\n'); i >= 0 {
		return s[:i]
	}
	return s
}

// c10-replay <tlc-output> [selftest]
func c10Replay(args []string) *Result {
	res := &Result{}
	if err := loadPools(args[0]); err != nil {
		res.Error = err.Error()
		return res
	}
	selftest := len(args) > 1 && args[1] == "selftest"
	distinct := map[string]struct{}{}
	err := forEachEmitted(args[0], "E", func(js string) error {
		var cs c10Case
		if err := json.Unmarshal([]byte(js), &cs); err != nil {
			return fmt.Errorf("bad emission: %v", err)
		}
		res.Cases++
		hasPaste := false
		for _, t := range cs.Doc {
			if t.K == "PASTE" || t.K == "MACRO" {
				hasPaste = true
			}
		}
		if selftest {
			if cs.X.Res == "ok" {
				if len(cs.X.Shape) > 0 {
					cs.X.Shape[len(cs.X.Shape)-1].Parent++
				} else {
					cs.X.Res = "nomacro"
				}
			} else {
				cs.X.Res = "ok"
			}
		}
		rd := renderTokens(cs.Doc, false, canon)
		replay := map[string]any{"kind": "c10", "case": cs, "doc": rd.text}
		o := observeExpand(rd.text)
		res.count("spec-" + cs.X.Res)
		if hasPaste {
			distinct[cs.X.Res+fmt.Sprint(len(cs.X.Shape))+lexShapeToks(cs.Doc)] = struct{}{}
		}
		switch {
		case strings.HasPrefix(o.Res, "panic"):
			res.mismatch("c10:"+o.Res, "scan+expand "+o.Res, replay)
		case cs.X.Res == "ok":
			if o.Res != "ok" {
				res.mismatch("c10:spec-ok-code-"+o.Res, fmt.Sprintf("spec: expansion succeeds; code: %s (%s) line %d", o.Res, firstLine(o.Msg), o.Line), replay)
			} else if ok, what := shapeMatches(cs.X.Shape, o.Flat); !ok {
				res.mismatch("c10:shape", "expanded tree differs from the in-place document: "+what, replay)
			}
		default:
			if o.Res != cs.X.Res {
				res.mismatch("c10:spec-"+cs.X.Res+"-code-"+o.Res, fmt.Sprintf("spec: %s at token %d; code: %s (%s) line %d", cs.X.Res, cs.X.ErrTok, o.Res, firstLine(o.Msg), o.Line), replay)
			} else if cs.X.ErrTok >= 1 && cs.X.ErrTok <= len(rd.tokLine) && o.Line != rd.tokLine[cs.X.ErrTok-1] {
				res.mismatch("c10:line-"+cs.X.Res, fmt.Sprintf("%s reported at line %d, spec says token %d on line %d", cs.X.Res, o.Line, cs.X.ErrTok, rd.tokLine[cs.X.ErrTok-1]), replay)
			}
		}
		// whole build: macro form vs in-place form
		if cs.Inl.OK && !selftest && hasPaste {
			a := buildText("JSIGHT 0.3\n" + rd.text)
			bt := renderTokens(cs.Inl.Toks, false, canon)
			b := buildText("JSIGHT 0.3\n" + bt.text)
			res.count("build-" + a.Res)
			replay2 := map[string]any{"kind": "c10-build", "doc": "JSIGHT 0.3\n" + rd.text, "inline": "JSIGHT 0.3\n" + bt.text}
			switch {
			case a.Res == "panic" || b.Res == "panic" || a.Res == "tojson-err" || b.Res == "tojson-err":
				res.drift(fmt.Sprintf("build %s/%s: %s | %s", a.Res, b.Res, a.Msg, b.Msg)) // owned by C01/C04
			case a.Res != b.Res:
				res.mismatch("c10:build-verdict", fmt.Sprintf("macro form: %s (%s); in-place form: %s (%s)", a.Res, firstLine(a.Msg), b.Res, firstLine(b.Msg)), replay2)
			case a.Res == "ok" && !bytes.Equal(a.JSON, b.JSON):
				res.mismatch("c10:build-catalog", "catalog of the macro form differs from the catalog of the in-place form", replay2)
			case a.Res == "err" && firstLine(a.Msg) != firstLine(b.Msg):
				// both forms are rejected; C10 does not fix which of several faults is reported first
				res.drift(fmt.Sprintf("macro form error %q; in-place form error %q", firstLine(a.Msg), firstLine(b.Msg)))
			}
		}
		if hasPaste && res.Cases%20000 == 3 {
			res.sample(map[string]any{"doc": rd.text, "spec": cs.X.Res, "nodes": len(cs.X.Shape)})
		}
		if selftest && res.Cases >= 2000 {
			return errStop
		}
		return nil
	})
	if err != nil && err != errStop {
		res.Error = err.Error()
	}
	res.Nontrivial = len(distinct)
	return res
}

func lexShapeToks(tt []Tok) string {
	var sb strings.Builder
	for _, t := range tt {
		sb.WriteString(t.K)
		if t.E {
			sb.WriteByte('(')
		}
		if len(t.P) > 0 {
			sb.WriteString(t.P[0])
		}
		sb.WriteByte(' ')
	}
	return sb.String()
}
