package main

import (
	"fmt"
	"os"
	"path/filepath"
	"sort"
	"strings"
)

func init() {
	subcmds["corpus-skeletons"] = corpusSkeletons
}

// corpusFiles lists the .jst files of the repository's test data (root files only).
func corpusFiles(repo string) []string {
	var out []string
	_ = filepath.Walk(filepath.Join(repo, "testdata"), func(p string, info os.FileInfo, err error) error {
		if err == nil && !info.IsDir() && strings.HasSuffix(p, ".jst") {
			out = append(out, p)
		}
		return nil
	})
	sort.Strings(out)
	return out
}

// corpus-skeletons <repo> <out.ndjson> [corrupt]: build every corpus file; for the accepted ones log
// the catalog skeleton (plus the {parameters} of each path) for validation by Trace_C05.tla.
func corpusSkeletons(args []string) *Result {
	res := &Result{}
	corrupt := len(args) > 2 && args[2] == "corrupt"
	w := newNDJSON(args[1])
	defer w.close()
	for _, f := range corpusFiles(args[0]) {
		o := buildProject(f)
		res.Cases++
		res.count("corpus-" + o.Res)
		if o.Res != "ok" {
			continue
		}
		sk, err := projectCatalog(o.JSON)
		if err != nil {
			res.mismatch("c05:catalog-shape", "catalog JSON of "+f+" does not have the JDoc Exchange shape: "+err.Error(), map[string]any{"kind": "corpus", "file": f})
			continue
		}
		for _, iv := range sk["inters"].([]any) {
			x := iv.(M)
			pp := []any{}
			if x["proto"] == "http" {
				for _, p := range pathParamsOf(fmt.Sprint(x["path"])) {
					pp = append(pp, p)
				}
			}
			x["pp"] = pp
		}
		if bad := checkC05(o.JSON); len(bad) > 0 {
			res.mismatch("c05:"+short(bad[0]), f+": "+strings.Join(bad, "; "), map[string]any{"kind": "corpus", "file": f})
		}
		if corrupt && res.Nontrivial == 3 {
			sk["jsight"] = "0.2"
		}
		w.write(M{"file": strings.TrimPrefix(f, args[0]), "skel": sk})
		res.Nontrivial++
		if len(res.Samples) < 2 {
			res.sample(M{"file": strings.TrimPrefix(f, args[0]), "interactions": len(sk["inters"].([]any))})
		}
	}
	res.Extra = map[string]any{"logged": w.n}
	return res
}
