package main

import (
	"encoding/json"
	"fmt"
	"strings"
)

func init() {
	subcmds["c17-matrix"] = c17Matrix
}

type c17Cell struct {
	Level    string `json:"level"`
	Rule     string `json:"rule"`
	Value    string `json:"value"`
	Example  string `json:"example"`
	Shortcut bool   `json:"shortcut"`
	Place    string `json:"place"`
}

func c17Document(c c17Cell) string {
	var body string
	if c.Level == "prop" {
		body = "{\n  \"k\": " + c.Example + " // {" + c.Rule + ": " + c.Value + "}\n}"
	} else {
		extra := ""
		if c.Shortcut {
			extra = ",\n  @catEmail : 1"
		}
		body = "{ // {" + c.Rule + ": " + c.Value + "}\n  \"k\": 1" + extra + "\n}"
	}
	head := "JSIGHT 0.3\nTYPE @cat\n{\n  \"name\": \"Tom\"\n}\nTYPE @dog\n{\n  \"bark\": true\n}\nTYPE @catEmail\n\"a@b.c\" // {type: \"email\"}\nENUM @colors\n[\"red\", \"blue\"]\n"
	switch c.Place {
	case "TYPE":
		return head + "TYPE @x\n" + body + "\nGET /a\n  200 @x\n"
	case "RESP":
		return head + "GET /a\n  200\n" + indent(body, "  ") + "\n"
	default:
		return head + "POST /a\n  Request\n" + indent(body, "  ") + "\n  200 any\n"
	}
}

// c17-matrix <tlc-output> [selftest]
func c17Matrix(args []string) *Result {
	res := &Result{}
	selftest := len(args) > 1 && args[1] == "selftest"
	err := forEachEmitted(args[0], "E", func(js string) error {
		var c c17Cell
		if err := json.Unmarshal([]byte(js), &c); err != nil {
			return err
		}
		res.Cases++
		text := c17Document(c)
		src := projSrc{name: fmt.Sprintf("cell:%s/%s=%s/%s", c.Level, c.Rule, c.Value, c.Place), text: text}
		j, ok, msg := src.build()
		if !ok {
			if strings.HasPrefix(msg, "panic") {
				res.drift(src.name + ": build " + msg)
			}
			res.count("rejected-by-build")
			return nil
		}
		res.Nontrivial++
		res.count("accepted")
		replay := map[string]any{"kind": "c17-cell", "cell": c, "text": text}
		if selftest {
			res.mismatch("c17:selftest", "", replay)
			return nil
		}
		if _, eo := wrapBytes(j.ToOpenAPIJson); eo != "" && !strings.HasPrefix(eo, "panic") {
			res.count("export-error-value")
		}
		jj, _, _ := src.build()
		if sig, what := checkC17(&jj); sig != "" {
			res.mismatch(sig+":"+c.Rule+"="+c.Value, src.name+": "+what, replay)
		}
		jj2, _, _ := src.build()
		if _, eo := wrapBytes(jj2.ToOpenAPIJsonIndent); strings.HasPrefix(eo, "panic") {
			res.mismatch("c17:panic-indent:"+c.Rule+"="+c.Value, src.name+": ToOpenAPIJsonIndent "+eo, replay)
		}
		if len(res.Samples) < 3 && res.Nontrivial%40 == 5 {
			res.sample(map[string]any{"cell": src.name, "text": text})
		}
		return nil
	})
	if err != nil {
		res.Error = err.Error()
	}
	return res
}
