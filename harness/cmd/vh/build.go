package main

import (
	"fmt"

	"github.com/jsightapi/jsight-api-core/kit"
)

func init() {
	subcmds["build"] = func(args []string) *Result {
		j, je := kit.NewJapi(args[0])
		if je != nil {
			fmt.Printf("ERROR %q file=%s index=%d line=%d col=%d quote=%q\n%s\n", je.Msg, je.File.Name(), je.Index, je.Line, je.Column, je.Quote, je.Error())
			return &Result{}
		}
		b, err := j.ToJsonIndent()
		if err != nil {
			fmt.Println("TOJSON ERROR", err)
		}
		fmt.Println(string(b))
		if len(args) > 1 {
			b, err = j.ToOpenAPIJsonIndent()
			fmt.Println(string(b), err)
		}
		return &Result{}
	}
}
