package main

import (
	"crypto/sha1"
	"fmt"
	"os"
	"runtime"
	"sync"
	"sync/atomic"

	"github.com/jsightapi/jsight-api-core/kit"
)

func init() {
	subcmds["conc-stress"] = concStress
}

type concEvent struct {
	Ev      string `json:"ev"`      // call
	G       int    `json:"g"`       // goroutine
	Seq     int    `json:"seq"`     // per-goroutine sequence number
	Project string `json:"project"` // project name
	Acc     string `json:"acc"`     // accessor or "Build"
	Digest  string `json:"digest"`  // digest of the returned bytes / error
	Want    string `json:"want"`    // digest of the sequential result
	Phase   string `json:"phase"`   // independent | shared
}

func dig(b []byte, es string) string {
	return fmt.Sprintf("%x", sha1.Sum(append(append([]byte{}, b...), es...)))[:16]
}

var accOrder = []string{"ToJson", "ToJsonIndent", "ToOpenAPIJson", "ToOpenAPIJsonIndent", "Title"}

// conc-stress <source> <seed> <rounds> <goroutines> <out.ndjson> [nocompare-example]
// Phase "independent": G goroutines build different projects at the same time and serialise them.
// Phase "shared": one catalog is built, then G goroutines serialise it at the same time (first
// serialisation included).  Every result is compared with the sequential baseline.
func concStress(args []string) *Result {
	res := &Result{}
	srcs, err := loadSources(args[0])
	if err != nil {
		res.Error = err.Error()
		return res
	}
	seed, rounds, G := atoi(args[1]), atoi(args[2]), atoi(args[3])
	buildRepeat := 1
	fmt.Sscan(os.Getenv("VH_BUILD_REPEAT"), &buildRepeat)
	w := newNDJSON(args[4])
	defer w.close()
	r := newRng(uint64(seed))
	// accepted projects and their sequential results
	type base struct {
		src  projSrc
		want map[string]string
	}
	var bases []base
	for _, s := range srcs {
		j, ok, _ := s.build()
		if !ok {
			continue
		}
		_ = j
		want := map[string]string{}
		for _, a := range accOrder {
			jj, _, _ := s.build()
			b, es := accessors[a](&jj)
			want[a] = dig(b, es)
		}
		bases = append(bases, base{s, want})
	}
	if len(bases) < 2 {
		res.Error = "not enough accepted projects"
		return res
	}
	runtime.GOMAXPROCS(runtime.NumCPU())
	var mu sync.Mutex
	var events []concEvent
	var bad int64
	record := func(e concEvent) {
		mu.Lock()
		events = append(events, e)
		mu.Unlock()
		if e.Digest != e.Want {
			atomic.AddInt64(&bad, 1)
		}
	}
	for round := 0; round < rounds; round++ {
		// ---- independent projects
		var wg sync.WaitGroup
		start := make(chan struct{})
		for g := 0; g < G; g++ {
			b := bases[r.intn(len(bases))]
			order := []string{accOrder[r.intn(5)], accOrder[r.intn(5)], accOrder[r.intn(5)]}
			wg.Add(1)
			go func(g int, b base, order []string) {
				defer wg.Done()
				<-start
				// VH_BUILD_REPEAT > 1: the goroutine rebuilds its project in a tight loop first (many overlapping builds)
				for rep := 1; rep < buildRepeat; rep++ {
					jr, okr, msgr := b.src.build()
					if !okr {
						record(concEvent{Ev: "call", G: g, Seq: 0, Project: b.src.name, Acc: "Build", Digest: "rejected:" + msgr, Want: "accepted", Phase: "independent"})
						return
					}
					out, es := accessors["ToJson"](&jr)
					if d := dig(out, es); d != b.want["ToJson"] {
						record(concEvent{Ev: "call", G: g, Seq: 0, Project: b.src.name, Acc: "ToJson", Digest: d, Want: b.want["ToJson"], Phase: "independent"})
						return
					}
				}
				// a build of its own next to the others: a small project whose response codes no build of this process has
				// seen before (whatever the library remembers per keyword is written for the first time here, concurrently)
				fresh := fmt.Sprintf("JSIGHT 0.3\nGET /fresh%d\n  %d any\n  %d any\n", g, 201+(round*G+g)%398, 201+(round*G+g+199)%398)
				if _, okf, msgf := (projSrc{name: "fresh-codes", text: fresh}).build(); !okf {
					record(concEvent{Ev: "call", G: g, Seq: 0, Project: "fresh-codes", Acc: "Build", Digest: "rejected:" + msgf, Want: "accepted", Phase: "independent"})
					return
				}
				j, ok, msg := b.src.build()
				if !ok {
					record(concEvent{Ev: "call", G: g, Seq: 0, Project: b.src.name, Acc: "Build", Digest: "rejected:" + msg, Want: "accepted", Phase: "independent"})
					return
				}
				for i, a := range order {
					out, es := accessors[a](&j)
					record(concEvent{Ev: "call", G: g, Seq: i + 1, Project: b.src.name, Acc: a, Digest: dig(out, es), Want: b.want[a], Phase: "independent"})
				}
			}(g, b, order)
		}
		close(start)
		wg.Wait()
		// ---- one shared catalog
		b := bases[r.intn(len(bases))]
		j, _, _ := b.src.build()
		start2 := make(chan struct{})
		for g := 0; g < G; g++ {
			a := accOrder[r.intn(4)]
			wg.Add(1)
			go func(g int, a string, j *kit.JApi) {
				defer wg.Done()
				<-start2
				for i := 0; i < 2; i++ {
					out, es := accessors[a](j)
					record(concEvent{Ev: "call", G: g, Seq: i + 1, Project: b.src.name, Acc: a, Digest: dig(out, es), Want: b.want[a], Phase: "shared"})
				}
			}(g, a, &j)
		}
		close(start2)
		wg.Wait()
	}
	seen := map[string]bool{}
	for _, e := range events {
		w.write(e)
		res.Cases++
		if e.Digest != e.Want {
			sig := "c18:" + e.Phase + ":" + e.Acc + "-differs-from-sequential"
			if !seen[sig+e.Project] {
				seen[sig+e.Project] = true
				res.mismatch(sig, fmt.Sprintf("%s phase: %s of %s returned %s, alone it returns %s", e.Phase, e.Acc, e.Project, e.Digest, e.Want),
					map[string]any{"kind": "c18", "seed": seed, "project": e.Project, "accessor": e.Acc, "phase": e.Phase})
			}
		}
	}
	res.Nontrivial = rounds * 2
	res.sample(map[string]any{"rounds": rounds, "goroutines": G, "projects": len(bases), "events": len(events), "differing": bad})
	res.Extra = map[string]any{"events": len(events), "differing": bad}
	return res
}
