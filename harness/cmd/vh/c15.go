package main

import (
	"encoding/json"
	"fmt"
	"sort"
	"strings"
)

func init() {
	subcmds["c15-replay"] = c15Replay
}

type c15Case struct {
	Base   string   `json:"base"`
	Blocks []string `json:"blocks"`
	Doc    []Tok    `json:"doc"`
	Doc0   []Tok    `json:"doc0"`
	X      buildExp `json:"x"`
}

// toPlain converts the ordered JSON into plain Go values (objects become unordered maps).
func toPlain(v any) any {
	switch x := v.(type) {
	case oobj:
		m := map[string]any{}
		for _, kv := range x {
			m[kv.K] = toPlain(kv.V)
		}
		return m
	case []any:
		out := make([]any, len(x))
		for i := range x {
			out[i] = toPlain(x[i])
		}
		return out
	}
	return v
}

// orderInsensitive renders a catalog so that the order of entries inside each section and of
// interactions inside a tag does not matter; everything else (content of every entry) does.
func orderInsensitive(js []byte) (string, error) {
	v, err := parseOrdered(js)
	if err != nil {
		return "", err
	}
	top, ok := toPlain(v).(map[string]any)
	if !ok {
		return "", fmt.Errorf("catalog is not an object")
	}
	if tags, ok := top["tags"].(map[string]any); ok {
		for _, t := range tags {
			tm, _ := t.(map[string]any)
			groups, _ := tm["interactionGroups"].([]any)
			for _, g := range groups {
				gm, _ := g.(map[string]any)
				ids, _ := gm["interactions"].([]any)
				ss := make([]string, 0, len(ids))
				for _, id := range ids {
					ss = append(ss, fmt.Sprint(id))
				}
				sort.Strings(ss)
				gm["interactions"] = ss
			}
		}
	}
	b, _ := json.Marshal(top)
	return string(b), nil
}

// stripExamples removes every "example" member from a canonical catalog text.
func stripExamples(js string) string {
	var v any
	if json.Unmarshal([]byte(js), &v) != nil {
		return js
	}
	var walk func(x any) any
	walk = func(x any) any {
		switch t := x.(type) {
		case map[string]any:
			delete(t, "example")
			for k, e := range t {
				t[k] = walk(e)
			}
			return t
		case []any:
			for i := range t {
				t[i] = walk(t[i])
			}
			return t
		}
		return x
	}
	b, _ := json.Marshal(walk(v))
	return string(b)
}

// c15-replay <tlc-output> [selftest]
func c15Replay(args []string) *Result {
	res := &Result{}
	if err := loadPools(args[0]); err != nil {
		res.Error = err.Error()
		return res
	}
	selftest := len(args) > 1 && args[1] == "selftest"
	skelIgnoreKeys = []string{"uenums"} // the content of usedUserEnums is owned by C02
	baseBuilt := map[string]buildObs{}
	distinct := map[string]struct{}{}
	err := forEachEmitted(args[0], "E", func(js string) error {
		var cs c15Case
		if err := json.Unmarshal([]byte(js), &cs); err != nil {
			return fmt.Errorf("bad emission: %v", err)
		}
		res.Cases++
		distinct[strings.Join(cs.Blocks, ",")] = struct{}{}
		b0, ok := baseBuilt[cs.Base]
		if !ok {
			b0 = buildText(renderTokens(cs.Doc0, false, canon).text)
			baseBuilt[cs.Base] = b0
		}
		if selftest {
			cs.Doc = cs.Doc[:len(cs.Doc)-1] // drop the last token: the catalogs must differ
		}
		rd := renderTokens(cs.Doc, false, canon)
		o := buildText(rd.text)
		replay := map[string]any{"kind": "c15", "blocks": cs.Blocks, "text": rd.text, "base_text": renderTokens(cs.Doc0, false, canon).text}
		res.count("permuted-" + o.Res)
		if len(res.Samples) < 3 && res.Cases%97 == 5 {
			res.sample(map[string]any{"order": cs.Blocks, "verdict": o.Res})
		}
		switch {
		case o.Res == "panic" || o.Res == "tojson-err":
			res.mismatch("c15:"+o.Res, "permuted document: "+o.Msg, replay)
		case o.Res != b0.Res:
			res.mismatch("c15:verdict", fmt.Sprintf("base order: %s (%s); this order: %s (%s)", b0.Res, firstLine(b0.Msg), o.Res, firstLine(o.Msg)), replay)
		case o.Res == "ok":
			a, err1 := orderInsensitive(b0.JSON)
			b, err2 := orderInsensitive(o.JSON)
			if err1 != nil || err2 != nil {
				res.mismatch("c15:shape", fmt.Sprint(err1, err2), replay)
			} else if a != b && stripExamples(a) == stripExamples(b) {
				// the entries differ only in generated "example" strings (known finding: examples of regex user types are
				// drawn from a generator shared by the whole build, in the order the schemas are built)
				res.mismatch("c15:example-depends-on-block-order", "only the generated example strings of the schemas depend on the order of the blocks", replay)
			} else if a != b {
				var av, bv any
				_ = json.Unmarshal([]byte(a), &av)
				_ = json.Unmarshal([]byte(b), &bv)
				res.mismatch("c15:content-"+diffKey(firstDiff("catalog", av, bv)), "the catalog content depends on the order of the blocks: "+firstDiff("catalog", av, bv), replay)
			} else if !selftest {
				// and the specification's prediction for this order (entry order follows the text)
				checkBuild(res, "c15", cs.Doc, rd, &cs.X, &o, replay)
			}
		}
		if selftest && res.Cases >= 120 {
			return errStop
		}
		return nil
	})
	if err != nil && err != errStop {
		res.Error = err.Error()
	}
	res.Nontrivial = len(distinct)
	return res
}
