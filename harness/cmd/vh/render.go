package main

import (
	"encoding/json"
	"fmt"
	"strings"
	"unicode/utf8"
)

// Tok is the abstract token of spec/Tree.tla.
type Tok struct {
	T string   `json:"t"` // "D" directive, "C" closing parenthesis, "O" extra opening parenthesis, "I" include
	K string   `json:"k"`
	P []string `json:"p"`
	A string   `json:"a"`
	E bool     `json:"e"`
	B string   `json:"b"`
	C string   `json:"c"` // response code for k = "RESP"
}

// modelKind maps directive.Enumeration.String() to the specification's kind names.
func modelKind(s string) string {
	if s == "HTTP-response-code" {
		return "RESP"
	}
	return s
}

// A rendered document remembers where each token starts.
type rendered struct {
	text     string
	tokLine  []int // 1-based line of the keyword (or of ")") of each token
	tokOff   []int // byte offset of the keyword
	bodyLine []int // 1-based line of the first line of the body (0: no body)
}

// layout options for rendering: the choices the language defines as insignificant
// (property C08).  The zero value is the canonical form.
type layout struct {
	indent   string // the same prefix on every line (uniform re-indentation)
	nl       string
	trailing string // appended to every header line
	rng      *rng   // when set: blank lines, '#' and '###' comments before directives, trailing comments
	quote    bool   // quote every bare parameter
	mlAnn    bool   // "/* a */" instead of "// a"
	wideAnn  bool   // every blank inside an annotation written as a run of blanks / tabs (/* */: also a line break)
}

var canon = layout{nl: "\n"}

// randomLayout draws a layout from the seed.
func randomLayout(r *rng) layout {
	lo := layout{nl: []string{"\n", "\r\n", "\r"}[r.intn(3)], rng: r}
	lo.indent = []string{"", "  ", "\t", "    "}[r.intn(4)]
	lo.trailing = []string{"", " ", "\t ", ""}[r.intn(4)]
	lo.quote = r.intn(2) == 0
	lo.mlAnn = r.intn(2) == 0
	return lo
}

// minimal syntactically valid parameters / body for each kind, used when the
// specification leaves them unspecified (C11 only talks about kinds).
func fillerParams(k string, n int) []string {
	switch k {
	case "JSIGHT":
		return []string{"0.3"}
	case "Title":
		return []string{`"T"`}
	case "Version":
		return []string{"1"}
	case "SERVER":
		return []string{"@s"}
	case "BaseUrl":
		return []string{`"http://x"`}
	case "URL":
		return []string{"/u"}
	case "Body", "Request", "RESP":
		return []string{"any"}
	case "TYPE":
		return []string{"@t", "any"}
	case "ENUM":
		return []string{"@e"}
	case "MACRO", "PASTE":
		return []string{"@m"}
	case "Protocol":
		return []string{"json-rpc-2.0"}
	case "Method":
		return []string{"foo"}
	case "TAG", "Tags":
		return []string{"@g"}
	case "OperationId":
		return []string{"op"}
	}
	return nil
}

func fillerBody(k string) string {
	switch k {
	case "Path":
		return `{"id": 1}`
	case "Headers":
		return `{"h": "v"}`
	case "Query", "Params", "Result":
		return `{"q": 1}`
	case "ENUM":
		return `[1]`
	case "Description":
		return "text"
	}
	return ""
}

func keywordText(t Tok) string {
	if t.K == "RESP" {
		if t.C != "" {
			return t.C
		}
		return "200"
	}
	return t.K
}

// renderTokens renders tokens in canonical layout: header line (keyword,
// parameters, annotation), then "(" on its own line if explicit, then the body.
func renderTokens(toks []Tok, fill bool, lo layout) rendered {
	var sb strings.Builder
	r := rendered{}
	line := 1
	if lo.nl == "" {
		lo.nl = "\n"
	}
	wr := func(s string) {
		parts := strings.Split(s, "\n")
		for _, p := range parts {
			sb.WriteString(lo.indent)
			sb.WriteString(p)
			sb.WriteString(lo.nl)
			line++
		}
	}
	afterDescription := false
	for i, t := range toks {
		// insignificant material between directives
		if lo.rng != nil && !afterDescription {
			switch lo.rng.intn(7) {
			case 0:
				wr("")
			case 1:
				wr("# a comment ## with signs")
			case 2:
				wr("###")
				wr("a block comment # GET /x")
				wr("###")
			case 3:
				wr("")
				wr("   ")
			}
		} else if lo.rng != nil && lo.rng.intn(3) == 0 {
			wr("")
		}
		r.tokLine = append(r.tokLine, line)
		r.tokOff = append(r.tokOff, sb.Len())
		if t.T == "C" {
			wr(")" + lo.trailing)
			afterDescription = false
			continue
		}
		if t.T == "X" { // a line the scanner rejects: a comment that holds a NUL byte
			wr("# x\x00")
			afterDescription = false
			continue
		}
		if t.T == "O" { // a "(" beyond the one of the directive's flag
			wr("(" + lo.trailing)
			afterDescription = false
			continue
		}
		p := renderParams(t)
		b := bodyText(t.B)
		if fill {
			fp := fillerParams(t.K, i)
			if t.K == "GET" || t.K == "POST" || t.K == "PUT" || t.K == "PATCH" || t.K == "DELETE" {
				fp = t.P // methods: the specification decides whether a path is given
			}
			p = fp
			b = fillerBody(t.K)
		}
		if lo.quote {
			for j := range p {
				// (bytes which are not UTF-8 do not survive the unquoting: such a parameter stays as it is)
				if !strings.HasPrefix(p[j], `"`) && utf8.ValidString(p[j]) {
					p[j] = strconvQuote(p[j])
				}
			}
		}
		h := keywordText(t)
		if t.T == "I" {
			h = "INCLUDE"
		}
		if len(p) > 0 {
			h += " " + strings.Join(p, " ")
		}
		if t.A != "" {
			a := rawText(t.A)
			if lo.wideAnn {
				a = widenBlanks(a, lo.mlAnn, i)
			}
			if lo.mlAnn {
				h += " /* " + a + " */"
			} else {
				h += " // " + a
			}
		}
		h += lo.trailing
		if lo.rng != nil && t.A == "" && lo.rng.intn(5) == 0 {
			h += " # trailing comment"
		}
		wr(h)
		if t.E {
			wr("(")
		}
		if b != "" {
			// the last line of a schema / enum / regex body may carry trailing blanks like any other line
			// (not a Description text, whose blanks are content)
			if lo.rng != nil && t.K != "Description" && lo.rng.intn(3) == 0 {
				b += []string{" ", "\t", "  "}[lo.rng.intn(3)]
			}
			if lo.rng != nil && t.K == "Description" && lo.rng.intn(3) == 0 {
				// empty lines between the Description keyword and its text are skipped by the scanner (really empty ones:
				// a line of blanks is part of the text)
				for x, m := 0, 1+lo.rng.intn(2); x < m; x++ {
					sb.WriteString(lo.nl)
					line++
				}
			}
			for len(r.bodyLine) < len(r.tokLine)-1 {
				r.bodyLine = append(r.bodyLine, 0)
			}
			r.bodyLine = append(r.bodyLine, line)
			wr(b)
		}
		afterDescription = t.K == "Description"
	}
	r.text = sb.String()
	return r
}

// Pools are the concrete texts behind the specification's path and body ids
// (spec/Pools.tla); they are read from the "L" line TLC prints.
type Pools struct {
	Paths  map[string]string `json:"paths"`
	Bodies map[string]string `json:"bodies"`
}

var pools Pools

func loadPools(tlcOut string) error {
	found := false
	err := forEachEmitted(tlcOut, "L", func(js string) error {
		found = true
		return json.Unmarshal([]byte(js), &pools)
	})
	if err == nil && !found {
		return fmt.Errorf("no pool table (L line) in %s", tlcOut)
	}
	return err
}

func bodyText(id string) string {
	if id == "" {
		return ""
	}
	if t, ok := pools.Bodies[id]; ok {
		return t
	}
	return id
}

// rawText replaces "\xNN" by the raw byte (TLA+ strings hold ASCII only).
func rawText(t string) string {
	for i := strings.Index(t, `\x`); i >= 0 && i+4 <= len(t); i = strings.Index(t, `\x`) {
		var b byte
		if _, err := fmt.Sscanf(t[i+2:i+4], "%02X", &b); err != nil {
			break
		}
		t = t[:i] + string([]byte{b}) + t[i+4:]
	}
	return t
}

// widenBlanks writes every blank of an annotation as a run of blanks and tabs (in a multi-line annotation also as a line
// break): the annotation of the catalog is the text with every run of white space collapsed to one blank.
func widenBlanks(a string, multiline bool, salt int) string {
	var sb strings.Builder
	n := salt
	for i := 0; i < len(a); i++ {
		if a[i] != ' ' {
			sb.WriteByte(a[i])
			continue
		}
		n++
		switch {
		case multiline && n%4 == 0:
			sb.WriteString(" \n   ")
		case n%3 == 0:
			sb.WriteString("\t")
		case n%3 == 1:
			sb.WriteString("   ")
		default:
			sb.WriteString(" \t ")
		}
	}
	return sb.String()
}

// pathText is the text of a path id; "\xNN" in the pool's text stands for the raw byte (TLA+ strings cannot hold it).
func pathText(id string) string {
	if t, ok := pools.Paths[id]; ok {
		for i := strings.Index(t, `\x`); i >= 0 && i+4 <= len(t); i = strings.Index(t, `\x`) {
			var b byte
			if _, err := fmt.Sscanf(t[i+2:i+4], "%02X", &b); err != nil {
				break
			}
			t = t[:i] + string([]byte{b}) + t[i+4:]
		}
		return t
	}
	return id
}

// renderParams turns the abstract parameters of a token into text.
func renderParams(t Tok) []string {
	out := make([]string, 0, len(t.P))
	for _, p := range t.P {
		switch t.K {
		case "URL", "GET", "POST", "PUT", "PATCH", "DELETE":
			out = append(out, pathText(p))
		case "Title", "BaseUrl", "Query":
			out = append(out, strconvQuote(p))
		default:
			out = append(out, p)
		}
	}
	return out
}

// the plain values the real directive must hold for the token's parameters
func paramValues(t Tok) []string {
	out := make([]string, 0, len(t.P))
	for _, p := range t.P {
		switch t.K {
		case "URL", "GET", "POST", "PUT", "PATCH", "DELETE":
			out = append(out, pathText(p))
		default:
			out = append(out, p)
		}
	}
	return out
}

func strconvQuote(s string) string {
	return `"` + strings.ReplaceAll(strings.ReplaceAll(s, `\`, `\\`), `"`, `\"`) + `"`
}
