package main

import (
	"encoding/json"
	"fmt"
	"sort"
	"strings"
)

func init() {
	subcmds["c17-oas"] = c17OAS
}

type oasOp struct {
	Method      string    `json:"method"`
	Summary     string    `json:"summary"`
	Description string    `json:"description"`
	OpID        string    `json:"opid"`
	Tags        []string  `json:"tags"`
	Query       []string  `json:"query"`
	Headers     []string  `json:"headers"`
	Body        string    `json:"body"`
	Codes       []string  `json:"codes"`
	ReqMT       []string  `json:"reqmt"`
	Resp        []oasResp `json:"resp"`
}

type oasResp struct {
	Code    string   `json:"code"`
	Content []string `json:"content"`
	Headers []string `json:"headers"`
}

type oasInfo struct {
	Title   string `json:"title"`
	Version string `json:"version"`
	HasDesc bool   `json:"hasdesc"`
}

type oasItem struct {
	Path   string   `json:"path"`
	Params []string `json:"params"`
	Ops    []oasOp  `json:"ops"`
}

type oasSkel struct {
	OpenAPI    string    `json:"openapi"`
	Servers    []string  `json:"servers"`
	Paths      []oasItem `json:"paths"`
	Components []string  `json:"components"`
	Fails      bool      `json:"fails"`
	Info       oasInfo   `json:"info"`
}

func keysOf(o oobj) []string {
	out := []string{}
	for _, kv := range o {
		out = append(out, kv.K)
	}
	return sortedStrs(out)
}

func sortedStrs(a []string) []string {
	b := append([]string{}, a...)
	sort.Strings(b)
	return b
}

// projectOAS reduces the real OpenAPI document to the skeleton OpenAPI.tla predicts.
func projectOAS(js []byte) (*oasSkel, error) {
	v, err := parseOrdered(js)
	if err != nil {
		return nil, err
	}
	doc, ok := v.(oobj)
	if !ok {
		return nil, fmt.Errorf("the document is not an object")
	}
	sk := &oasSkel{OpenAPI: doc.str("openapi"), Servers: []string{}, Components: []string{}}
	if info := doc.obj("info"); info != nil {
		_, hasDesc := info.get("description")
		sk.Info = oasInfo{Title: info.str("title"), Version: info.str("version"), HasDesc: hasDesc}
	}
	for _, s := range doc.arr("servers") {
		so, _ := s.(oobj)
		sk.Servers = append(sk.Servers, so.str("url"))
	}
	names := func(holder oobj, in string) []string {
		out := []string{}
		for _, pv := range holder.arr("parameters") {
			po, _ := pv.(oobj)
			if po.str("in") == in {
				out = append(out, po.str("name"))
			}
		}
		return out
	}
	for _, kv := range doc.obj("paths") {
		item, _ := kv.V.(oobj)
		it := oasItem{Path: kv.K, Params: names(item, "path")}
		for _, m := range []string{"get", "put", "post", "patch", "delete"} {
			op := item.obj(m)
			if op == nil {
				continue
			}
			o := oasOp{Method: strings.ToUpper(m), Summary: op.str("summary"), Description: op.str("description"), OpID: op.str("operationId"),
				Tags: []string{}, Query: names(op, "query"), Headers: names(op, "header"), Body: "none", Codes: []string{}}
			for _, t := range op.arr("tags") {
				o.Tags = append(o.Tags, fmt.Sprint(t))
			}
			if rb := op.obj("requestBody"); rb != nil {
				o.Body = "optional"
				o.ReqMT = keysOf(rb.obj("content"))
				if req, _ := rb.get("required"); req == true {
					o.Body = "required"
				}
			}
			for _, rk := range op.obj("responses") {
				o.Codes = append(o.Codes, rk.K)
				ro, _ := rk.V.(oobj)
				o.Resp = append(o.Resp, oasResp{Code: rk.K, Content: keysOf(ro.obj("content")), Headers: keysOf(ro.obj("headers"))})
			}
			o.Codes = sortedStrs(o.Codes)
			it.Ops = append(it.Ops, o)
		}
		sk.Paths = append(sk.Paths, it)
	}
	for _, kv := range doc.obj("components").obj("schemas") {
		sk.Components = append(sk.Components, "@"+kv.K)
	}
	sk.Components = sortedStrs(sk.Components)
	return sk, nil
}

func hasUnknown(a []string) bool {
	for _, s := range a {
		if s == "?" {
			return true
		}
	}
	return false
}

// c17-oas <tlc-output of MC_C17docs> [selftest]
// What C17 states (operation present, path parameters, components) is a verdict; the rest of the skeleton
// (summary, tags, parameter names, request body, response keys, servers) is reported as SPEC-DRIFT only.
func c17OAS(args []string) *Result {
	res := &Result{}
	if err := loadPools(args[0]); err != nil {
		res.Error = err.Error()
		return res
	}
	selftest := len(args) > 1 && args[1] == "selftest"
	err := forEachEmitted(args[0], "E", func(js string) error {
		var cs struct {
			Blocks []string `json:"blocks"`
			Doc    []Tok    `json:"doc"`
			OAS    oasSkel  `json:"oas"`
		}
		if err := json.Unmarshal([]byte(js), &cs); err != nil {
			return fmt.Errorf("bad emission: %v", err)
		}
		res.Cases++
		text := renderTokens(cs.Doc, false, canon).text
		src := projSrc{name: "model:" + strings.Join(cs.Blocks, ","), text: text}
		replay := map[string]any{"kind": "sweep", "project": src.name, "text": text}
		j, ok, msg := src.build()
		if !ok {
			res.drift(src.name + ": the specification accepts, the build says " + firstLine(msg)) // C02's business
			return nil
		}
		oa, eo := wrapBytes(j.ToOpenAPIJson)
		if strings.HasPrefix(eo, "panic") {
			res.mismatch("c17:panic", src.name+": ToOpenAPIJson panics: "+eo, replay)
			return nil
		}
		if eo != "" {
			res.count("export-error")
			if !cs.OAS.Fails {
				res.count("export-error-not-predicted") // an error value is allowed by C17; only the refused merge is modelled
			}
			return nil
		}
		if cs.OAS.Fails {
			res.drift(src.name + ": the specification says the export refuses to merge a response of the notation empty, the export succeeds")
		}
		got, err := projectOAS(oa)
		if err != nil {
			res.mismatch("c17:not-json", src.name+": "+err.Error(), replay)
			return nil
		}
		if len(cs.OAS.Paths) > 0 {
			res.Nontrivial++
		}
		want := cs.OAS
		if selftest && len(want.Paths) > 0 {
			want.Paths[0].Params = append(want.Paths[0].Params, "corrupted")
		}
		gp := map[string]oasItem{}
		for _, it := range got.Paths {
			gp[it.Path] = it
		}
		for _, wi := range want.Paths {
			gi, ok := gp[wi.Path]
			if !ok {
				res.mismatch("c17:oas-path-missing", fmt.Sprintf("%s: paths lacks %q", src.name, wi.Path), replay)
				return nil
			}
			if strings.Join(sortedStrs(wi.Params), ",") != strings.Join(sortedStrs(gi.Params), ",") {
				res.mismatch("c17:oas-path-parameters", fmt.Sprintf("%s: path parameters of %q: specification %v, export %v", src.name, wi.Path, wi.Params, gi.Params), replay)
				return nil
			}
			gops := map[string]oasOp{}
			for _, o := range gi.Ops {
				gops[o.Method] = o
			}
			for _, wo := range wi.Ops {
				g, ok := gops[wo.Method]
				if !ok {
					res.mismatch("c17:oas-operation-missing", fmt.Sprintf("%s: no operation %s under %q", src.name, wo.Method, wi.Path), replay)
					return nil
				}
				// beyond the statement of C17: drift only
				beyond := func(what string, w, gv any) {
					if fmt.Sprint(w) != fmt.Sprint(gv) {
						res.drift(fmt.Sprintf("%s %s %s: %s: specification %v, export %v", src.name, wo.Method, wi.Path, what, w, gv))
					}
				}
				beyond("summary", wo.Summary, g.Summary)
				beyond("description", wo.Description, g.Description)
				beyond("operationId", wo.OpID, g.OpID)
				beyond("tags", wo.Tags, g.Tags)
				if !hasUnknown(wo.Query) {
					beyond("query parameters", wo.Query, g.Query)
				}
				if !hasUnknown(wo.Headers) {
					beyond("header parameters", wo.Headers, g.Headers)
				}
				beyond("requestBody", wo.Body, g.Body)
				beyond("response keys", sortedStrs(wo.Codes), g.Codes)
				beyond("request media types", sortedStrs(wo.ReqMT), sortedStrs(g.ReqMT))
				gr := map[string]oasResp{}
				for _, r := range g.Resp {
					gr[r.Code] = r
				}
				for _, wr := range wo.Resp {
					beyond("media types of response "+wr.Code, sortedStrs(wr.Content), gr[wr.Code].Content)
					if !hasUnknown(wr.Headers) {
						beyond("headers of response "+wr.Code, sortedStrs(wr.Headers), gr[wr.Code].Headers)
					}
				}
			}
			if len(gi.Ops) != len(wi.Ops) {
				res.drift(fmt.Sprintf("%s %s: %d operations exported, the specification has %d", src.name, wi.Path, len(gi.Ops), len(wi.Ops)))
			}
		}
		if len(got.Paths) != len(want.Paths) {
			res.drift(fmt.Sprintf("%s: %d paths exported, the specification has %d", src.name, len(got.Paths), len(want.Paths)))
		}
		for _, c := range want.Components {
			found := false
			for _, g := range got.Components {
				found = found || g == c
			}
			if !found {
				res.mismatch("c17:type-not-component", fmt.Sprintf("%s: user type %s is not a component", src.name, c), replay)
				return nil
			}
		}
		if want.Info != got.Info {
			res.drift(fmt.Sprintf("%s: info: specification %+v, export %+v", src.name, want.Info, got.Info))
		}
		if fmt.Sprint(want.Servers) != fmt.Sprint(got.Servers) {
			res.drift(fmt.Sprintf("%s: servers: specification %v, export %v", src.name, want.Servers, got.Servers))
		}
		return nil
	})
	if err != nil {
		res.Error = err.Error()
	}
	return res
}
