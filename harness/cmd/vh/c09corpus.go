package main

import (
	"fmt"
	"os"
	"path/filepath"
	"strings"

	"github.com/jsightapi/jsight-schema-core/fs"

	"github.com/jsightapi/jsight-api-core/scanner"
)

// c09-corpus <repo> <seed> <cuts-per-file> [selftest]: the relation MC_C09 states on the model (CatalogSame: the catalog of the
// split project is the catalog of the unsplit document; a rule error keeps its message and moves to the corresponding line
// of the file that now holds the directive) evaluated on the repository's own documents, which are far richer than the
// base documents of the model: every single-file corpus document is cut at directive boundaries found with the real
// scanner (balanced with respect to '( )', nested up to three deep, JSIGHT stays) and both forms are built.
func init() { subcmds["c09-corpus"] = c09Corpus }

type srcLine struct {
	text string // without its line break
	orig int    // 1-based line of the unsplit document, 0 for an INCLUDE line written by the cut
}

type cutPoint struct {
	line  int // 0-based index into the lines of the file
	depth int // explicit contexts open in front of the keyword
}

// cutPoints: the lines of a file on which a directive keyword stands first, with the depth of explicit contexts there.
func cutPoints(lines []srcLine) (pts []cutPoint, ok bool) {
	var sb strings.Builder
	starts := make([]int, len(lines))
	for i, l := range lines {
		starts[i] = sb.Len()
		sb.WriteString(l.text)
		sb.WriteByte('\n')
	}
	text := sb.String()
	lineOf := func(idx int) int {
		lo, hi := 0, len(starts)-1
		for lo < hi {
			m := (lo + hi + 1) / 2
			if starts[m] <= idx {
				lo = m
			} else {
				hi = m - 1
			}
		}
		return lo
	}
	defer func() {
		if recover() != nil {
			ok = false
		}
	}()
	s := scanner.NewJApiScanner(fs.NewFile("piece.jst", text))
	depth := 0
	for n := 0; n < 4*len(text)+16; n++ {
		l, je := s.Next()
		if je != nil {
			return nil, false
		}
		if l == nil {
			return pts, true
		}
		switch l.Type() {
		case scanner.ContextExplicitOpening:
			depth++
		case scanner.ContextExplicitClosing:
			depth--
		case scanner.Keyword:
			b := int(l.Begin())
			ln := lineOf(b)
			if strings.TrimLeft(text[starts[ln]:b], " \t") == "" {
				pts = append(pts, cutPoint{line: ln, depth: depth})
			}
		}
	}
	return nil, false
}

func c09Corpus(args []string) *Result {
	res := &Result{}
	seed := atoi(args[1])
	perFile := atoi(args[2])
	selftest := len(args) > 3 && args[3] == "selftest"
	r := newRng(uint64(seed))
	base, err := os.MkdirTemp(scratchBase(), "vh-c09c-")
	if err != nil {
		res.Error = err.Error()
		return res
	}
	defer os.RemoveAll(base)
	for _, f := range corpusFiles(args[0]) {
		raw, err := os.ReadFile(f)
		if err != nil || strings.Contains(string(raw), "INCLUDE") || len(raw) > 20000 {
			continue
		}
		text := strings.ReplaceAll(strings.ReplaceAll(string(raw), "\r\n", "\n"), "\r", "\n")
		unsplit := buildText(text)
		if unsplit.Res == "panic" || unsplit.Res == "tojson-err" {
			continue
		}
		if unsplit.Res == "err" && (unsplit.Err == nil || unsplit.Line == 0) {
			continue
		}
		if c := classifyIncErr(unsplit.Msg); unsplit.Res == "err" && (c == "unclosed" || c == "noctx") {
			continue // a document whose parentheses do not match has no balanced cuts
		}
		var rootLines []srcLine
		for i, l := range strings.Split(strings.TrimSuffix(text, "\n"), "\n") {
			rootLines = append(rootLines, srcLine{l, i + 1})
		}
		if _, ok := cutPoints(rootLines); !ok {
			continue // the scanner rejects the document: not a rule error
		}
		for c := 0; c < perFile; c++ {
			files := map[string][]srcLine{"root.jst": append([]srcLine{}, rootLines...)}
			order := []string{"root.jst"}
			nCuts := 0
			for k, want := 0, 1+r.intn(3); k < want; k++ {
				fn := order[r.intn(len(order))]
				pts, ok := cutPoints(files[fn])
				if !ok || len(pts) < 2 {
					continue
				}
				first := 0
				if fn == "root.jst" {
					first = 1 // JSIGHT (the first directive of the root file) stays where it is
				}
				if len(pts)-first < 1 {
					continue
				}
				a := first + r.intn(len(pts)-first)
				// candidate ends: later cut points (or the end of the file) with the same depth, never dipping below on the way
				var ends []int
				for b := a + 1; b <= len(pts); b++ {
					if b < len(pts) && pts[b].depth < pts[a].depth {
						break
					}
					if b == len(pts) {
						if pts[a].depth == 0 {
							ends = append(ends, len(files[fn]))
						}
					} else if pts[b].depth == pts[a].depth {
						ends = append(ends, pts[b].line)
					}
				}
				if len(ends) == 0 {
					continue
				}
				la, lb := pts[a].line, ends[r.intn(len(ends))]
				// a piece must not end inside an explicit context it did not open (checked by the depth rule) and must hold a line
				if lb <= la {
					continue
				}
				hasJsight := false
				for _, l := range files[fn][la:lb] {
					if strings.HasPrefix(strings.TrimLeft(l.text, " \t"), "JSIGHT") {
						hasJsight = true // JSIGHT may not be moved into an included file (a rule of its own)
					}
				}
				if hasJsight {
					continue
				}
				name := fmt.Sprintf("piece%d.jst", len(order))
				piece := append([]srcLine{}, files[fn][la:lb]...)
				rest := append([]srcLine{}, files[fn][:la]...)
				rest = append(rest, srcLine{"INCLUDE " + name, 0})
				rest = append(rest, files[fn][lb:]...)
				files[fn], files[name] = rest, piece
				order = append(order, name)
				nCuts++
			}
			if nCuts == 0 {
				continue
			}
			dir := filepath.Join(base, fmt.Sprintf("p%d", res.Cases))
			_ = os.MkdirAll(dir, 0o755)
			disk := map[string]string{}
			for n, ll := range files {
				var sb strings.Builder
				for _, l := range ll {
					sb.WriteString(l.text)
					sb.WriteByte('\n')
				}
				disk[n] = sb.String()
				_ = os.WriteFile(filepath.Join(dir, n), []byte(disk[n]), 0o644)
			}
			res.Cases++
			split := buildProject(filepath.Join(dir, "root.jst"))
			_ = os.RemoveAll(dir)
			replay := map[string]any{"kind": "c09-corpus", "corpus_file": strings.TrimPrefix(f, args[0]), "files": disk, "unsplit": text}
			res.count("unsplit-" + unsplit.Res)
			if selftest {
				// a corrupted expectation: the unsplit document is said to have another verdict
				if unsplit.Res == "ok" {
					unsplit.JSON = append([]byte{}, unsplit.JSON[:len(unsplit.JSON)-1]...)
				} else {
					unsplit.Msg += "?"
				}
			}
			switch {
			case split.Res == "panic" || split.Res == "tojson-err":
				res.mismatch("c09:corpus-"+split.Res, "split project: "+split.Msg, replay)
			case unsplit.Res == "ok":
				res.Nontrivial++
				if split.Res != "ok" {
					res.mismatch("c09:corpus-split-rejected", fmt.Sprintf("unsplit document: accepted; split project: %s at %s:%d", firstLine(split.Msg), filepath.Base(split.File), split.Line), replay)
				} else if string(split.JSON) != string(unsplit.JSON) {
					res.mismatch("c09:corpus-catalog", "the catalog of the split project differs from the catalog of the unsplit document", replay)
				}
			default:
				if split.Res == "ok" {
					res.mismatch("c09:corpus-split-accepted", "unsplit document: "+firstLine(unsplit.Msg)+"; split project: accepted", replay)
					break
				}
				if split.Msg != unsplit.Msg {
					res.mismatch("c09:corpus-message", fmt.Sprintf("unsplit document: %s; split project: %s", firstLine(unsplit.Msg), firstLine(split.Msg)), replay)
					break
				}
				ll := files[filepath.Base(split.File)]
				if split.Line < 1 || split.Line > len(ll) || ll[split.Line-1].orig != unsplit.Line {
					got := -1
					if split.Line >= 1 && split.Line <= len(ll) {
						got = ll[split.Line-1].orig
					}
					res.mismatch("c09:corpus-line", fmt.Sprintf("the error of line %d of the unsplit document is reported at %s:%d, which is line %d of the unsplit document", unsplit.Line, filepath.Base(split.File), split.Line, got), replay)
				}
			}
			if len(res.Samples) < 3 && nCuts >= 2 {
				res.sample(map[string]any{"corpus_file": strings.TrimPrefix(f, args[0]), "files": len(files), "unsplit": unsplit.Res})
			}
		}
	}
	return res
}
