package main

import (
	"bytes"
	"encoding/json"
	"fmt"
	"os"
	"path/filepath"

	"github.com/jsightapi/jsight-api-core/jerr"
	"github.com/jsightapi/jsight-api-core/kit"
)

func init() {
	subcmds["c09-replay"] = c09Replay
}

type c09Case struct {
	Doc       []Tok            `json:"doc"`
	Content   map[string][]Tok `json:"content"`
	JsightCut bool             `json:"jsightcut"`
	Split     struct {
		Res string `json:"res"`
		Err incErr `json:"err"`
		Dup struct {
			File   string   `json:"file"`
			FTok   int      `json:"ftok"`
			Trace  []trItem `json:"trace"`
			QTrace []trItem `json:"qtrace"`
		} `json:"dup"`
	} `json:"split"`
}

type fpos struct {
	f string
	i int
}

// flattenProject lists, in document order, where each token of the unsplit document now lives.
func flattenProject(content map[string][]Tok, f string, depth int, out *[]fpos) {
	if depth > 8 {
		return
	}
	for i, t := range content[f] {
		if t.T == "I" {
			flattenProject(content, t.P[0], depth+1, out)
			continue
		}
		*out = append(*out, fpos{f, i + 1})
	}
}

func buildProject(rootPath string) (o buildObs) {
	defer func() {
		if r := recover(); r != nil {
			o.Res, o.Msg = "panic", fmt.Sprint(r)
		}
	}()
	j, je := kit.NewJapi(rootPath)
	if je != nil {
		o.Res, o.Msg, o.Line, o.Err = "err", je.Msg, int(je.Line), je
		if je.File != nil {
			o.File = je.File.Name()
		}
		return o
	}
	b, err := j.ToJson()
	if err != nil {
		o.Res, o.Msg = "tojson-err", err.Error()
		return o
	}
	o.Res, o.JSON = "ok", b
	return o
}

// c09-replay <tlc-output> [selftest]
func c09Replay(args []string) *Result {
	res := &Result{}
	if err := loadPools(args[0]); err != nil {
		res.Error = err.Error()
		return res
	}
	selftest := len(args) > 1 && args[1] == "selftest"
	base, err := os.MkdirTemp(scratchBase(), "vh-c09-")
	if err != nil {
		res.Error = err.Error()
		return res
	}
	defer os.RemoveAll(base)
	distinct := map[string]struct{}{}
	ferr := forEachEmitted(args[0], "E", func(js string) error {
		var cs c09Case
		if err := json.Unmarshal([]byte(js), &cs); err != nil {
			return fmt.Errorf("bad emission: %v", err)
		}
		res.Cases++
		p, err := writeProject(base, cs.Content, false)
		if err != nil {
			return err
		}
		whole := renderTokens(cs.Doc, false, canon)
		if selftest {
			// corrupt the unsplit document: drop its last token, the catalogs must then differ
			whole = renderTokens(cs.Doc[:len(cs.Doc)-1], false, canon)
		}
		distinct[shapeKey(&c07Case{Content: cs.Content})] = struct{}{}
		files := map[string]string{}
		for n, rd := range p.files {
			files[n] = rd.text
		}
		replay := map[string]any{"kind": "c09", "case": cs, "whole": whole.text, "files": files}
		a := buildText(whole.text)
		b := buildProject(filepath.Join(p.dir, "root.jst"))
		res.count("whole-" + a.Res)
		if len(res.Samples) < 3 && res.Cases%500 == 40 {
			files := map[string]string{}
			for n, rd := range p.files {
				if rd.text != "" {
					files[n] = rd.text
				}
			}
			res.sample(map[string]any{"whole": whole.text, "split": files, "verdict": a.Res})
		}
		switch {
		case a.Res == "panic" || b.Res == "panic":
			res.mismatch("c09:panic", fmt.Sprintf("panic: %s | %s", a.Msg, b.Msg), replay)
		case cs.JsightCut && !selftest:
			if b.Res != "err" || classifyIncErr(b.Msg) != "include-jsight" {
				res.mismatch("c09:jsight-in-included-file", fmt.Sprintf("JSIGHT moved into an included file: spec include-jsight, code %s %s", b.Res, firstLine(b.Msg)), replay)
			}
		case a.Res != b.Res:
			res.mismatch("c09:verdict", fmt.Sprintf("unsplit document: %s (%s); split project: %s (%s)", a.Res, firstLine(a.Msg), b.Res, firstLine(b.Msg)), replay)
		case a.Res == "ok" && !bytes.Equal(a.JSON, b.JSON):
			res.mismatch("c09:catalog", "the catalog of the split project differs from the catalog of the unsplit document", replay)
		case a.Res == "err":
			if firstLine(a.Msg) != firstLine(b.Msg) {
				res.mismatch("c09:message", fmt.Sprintf("unsplit: %q; split: %q", firstLine(a.Msg), firstLine(b.Msg)), replay)
				break
			}
			// corresponding line of the file that now holds the directive
			// (an error inside a body stands some lines below the keyword of its directive: same offset in the split project)
			t, off := -1, 0
			for i, l := range whole.tokLine {
				if l <= a.Line && (t < 0 || l >= whole.tokLine[t]) {
					t, off = i, a.Line-l
				}
			}
			var flat []fpos
			flattenProject(cs.Content, "root.jst", 0, &flat)
			if t >= 0 && t < len(flat) && len(flat) == len(cs.Doc) {
				want := flat[t]
				if p.rel(b.File) != want.f || b.Line != p.lineOf(want.f, want.i)+off {
					res.mismatch("c09:location", fmt.Sprintf("%q reported at %s:%d, the directive now lives at %s:%d", firstLine(b.Msg), p.rel(b.File), b.Line, want.f, p.lineOf(want.f, want.i)+off), replay)
					break
				}
				// C07: whatever the place, it has to be a real one (file of the project, index inside it, its line / column / quote)
				if b.Err != nil && !locationTruthful(b.Err) {
					res.mismatch("c07:location-untruthful", fmt.Sprintf("%q: file / index / line / column / quote of the error do not describe a position of %s", firstLine(b.Msg), p.rel(b.File)), replay)
					break
				}
			} else {
				res.count("location-not-mapped")
			}
			if cs.Split.Dup.File != "" && classifyErr(b.Msg) == "dupname" {
				var je *jerr.JApiError = b.Err
				switch traceVerdict(p, p.errTrace(je), cs.Split.Dup.Trace, cs.Split.Dup.QTrace) {
				case "wrong":
					res.mismatch("c09:trace", fmt.Sprintf("include trace %v; chain followed %v", p.errTrace(je), p.traceStrings(cs.Split.Dup.Trace)), replay)
				case "quirk":
					res.count("tracer-cache-quirk(owned by C07)")
				}
			}
		}
		if selftest && res.Cases >= 400 {
			return errStop
		}
		return nil
	})
	if ferr != nil && ferr != errStop {
		res.Error = ferr.Error()
	}
	res.Nontrivial = len(distinct)
	return res
}
