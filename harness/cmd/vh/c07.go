package main

import (
	"encoding/json"
	"fmt"
	"os"
	"path/filepath"
	"strings"

	"github.com/jsightapi/jsight-schema-core/fs"

	"github.com/jsightapi/jsight-api-core/core"
	"github.com/jsightapi/jsight-api-core/jerr"
	"github.com/jsightapi/jsight-api-core/kit"
)

func init() {
	subcmds["c07-replay"] = c07Replay
}

type trItem struct {
	F string `json:"f"`
	I int    `json:"i"`
}

type incErr struct {
	Cls    string   `json:"cls"`
	F      string   `json:"f"`
	I      int      `json:"i"`
	Trace  []trItem `json:"trace"`
	QTrace []trItem `json:"qtrace"`
}

type incNode struct {
	K      string   `json:"k"`
	File   string   `json:"file"`
	FTok   int      `json:"ftok"`
	Trace  []trItem `json:"trace"`
	QTrace []trItem `json:"qtrace"`
	Parent int      `json:"parent"`
}

type c07Case struct {
	Content map[string][]Tok `json:"content"`
	Res     string           `json:"res"`
	Err     incErr           `json:"err"`
	Opened  []string         `json:"opened"`
	Cyc     []trItem         `json:"cyc"`
	Nodes   []incNode        `json:"nodes"`
	Dup     int              `json:"dup"`
}

// project is a rendered multi-file project on disk.
type project struct {
	dir   string
	files map[string]rendered
}

func scratchBase() string {
	if st, err := os.Stat("/dev/shm"); err == nil && st.IsDir() {
		return "/dev/shm"
	}
	return os.TempDir()
}

func renderIncludeName(n string) string {
	if n == "" || strings.HasPrefix(n, "/") || strings.ContainsAny(n, " #") {
		return `"` + n + `"`
	}
	return n
}

// writeProject renders every file of the project into dir (plus a sub directory and a
// decoy outside the project root that must never be touched).
// projEOL is the line-break convention the files of a project are written with (all files alike). Line numbers do
// not depend on it; c07-replay rotates it.
var projEOL = "\n"

// projPad pads every line of the project files with trailing blanks to this length (0 = no padding); rotated as well.
var projPad = 0

func writeProject(base string, content map[string][]Tok, prependJSIGHT bool) (*project, error) {
	p := &project{dir: filepath.Join(base, "proj"), files: map[string]rendered{}}
	if err := os.MkdirAll(filepath.Join(p.dir, "sub"), 0o755); err != nil {
		return nil, err
	}
	_ = os.WriteFile(filepath.Join(base, "a.jst"), []byte("TYPE @decoy any\n"), 0o644)
	for name, toks := range content {
		tt := make([]Tok, len(toks))
		copy(tt, toks)
		for i := range tt {
			if tt[i].T == "I" {
				pp := make([]string, len(tt[i].P))
				for j, v := range tt[i].P {
					if j == 0 {
						pp[j] = renderIncludeName(v)
					} else {
						pp[j] = v
					}
				}
				tt[i].P = pp
			}
		}
		rd := renderTokens(tt, false, canon)
		if prependJSIGHT && name == "root.jst" {
			rd.text = "JSIGHT 0.3\n" + rd.text
			for i := range rd.tokLine {
				rd.tokLine[i]++
			}
		}
		if projPad > 0 {
			// every line padded with trailing blanks to projPad bytes: the quote of an error is the line, cut at 200 bytes
			ls := strings.Split(rd.text, "\n")
			for i, l := range ls {
				if i == len(ls)-1 && l == "" {
					continue
				}
				if len(l) < projPad {
					ls[i] = l + strings.Repeat(" ", projPad-len(l))
				}
			}
			rd.text = strings.Join(ls, "\n")
		}
		if projEOL != "\n" {
			rd.text = strings.ReplaceAll(rd.text, "\n", projEOL)
		}
		p.files[name] = rd
		if err := os.WriteFile(filepath.Join(p.dir, name), []byte(rd.text), 0o644); err != nil {
			return nil, err
		}
	}
	return p, nil
}

func (p *project) rel(path string) string {
	if r, err := filepath.Rel(p.dir, path); err == nil {
		if r == "lnkroot.jst" {
			return "root.jst" // the root file named through a symbolic link
		}
		return r
	}
	return path
}

// lineOf maps (file, token index) to the line of that token; index beyond the tokens = EOF.
func (p *project) lineOf(f string, i int) int {
	rd, ok := p.files[f]
	if !ok || i < 1 || i > len(rd.tokLine) {
		return -1
	}
	return rd.tokLine[i-1]
}

func (p *project) traceStrings(tr []trItem) []string {
	out := make([]string, 0, len(tr))
	for _, t := range tr {
		out = append(out, fmt.Sprintf("%s:%d", t.F, p.lineOf(t.F, t.I)))
	}
	return out
}

// errTrace extracts the include trace lines ("path:line") of an error, relative to the project.
func (p *project) errTrace(je *jerr.JApiError) []string {
	lines := strings.Split(je.Error(), "\n")
	msgLines := strings.Count(je.Msg, "\n") + 1
	if len(lines) <= msgLines+1 {
		return []string{}
	}
	out := []string{}
	for _, l := range lines[msgLines+1:] {
		i := strings.LastIndexByte(l, ':')
		if i < 0 {
			out = append(out, l)
			continue
		}
		out = append(out, p.rel(l[:i])+l[i:])
	}
	return out
}

func classifyIncErr(msg string) string {
	c := classifyErr(msg)
	if !strings.HasPrefix(c, "other:") {
		if c == "noparam" && strings.Contains(msg, "Filename") {
			return "noparam"
		}
		return c
	}
	has := func(s string) bool { return strings.Contains(msg, s) }
	switch {
	case has(jerr.IncludeDirectiveErr):
		return "include-jsight"
	case has("does not exist"):
		return "notexist"
	case has("is a directory"):
		return "isdir"
	case has("(Filename)") && (has(jerr.IncludeRootErr) || has(jerr.IncludeUpErr) || has(jerr.IncludeSeparatorErr) || has("cannot be empty")):
		return "badname"
	case has(jerr.IncorrectParameter):
		return "param"
	}
	return c
}

func eqStrs(a, b []string) bool {
	if len(a) != len(b) {
		return false
	}
	for i := range a {
		if a[i] != b[i] {
			return false
		}
	}
	return true
}

// traceVerdict compares an observed trace with the truthful one and with what the
// documented tracer-cache quirk would produce.
func traceVerdict(p *project, got []string, truth, quirk []trItem) string {
	if eqStrs(got, p.traceStrings(truth)) {
		return "ok"
	}
	if eqStrs(got, p.traceStrings(quirk)) {
		return "quirk"
	}
	return "wrong"
}

var selftestEOL bool

var spellingSeed = func() int {
	n := 0
	fmt.Sscan(os.Getenv("VERIF_SEED"), &n)
	return n
}()

// c07-replay <tlc-output> [selftest]
func c07Replay(args []string) *Result {
	res := &Result{}
	selftest := len(args) > 1 && args[1] == "selftest"
	base, err := os.MkdirTemp(scratchBase(), "vh-c07-")
	if err != nil {
		res.Error = err.Error()
		return res
	}
	defer os.RemoveAll(base)
	distinct := map[string]struct{}{}
	ferr := forEachEmitted(args[0], "E", func(js string) error {
		var cs c07Case
		if err := json.Unmarshal([]byte(js), &cs); err != nil {
			return fmt.Errorf("bad emission: %v", err)
		}
		res.Cases++
		if selftest {
			switch {
			case cs.Res == "ok":
				cs.Res, cs.Err.Cls = "err", "recursion"
			case len(cs.Err.Trace) > 0:
				cs.Err.Trace, cs.Err.QTrace = nil, nil
			default:
				cs.Res = "ok"
			}
		}
		if selftest {
			spellingSeed = 4 - res.Cases%4 // canonical spelling: every comparison applies
			selftestEOL = true
		}
		c07One(res, base, &cs, distinct)
		if selftest && res.Cases >= 1500 {
			return errStop
		}
		return nil
	})
	if ferr != nil && ferr != errStop {
		res.Error = ferr.Error()
	}
	res.Nontrivial = len(distinct)
	return res
}

func shapeKey(cs *c07Case) string {
	var sb strings.Builder
	for _, f := range []string{"root.jst", "a.jst", "b.jst", "c.jst"} {
		sb.WriteString(lexShapeToks(cs.Content[f]))
		sb.WriteByte('|')
	}
	return sb.String()
}

func c07One(res *Result, base string, cs *c07Case, distinct map[string]struct{}) {
	// the line-break convention of the files is an environment choice as well: LF, CRLF, CR in turn
	projEOL = []string{"\n", "\r\n", "\r"}[((res.Cases+spellingSeed)/4)%3]
	projPad = []int{0, 0, 199, 200, 0, 201, 260}[((res.Cases+spellingSeed)/12)%7]
	if selftestEOL {
		projEOL, projPad = "\n", 0
	}
	defer func() { projEOL, projPad = "\n", 0 }()
	pbase := base
	if ((res.Cases+spellingSeed)/5)%4 == 2 {
		// where the project lives is an environment choice too: deep in the tree, every file name is longer than 256 bytes
		pbase = filepath.Join(base, strings.Repeat("d", 140), strings.Repeat("e", 140))
		if err := os.MkdirAll(pbase, 0o755); err != nil {
			pbase = base
		} else {
			res.count("deep-directory")
		}
	}
	p, err := writeProject(pbase, cs.Content, false)
	if err != nil {
		res.Error = err.Error()
		return
	}
	files := map[string]string{}
	for n, rd := range p.files {
		files[n] = rd.text
	}
	replay := map[string]any{"kind": "c07", "case": cs, "files": files, "eol": projEOL, "pad": projPad}
	nInc := 0
	for _, tt := range cs.Content {
		for _, t := range tt {
			if t.T == "I" {
				nInc++
			}
		}
	}
	if nInc > 0 {
		distinct[shapeKey(cs)] = struct{}{}
	}
	if len(res.Samples) < 2 && nInc > 1 && cs.Res == "err" {
		res.sample(map[string]any{"root.jst": p.files["root.jst"].text, "a.jst": p.files["a.jst"].text, "b.jst": p.files["b.jst"].text, "spec_error": cs.Err})
	}
	var ops []string
	core.VerifFileAccessObserver = func(op, path string) { ops = append(ops, p.rel(path)) }
	defer func() { core.VerifFileAccessObserver = nil }()

	// The spelling of the root path is an environment choice that must not matter: rotate it.
	rootPath := filepath.Join(p.dir, "root.jst")
	switch (res.Cases + spellingSeed) % 4 {
	case 1:
		rootPath = p.dir + "/./root.jst"
	case 2:
		rootPath = p.dir + "//root.jst"
	case 3:
		rootPath = p.dir + "/sub/../root.jst"
		if ((res.Cases+spellingSeed)/4)%2 == 1 {
			// the root file the caller names is a symbolic link (in the project directory) to a file that lives elsewhere,
			// next to decoys with the names of the project's files: INCLUDE is relative to the file the caller named
			else_ := filepath.Join(base, "elsewhere")
			_ = os.MkdirAll(filepath.Join(else_, "sub"), 0o755)
			for n := range p.files {
				_ = os.WriteFile(filepath.Join(else_, n), []byte("TYPE @decoy any\n"), 0o644)
			}
			_ = os.WriteFile(filepath.Join(else_, "real-root.jst"), []byte(p.files["root.jst"].text), 0o644)
			_ = os.Remove(filepath.Join(p.dir, "lnkroot.jst"))
			if os.Symlink(filepath.Join(else_, "real-root.jst"), filepath.Join(p.dir, "lnkroot.jst")) == nil {
				rootPath = filepath.Join(p.dir, "lnkroot.jst")
				res.count("root-is-a-symlink")
			}
		}
	}
	replay["root_path_spelling"] = (res.Cases + spellingSeed) % 4
	var c *core.JApiCore
	var je *jerr.JApiError
	panicked := ""
	func() {
		defer func() {
			if r := recover(); r != nil {
				panicked = fmt.Sprint(r)
			}
		}()
		c = core.NewJApiCore(fs.NewFile(rootPath, p.files["root.jst"].text))
		je = c.VerifScanOnly()
	}()
	res.count("spec-" + cs.Res + "-" + cs.Err.Cls)
	if panicked != "" {
		res.mismatch("c07:panic", "scanProject panics: "+panicked, replay)
		return
	}
	// With a non-canonical spelling of the root path the code identifies the root file by two
	// different names, so a cycle through the root is detected one lap later: the verdict
	// (recursion error) is the property, the exact lap is not.
	// (the model says whether the root file is opened again: an INCLUDE that names it may never be reached)
	reentersRoot := false
	for _, o := range cs.Opened {
		if o == "root.jst" {
			reentersRoot = true
		}
	}
	if strings.HasSuffix(rootPath, "lnkroot.jst") {
		// the public entry point on the link: every file it opens has to be a file of the project directory
		var ops2 []string
		core.VerifFileAccessObserver = func(op, path string) { ops2 = append(ops2, p.rel(path)) }
		func() {
			defer func() { _ = recover() }()
			_, _ = kit.NewJapi(rootPath)
		}()
		core.VerifFileAccessObserver = func(op, path string) { ops = append(ops, p.rel(path)) }
		for _, o := range ops2 {
			if strings.HasPrefix(o, "..") || filepath.IsAbs(o) {
				res.mismatch("c07:opened-outside-project", fmt.Sprintf("root named through a symbolic link: kit.NewJapi hands these paths to the OS: %v", ops2), replay)
				return
			}
		}
	}
	if reentersRoot && (res.Cases+spellingSeed)%4 != 0 {
		for _, o := range ops {
			if strings.HasPrefix(o, "..") || filepath.IsAbs(o) {
				res.mismatch("c07:opened-outside-project", fmt.Sprintf("paths handed to the OS: %v", ops), replay)
				return
			}
		}
		// (the extra lap re-scans the root's leading directives, so another error may come first;
		// the project must be rejected, which error wins is not fixed by the property)
		if je == nil {
			res.mismatch("c07:cycle-through-root-accepted", "a project that includes its root file again is accepted (root path spelled non-canonically)", replay)
		}
		res.count("root-reentered-noncanonical")
		return
	}
	// files handed to the OS
	if !eqStrs(ops, cs.Opened) {
		outside := false
		for _, o := range ops {
			if strings.HasPrefix(o, "..") || filepath.IsAbs(o) {
				outside = true
			}
		}
		sig := "c07:opened"
		if outside {
			sig = "c07:opened-outside-project"
		}
		res.mismatch(sig, fmt.Sprintf("paths handed to the OS: spec %v code %v", cs.Opened, ops), replay)
		return
	}
	// C14: an INCLUDE closed a cycle -> the project has to be rejected with the recursion error. (The code notices a cycle
	// one lap later, when the re-entered file reaches the INCLUDE again; whatever it rejects on the way masks the cycle.)
	if len(cs.Cyc) > 0 && !selftestEOL {
		res.count("cycles")
		if je == nil {
			res.mismatch("c14:cycle-accepted", "a project with an include cycle is accepted", replay)
		} else if got := classifyIncErr(je.Msg); got != "recursion" {
			res.mismatch("c14:cycle-masked-by:"+short(got), fmt.Sprintf("the INCLUDE at %s token %d closes a cycle, but the project is rejected with %q at %s:%d instead of the recursion error",
				cs.Cyc[0].F, cs.Cyc[0].I, firstLine(je.Msg), p.rel(je.File.Name()), je.Line), replay)
		}
	}
	if cs.Res == "err" {
		if je == nil {
			res.mismatch("c07:spec-"+cs.Err.Cls+"-code-ok", fmt.Sprintf("spec: %s at %s token %d; code accepts", cs.Err.Cls, cs.Err.F, cs.Err.I), replay)
			return
		}
		got := classifyIncErr(je.Msg)
		if got != cs.Err.Cls {
			res.mismatch("c07:class-"+cs.Err.Cls+"-"+short(got), fmt.Sprintf("spec: %s at %s token %d; code: %s (%s) at %s:%d", cs.Err.Cls, cs.Err.F, cs.Err.I, got, firstLine(je.Msg), p.rel(je.File.Name()), je.Line), replay)
			return
		}
		if f := p.rel(je.File.Name()); f != cs.Err.F {
			res.mismatch("c07:file-"+cs.Err.Cls, fmt.Sprintf("%s located in %s, spec says %s", cs.Err.Cls, f, cs.Err.F), replay)
			return
		}
		if cs.Err.Cls != "unclosed" {
			if want := p.lineOf(cs.Err.F, cs.Err.I); int(je.Line) != want {
				res.mismatch("c07:line-"+cs.Err.Cls, fmt.Sprintf("%s reported on line %d of %s, the offending token is on line %d", cs.Err.Cls, je.Line, cs.Err.F, want), replay)
				return
			}
		}
		if !locationTruthful(je) {
			res.mismatch("c07:location-fields", fmt.Sprintf("index/line/column/quote of the error are not those of the file: index %d line %d column %d quote %q", je.Index, je.Line, je.Column, je.Quote), replay)
			return
		}
		switch traceVerdict(p, p.errTrace(je), cs.Err.Trace, cs.Err.QTrace) {
		case "quirk":
			res.mismatch("c07:tracer-cache-quirk", fmt.Sprintf("include trace %v names the first INCLUDE written in the including file; the chain followed is %v", p.errTrace(je), p.traceStrings(cs.Err.Trace)), replay)
		case "wrong":
			res.mismatch("c07:trace-"+cs.Err.Cls, fmt.Sprintf("include trace %v; the chain followed is %v", p.errTrace(je), p.traceStrings(cs.Err.Trace)), replay)
		}
		return
	}
	// accepted by the scan phase
	if je != nil {
		res.mismatch("c07:spec-ok-code-"+short(classifyIncErr(je.Msg)), fmt.Sprintf("spec: scanning succeeds; code: %s at %s:%d", firstLine(je.Msg), p.rel(je.File.Name()), je.Line), replay)
		return
	}
	var flat []*core.VerifNode
	var parents []int
	var walk func(nn []*core.VerifNode, parent int)
	walk = func(nn []*core.VerifNode, parent int) {
		for _, n := range nn {
			flat = append(flat, n)
			parents = append(parents, parent)
			walk(n.Children, len(flat))
		}
	}
	walk(c.VerifTree(), 0)
	if len(flat) != len(cs.Nodes) {
		res.mismatch("c07:tree-size", fmt.Sprintf("tree has %d nodes, spec says %d", len(flat), len(cs.Nodes)), replay)
		return
	}
	for i, n := range flat {
		m := cs.Nodes[i]
		if modelKind(n.Kind) != m.K || p.rel(n.File) != m.File || n.Line != p.lineOf(m.File, m.FTok) || parents[i] != m.Parent {
			res.mismatch("c07:tree-node", fmt.Sprintf("node %d: code %s %s:%d parent %d; spec %s %s:%d parent %d", i+1, n.Kind, p.rel(n.File), n.Line, parents[i], m.K, m.File, p.lineOf(m.File, m.FTok), m.Parent), replay)
			return
		}
		got := make([]string, 0, len(n.Trace))
		for _, l := range n.Trace {
			j := strings.LastIndexByte(l, ':')
			got = append(got, p.rel(l[:j])+l[j:])
		}
		switch traceVerdict(p, got, m.Trace, m.QTrace) {
		case "quirk":
			res.mismatch("c07:tracer-cache-quirk", fmt.Sprintf("directive %s at %s:%d carries the include trace %v; it was reached through %v", m.K, m.File, n.Line, got, p.traceStrings(m.Trace)), replay)
			return
		case "wrong":
			res.mismatch("c07:node-trace", fmt.Sprintf("directive %s at %s:%d carries the include trace %v; it was reached through %v", m.K, m.File, n.Line, got, p.traceStrings(m.Trace)), replay)
			return
		}
	}
	// a rule error of the build phase on a directive of an included file
	if cs.Dup > 0 {
		p2, err := writeProject(base, cs.Content, true)
		if err != nil {
			res.Error = err.Error()
			return
		}
		core.VerifFileAccessObserver = nil
		_, je2 := kit.NewJapi(filepath.Join(p2.dir, "root.jst"))
		m := cs.Nodes[cs.Dup-1]
		res.count("dup-type-builds")
		switch {
		case je2 == nil:
			res.mismatch("c07:dup-accepted", "duplicate TYPE accepted", replay)
		case classifyErr(je2.Msg) != "dupname":
			res.drift("dup TYPE project rejected with " + firstLine(je2.Msg))
		case p2.rel(je2.File.Name()) != m.File || int(je2.Line) != p2.lineOf(m.File, m.FTok):
			res.mismatch("c07:dup-location", fmt.Sprintf("duplicate name reported at %s:%d, the second declaration is at %s:%d", p2.rel(je2.File.Name()), je2.Line, m.File, p2.lineOf(m.File, m.FTok)), replay)
		default:
			switch traceVerdict(p2, p2.errTrace(je2), m.Trace, m.QTrace) {
			case "quirk":
				res.mismatch("c07:tracer-cache-quirk", fmt.Sprintf("duplicate-name error carries the include trace %v; the declaration was reached through %v", p2.errTrace(je2), p2.traceStrings(m.Trace)), replay)
			case "wrong":
				res.mismatch("c07:dup-trace", fmt.Sprintf("duplicate-name error carries the include trace %v; the declaration was reached through %v", p2.errTrace(je2), p2.traceStrings(m.Trace)), replay)
			}
		}
	}
	if len(res.Samples) < 3 && nInc > 0 && len(cs.Nodes) > 1 {
		res.sample(map[string]any{"files": map[string]string{"root.jst": p.files["root.jst"].text, "a.jst": p.files["a.jst"].text, "b.jst": p.files["b.jst"].text}, "spec": cs.Res, "nodes": len(cs.Nodes)})
	}
}

// locationTruthful recomputes line, column and quote from the file bytes and the index.
func locationTruthful(je *jerr.JApiError) bool {
	if je.File == nil {
		return false
	}
	data := []byte(je.File.Content().String())
	idx := int(je.Index)
	if idx > len(data) {
		return false
	}
	if idx == len(data) && len(data) == 0 {
		return true // an empty file has no line
	}
	atEOF := idx == len(data) // the position right behind the last byte: line and column are checked, the quote is the last line's
	// line breaks: LF, CRLF or a lone CR (the files of one project use one convention)
	line, col := 1, 1
	ls := 0
	for i := 0; i < idx; i++ {
		switch {
		case data[i] == '\n', data[i] == '\r' && (i+1 >= len(data) || data[i+1] != '\n'):
			line++
			col = 1
			ls = i + 1
		case data[i] == '\r':
			// first byte of CRLF
		default:
			col++
		}
	}
	le := len(data)
	for i := idx; i < len(data); i++ {
		if data[i] == '\n' || data[i] == '\r' {
			le = i
			break
		}
	}
	if int(je.Line) != line || int(je.Column) != col {
		return false
	}
	if atEOF {
		return true
	}
	q := strings.TrimLeft(string(data[ls:le]), " \t")
	if len(data[ls:le]) > 200 {
		return strings.HasSuffix(je.Quote, "...")
	}
	return je.Quote == q
}

// inc-rand <out.ndjson> <seed> <n>: random projects beyond the bounds of MC_C07 (six files in two directories, up to 7
// tokens per file); spec/MC_IncRand.tla runs the specification on each and emits the expectation c07-replay compares.
func init() { subcmds["inc-rand"] = incRand }

func incRand(args []string) *Result {
	res := &Result{}
	r := newRng(uint64(atoi(args[1])))
	n := atoi(args[2])
	w := newNDJSON(args[0])
	defer w.close()
	files := []string{"root.jst", "a.jst", "b.jst", "c.jst", "sub/d.jst", "sub/e.jst"}
	d := func(k string, e bool, p ...string) Tok {
		if p == nil {
			p = []string{}
		}
		return Tok{T: "D", K: k, P: p, E: e}
	}
	inc := func(name string) Tok { return Tok{T: "I", K: "INCLUDE", P: []string{name}} }
	for c := 0; c < n; c++ {
		content := map[string][]Tok{}
		// how likely an INCLUDE points backwards (towards the root): cycles are rare, most graphs are DAGs with sharing
		back := []int{0, 0, 10, 40}[r.intn(4)]
		for fi, f := range files {
			toks := []Tok{}
			max := 1 + r.intn(7)
			if fi > 0 && r.intn(8) == 0 {
				max = 0
			}
			open, method := 0, false
			for tries := 0; len(toks) < max && tries < 40; tries++ {
				switch x := r.intn(20); {
				case x < 7:
					// INCLUDE
					var name string
					tgt := fi + 1 + r.intn(len(files)-fi)
					if tgt >= len(files) || r.intn(100) < back {
						tgt = r.intn(len(files))
					}
					name = files[tgt]
					if strings.HasPrefix(f, "sub/") {
						// names are relative to the including file's directory
						switch {
						case strings.HasPrefix(name, "sub/") && r.intn(6) > 0:
							name = strings.TrimPrefix(name, "sub/")
						case r.intn(3) == 0:
							name = "../" + name
						}
					} else if strings.HasPrefix(name, "sub/") && r.intn(8) == 0 {
						name = strings.TrimPrefix(name, "sub/") // looked up in the wrong directory: does not exist
					}
					if name == "../root.jst" || name == "../b.jst" || name == "../c.jst" || strings.HasPrefix(name, "../sub") {
						name = "../a.jst"
					}
					if r.intn(40) == 0 {
						name = r.pick([]string{"missing.jst", "sub", "..", "/a.jst", "x\\y.jst", "", "./a.jst", "sub/../a.jst"})
					}
					t := inc(name)
					if r.intn(60) == 0 {
						t.P = append(t.P, "extra")
					}
					if r.intn(60) == 0 {
						t.A = "note"
					}
					toks = append(toks, t)
				case x < 13:
					toks = append(toks, d("TYPE", false, r.pick([]string{"@t1", "@t2", "@t3", "@t4", "@t5", "@t6", "@t7", "@t8", "@t9"}), "any"))
				case x < 15:
					e := r.intn(3) == 0
					if e {
						open++
					}
					toks = append(toks, d("URL", e, r.pick([]string{"pa", "pai"})))
				case x < 17:
					method = true
					if r.intn(2) == 0 {
						toks = append(toks, d("GET", false, "pb"))
					} else {
						toks = append(toks, d(r.pick([]string{"GET", "POST"}), false))
					}
				case x < 18:
					if method || r.intn(10) == 0 {
						toks = append(toks, d("RESP", false, "any"))
					}
				case x < 19:
					if open > 0 || r.intn(25) == 0 {
						open--
						method = false
						toks = append(toks, Tok{T: "C", K: ")", P: []string{}})
					}
				default:
					switch r.intn(6) {
					case 0:
						toks = append(toks, d("Body", false, "any"))
					case 1:
						open++
						toks = append(toks, d("MACRO", true, r.pick([]string{"@m1", "@m2"})))
					}
				}
			}
			if open > 0 && r.intn(5) > 0 {
				for ; open > 0; open-- {
					toks = append(toks, Tok{T: "C", K: ")", P: []string{}})
				}
			}
			content[f] = toks
		}
		w.write(map[string]any{"content": content})
		res.Cases++
	}
	res.Nontrivial = res.Cases
	res.sample(map[string]any{"projects": n})
	return res
}
