package main

import (
	"encoding/json"
	"fmt"
	"os"
	"strings"
)

func init() {
	subcmds["c04-matrix"] = c04Matrix
}

type c04Cell struct {
	Pos        string `json:"pos"`
	Def        string `json:"def"`
	Text       string `json:"text"`
	MustReject bool   `json:"mustReject"`
}

func indent(s, p string) string {
	return p + strings.ReplaceAll(s, "\n", "\n"+p)
}

// cellDocument renders the document of one matrix cell.
func cellDocument(c c04Cell) string {
	b := c.Text
	enumBody := "[1, 2]"
	if c.Def == "syntax" {
		enumBody = "[1, ]"
	}
	regexBody := "/ab+/"
	if c.Def == "invalid-regex" {
		regexBody = "/(/"
	}
	if strings.HasPrefix(c.Text, "/") {
		regexBody = c.Text // the regex classes carry their own text
	}
	head := "JSIGHT 0.3\n"
	switch c.Pos {
	case "TYPE":
		return head + "TYPE @x\n" + b + "\nGET /a\n  200 @x\n"
	case "TYPE-regex":
		return head + "TYPE @x regex\n" + regexBody + "\nGET /a\n  200 @x\n"
	case "Request":
		return head + "POST /a\n  Request\n" + indent(b, "  ") + "\n  200 any\n"
	case "Request-Body":
		return head + "POST /a\n  Request\n    Body\n" + indent(b, "    ") + "\n  200 any\n"
	case "Request-regex":
		return head + "POST /a\n  Request regex\n  " + regexBody + "\n  200 any\n"
	case "RESP":
		return head + "GET /a\n  200\n" + indent(b, "  ") + "\n"
	case "RESP-Body":
		return head + "GET /a\n  200\n    Body\n" + indent(b, "    ") + "\n"
	case "RESP-regex":
		return head + "GET /a\n  200 regex\n  " + regexBody + "\n"
	case "Headers-req":
		return head + "POST /a\n  Request\n    Headers\n" + indent(b, "    ") + "\n    Body any\n  200 any\n"
	case "Headers-resp":
		return head + "GET /a\n  200 any\n    Headers\n" + indent(b, "    ") + "\n"
	case "Query":
		return head + "GET /a\n  Query\n" + indent(b, "  ") + "\n  200 any\n"
	case "Path":
		return head + "GET /a/{id}\n  Path\n" + indent(b, "  ") + "\n  200 any\n"
	case "Path-full", "Query-full", "Headers-req-full", "Request-full", "Headers-resp-full", "RESP-full":
		// the schema under test among valid companions of every other kind on the same method
		ok := "{\n  \"id\": 1\n}"
		pick := func(which string) string {
			if which+"-full" == c.Pos {
				return b
			}
			return ok
		}
		return head + "POST /a/{id}\n  Path\n" + indent(pick("Path"), "  ") + "\n  Query\n" + indent(pick("Query"), "  ") +
			"\n  Request\n    Headers\n" + indent(pick("Headers-req"), "    ") + "\n    Body\n" + indent(pick("Request"), "    ") +
			"\n  200\n    Headers\n" + indent(pick("Headers-resp"), "    ") + "\n    Body\n" + indent(pick("RESP"), "    ") + "\n  404 any\n"
	case "Params":
		return head + "URL /r\n  Protocol json-rpc-2.0\n  Method m\n    Params\n" + indent(b, "    ") + "\n"
	case "Result":
		return head + "URL /r\n  Protocol json-rpc-2.0\n  Method m\n    Result\n" + indent(b, "    ") + "\n"
	case "RESP-first-of-two":
		return head + "GET /a\n  200\n    Headers\n    {\"H\": \"v\"}\n  404 any\n"
	case "RESP-middle-of-three":
		return head + "GET /a\n  200 any\n  201\n    Headers\n    {\"H\": \"v\"}\n  404 any\n"
	case "Request-headers-only":
		return head + "POST /a\n  Request\n    Headers\n    {\"H\": \"v\"}\n  200 any\n"
	case "ENUM":
		return head + "ENUM @e\n" + enumBody + "\nGET /a\n  200 any\n"
	}
	return head
}

// c04-matrix <tlc-output> [selftest]
func c04Matrix(args []string) *Result {
	res := &Result{}
	selftest := len(args) > 1 && args[1] == "selftest"
	err := forEachEmitted(args[0], "E", func(js string) error {
		var c c04Cell
		if err := json.Unmarshal([]byte(js), &c); err != nil {
			return err
		}
		res.Cases++
		text := cellDocument(c)
		src := projSrc{name: "cell:" + c.Pos + "/" + c.Def, text: text}
		j, ok, msg := src.build()
		replay := map[string]any{"kind": "c04-cell", "pos": c.Pos, "defect": c.Def, "text": text}
		if len(res.Samples) < 3 && res.Cases%23 == 4 {
			res.sample(map[string]any{"cell": c.Pos + "/" + c.Def, "accepted": ok, "text": text})
		}
		switch {
		case !ok && strings.HasPrefix(msg, "panic"):
			res.drift("cell " + c.Pos + "/" + c.Def + ": build " + msg)
		case !ok:
			res.count("rejected")
			if c.Def == "none" {
				res.mismatch("c04:valid-cell-rejected:"+c.Pos, fmt.Sprintf("the defect-free document of position %s is rejected: %s", c.Pos, firstLine(msg)), replay)
			}
		default:
			res.count("accepted")
			res.Nontrivial++
			if c.MustReject {
				res.count("accepted-although-defective")
			}
			if selftest {
				res.mismatch("c04:selftest", "selftest", replay)
				return nil
			}
			if os.Getenv("VH_MATRIX_CHECK") == "c17" {
				if sig, what := checkC17(&j); sig != "" {
					res.mismatch(sig+":"+c.Pos+"/"+c.Def, fmt.Sprintf("position %s, defect %s: %s", c.Pos, c.Def, what), replay)
				}
				return nil
			}
			if sig, what := checkC04(&j); sig != "" {
				res.mismatch(sig+":"+c.Pos+"/"+c.Def, fmt.Sprintf("position %s, defect %s: %s", c.Pos, c.Def, what), replay)
			}
		}
		return nil
	})
	if err != nil {
		res.Error = err.Error()
	}
	return res
}
