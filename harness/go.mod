module verifharness

go 1.18

require (
	github.com/jsightapi/jsight-api-core v0.0.0
	github.com/jsightapi/jsight-schema-core v0.2.0
)

require github.com/lucasjones/reggen v0.0.0-20200904144131-37ba4fa293bb // indirect

replace github.com/jsightapi/jsight-api-core => /repo
