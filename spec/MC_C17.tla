------------------------------ MODULE MC_C17 ------------------------------
(***************************************************************************)
(* C17: the OpenAPI export over the schema-feature matrix.  Export(c) is   *)
(* either an error value or a document; never a panic.  The matrix crosses *)
(* every rule of JSight Schema 0.3 with the values it may take (including  *)
(* the ones the converter has no mapping for), at property level and at    *)
(* object level, with and without a user-type key shortcut, in a TYPE, a   *)
(* response body and a request body.  Cells the build rejects are skipped  *)
(* by the harness; for accepted cells the export must be sound.            *)
(***************************************************************************)
EXTENDS Integers, Sequences, FiniteSets, TLC, Json

SchemaTypes == {"any", "string", "integer", "float", "decimal", "boolean", "object", "array", "null", "email", "uri", "uuid",
                "date", "datetime", "enum", "mixed", "@cat", "@nope"}
PropRules ==
  {[rule |-> "type", value |-> "\"" \o t \o "\"", example |-> "1"] : t \in SchemaTypes}
  \cup {[rule |-> "type", value |-> "\"" \o t \o "\"", example |-> "\"s\""] : t \in SchemaTypes}
  \cup {[rule |-> r, value |-> v, example |-> "5"] : r \in {"min", "max"}, v \in {"1", "5", "9.5", "-1"}}
  \cup {[rule |-> "exclusiveMinimum", value |-> "true, min: 1", example |-> "5"],
        [rule |-> "precision", value |-> "2", example |-> "1.25 "],
        [rule |-> "minLength", value |-> "1", example |-> "\"abc\""], [rule |-> "maxLength", value |-> "3", example |-> "\"abc\""],
        [rule |-> "regex", value |-> "\"^a\"", example |-> "\"abc\""], [rule |-> "regex", value |-> "\"(\"", example |-> "\"abc\""],
        [rule |-> "nullable", value |-> "true", example |-> "1"], [rule |-> "optional", value |-> "true", example |-> "1"],
        [rule |-> "const", value |-> "true", example |-> "1"], [rule |-> "const", value |-> "true", example |-> "\"s\""],
        [rule |-> "enum", value |-> "[1, 2]", example |-> "1"], [rule |-> "enum", value |-> "@colors", example |-> "\"red\""],
        [rule |-> "or", value |-> "[\"integer\", \"string\"]", example |-> "1"],
        [rule |-> "or", value |-> "[{type: \"integer\"}, {type: \"enum\", enum: [1, 2]}]", example |-> "1"],
        [rule |-> "or", value |-> "[\"@cat\", \"@dog\"]", example |-> "@cat | @dog"],
        [rule |-> "minItems", value |-> "1", example |-> "[1]"], [rule |-> "maxItems", value |-> "2", example |-> "[1]"],
        [rule |-> "serializeFormat", value |-> "\"json\"", example |-> "1"]}
ObjRules ==
  {[rule |-> "additionalProperties", value |-> "\"" \o t \o "\""] : t \in SchemaTypes}
  \cup {[rule |-> "additionalProperties", value |-> v] : v \in {"true", "false"}}
  \cup {[rule |-> "allOf", value |-> "\"@cat\""], [rule |-> "allOf", value |-> "[\"@cat\", \"@dog\"]"],
        [rule |-> "nullable", value |-> "true"], [rule |-> "optional", value |-> "true"]}
Places == {"TYPE", "RESP", "Request"}

VARIABLES cell
Init == cell \in ({[level |-> "prop", rule |-> r.rule, value |-> r.value, example |-> r.example, shortcut |-> FALSE, place |-> p] : r \in PropRules, p \in Places}
                  \cup {[level |-> "obj", rule |-> r.rule, value |-> r.value, example |-> "", shortcut |-> sc, place |-> p] : r \in ObjRules, sc \in BOOLEAN, p \in Places})
Next == UNCHANGED cell
Spec == Init /\ [][Next]_cell

\* M: the export is total by design -- an outcome exists for every cell
Export(c) == IF c.value \in {"\"@nope\""} THEN "build-error" ELSE "error-or-document"
Total == Export(cell) \in {"build-error", "error-or-document"}

EmitInv == PrintT("E " \o ToJson(cell))
=============================================================================
