SPECIFICATION Spec
CONSTANT Deep = FALSE
INVARIANT EmitInv
INVARIANT BaseOK
INVARIANT BanRule
CHECK_DEADLOCK FALSE
