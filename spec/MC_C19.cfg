SPECIFICATION Spec
INVARIANT EmitInv
INVARIANT BaseOK
INVARIANT BanRule
CHECK_DEADLOCK FALSE
