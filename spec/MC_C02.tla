------------------------------ MODULE MC_C02 ------------------------------
(***************************************************************************)
(* C02 / C05 (/ C04 C06 C16 C17 input generator): every document made of   *)
(* JSIGHT plus up to MaxBlocks distinct blocks in every order.  The        *)
(* specification computes the verdict and -- when accepted -- the catalog  *)
(* skeleton; the invariants of C05 are checked on every accepted catalog.  *)
(* Each document is emitted with its expectation and replayed on the real  *)
(* build in several layouts.                                               *)
(***************************************************************************)
EXTENDS Blocks, Json

CONSTANTS MaxBlocks,
          Prelude      \* a sequence of blocks other blocks depend on (tags, types, enum, macro), placed before or after
                       \* the chosen blocks -- declarations are order-independent, so both must behave alike; <<>> = none
PreludeNone == <<>>
PreludeDeps == <<"tag1", "tag2", "t1", "t2", "t5", "e1", "mac">>
VARIABLES bs, pre,
          ver          \* the parameter of JSIGHT: "0.3" or one of its other spellings, which are different (unsupported) versions
vars == <<bs, pre, ver>>
Versions == {"0.3", "0.3.0", "0.03", "00.3", "0.30", ".3", "0.2"}
Init == bs = <<>> /\ pre \in (IF Prelude = <<>> THEN {"none"} ELSE {"none", "before", "after"}) /\ ver \in Versions
InPrelude(b) == \E i \in 1..Len(Prelude) : Prelude[i] = b
Next == /\ Len(bs) < MaxBlocks
        /\ \E b \in BlockIds : (\A i \in 1..Len(bs) : bs[i] # b) /\ (pre # "none" => ~InPrelude(b)) /\ bs' = Append(bs, b)
        /\ (ver = "0.3" \/ Len(bs) < 1)       \* the other versions with documents of one block only
        /\ UNCHANGED <<pre, ver>>
Spec == Init /\ [][Next]_vars

Blocks(b, q) == CASE q = "none" -> b [] q = "before" -> Prelude \o b [] q = "after" -> b \o Prelude
DocV(b, v) == [DocOf(b) EXCEPT ![1].p = <<v>>]
Doc == DocV(Blocks(bs, pre), ver)
T == RunTree(Doc)
X == Expand(T)
C == RunCatalog(T, X)
Accepted == T.res = "ok" /\ C.res = "ok"
C05 == Accepted => CrossRefsClosed(C)
\* the model's verdict is one of the classes the harness knows
KnownVerdict == T.res \in {"ok"} => C.res \in {"ok", "err"}
\* document order: sections list entities in the order of their (expanded) declaration
InterOrder == Accepted => \A i, j \in 1..Len(C.inters) : i < j => C.inters[i].node < C.inters[j].node

ASSUME PrintT("L " \o ToJson(PoolsJson))
Emit == LET b == Blocks(bs', pre') IN PrintT("E " \o ToJson([blocks |-> b, doc |-> DocV(b, ver'), x |-> Build(DocV(b, ver'))]))
=============================================================================
