------------------------------ MODULE MC_C02 ------------------------------
(***************************************************************************)
(* C02 / C05 (/ C04 C06 C16 C17 input generator): every document made of   *)
(* JSIGHT plus up to MaxBlocks distinct blocks in every order.  The        *)
(* specification computes the verdict and -- when accepted -- the catalog  *)
(* skeleton; the invariants of C05 are checked on every accepted catalog.  *)
(* Each document is emitted with its expectation and replayed on the real  *)
(* build in several layouts.                                               *)
(***************************************************************************)
EXTENDS Blocks, Json

CONSTANT MaxBlocks
VARIABLE bs
Init == bs = <<>>
Next == Len(bs) < MaxBlocks /\ \E b \in BlockIds : (\A i \in 1..Len(bs) : bs[i] # b) /\ bs' = Append(bs, b)
Spec == Init /\ [][Next]_bs

Doc == DocOf(bs)
T == RunTree(Doc)
X == Expand(T)
C == RunCatalog(T, X)
Accepted == T.res = "ok" /\ C.res = "ok"
C05 == Accepted => CrossRefsClosed(C)
\* the model's verdict is one of the classes the harness knows
KnownVerdict == T.res \in {"ok"} => C.res \in {"ok", "err"}
\* document order: sections list entities in the order of their (expanded) declaration
InterOrder == Accepted => \A i, j \in 1..Len(C.inters) : i < j => C.inters[i].node < C.inters[j].node

ASSUME PrintT("L " \o ToJson(PoolsJson))
Emit == PrintT("E " \o ToJson([blocks |-> bs', doc |-> DocOf(bs'), x |-> Build(DocOf(bs'))]))
=============================================================================
