SPECIFICATION Spec
CONSTANT N = 4
INVARIANT CycleIffRejected
INVARIANT NeverExpandsCycle
INVARIANT DepthBounded
INVARIANT EmitInv
CHECK_DEADLOCK FALSE
