----------------------------- MODULE MC_IncRand -----------------------------
(***************************************************************************)
(* Inc.tla as the judge of projects that were NOT chosen by TLC: the       *)
(* harness (vh inc-rand) draws random projects far beyond the bounds of    *)
(* MC_C07 -- six files in two directories, up to 7 tokens each, INCLUDEs   *)
(* resolved relative to the directory of the *including* file -- and logs  *)
(* them as NDJSON; this module runs the specification (RunInc) on every    *)
(* logged project, checks the model invariants on the run and emits the    *)
(* expectation in the format of MC_C07, which c07-replay compares with the *)
(* real build (verdict, class, file, line, include trace, trace of every   *)
(* directive, paths handed to the OS).                                     *)
(*                                                                         *)
(* Layout of the project directory (fixed, the harness writes it):         *)
(*    root.jst a.jst b.jst c.jst   sub/d.jst sub/e.jst                     *)
(***************************************************************************)
EXTENDS TLC, Json, Sequences, Integers, FiniteSets

CONSTANT W        \* number of independent chains of records (parallelism only)

Log == ndJsonDeserialize("inc_rand.ndjson")

Top == {"root.jst", "a.jst", "b.jst", "c.jst"}
SubF == {"sub/d.jst", "sub/e.jst"}
Refused(name) == CASE name \in {"..", "../a.jst", "./a.jst", "sub/../a.jst"} -> "dots"
                   [] name = "/a.jst" -> "abs"
                   [] name = "x\\y.jst" -> "backslash"
                   [] name = "" -> "empty"
                   [] OTHER -> ""
Res(f, name) ==
  IF Refused(name) # "" THEN [cls |-> Refused(name), file |-> "", path |-> ""]
  ELSE IF f \in Top
  THEN CASE name \in Top \cup SubF -> [cls |-> "ok", file |-> name, path |-> name]
         [] name = "sub" -> [cls |-> "isdir", file |-> "", path |-> name]
         [] OTHER -> [cls |-> "notexist", file |-> "", path |-> name]
  ELSE \* the including file lives in sub/: names are relative to sub/
       CASE name = "d.jst" -> [cls |-> "ok", file |-> "sub/d.jst", path |-> "sub/d.jst"]
         [] name = "e.jst" -> [cls |-> "ok", file |-> "sub/e.jst", path |-> "sub/e.jst"]
         [] OTHER -> [cls |-> "notexist", file |-> "", path |-> "sub/" \o name]

I == INSTANCE Inc WITH ResolveName <- Res, Banned <- {}

VARIABLES chain, idx
vars == <<chain, idx>>
Init == chain = 0 /\ idx = 0
Next == \/ chain = 0 /\ chain' \in 1..W /\ idx' = 0
        \/ chain > 0 /\ chain + W * (idx + 1) <= Len(Log) /\ idx' = idx + 1 /\ UNCHANGED chain
Spec == Init /\ [][Next]_vars

Has == chain > 0 /\ chain + W * idx <= Len(Log)
Content == Log[chain + W * idx].content
S == I!RunInc(Content)

\* ---- the model invariants of MC_C07 on the final state of every logged project
NoFileTwice == Has => \A i, j \in 1..Len(S.stack) : i # j => S.stack[i].f # S.stack[j].f
PlainNames == {"missing.jst", "d.jst", "e.jst", "a.jst", "b.jst", "c.jst", "root.jst", "sub", "sub/d.jst", "sub/e.jst"}
InProject(p) == p \in PlainNames \/ \E n \in PlainNames : p = "sub/" \o n
OpenedInside == Has => \A j \in 1..Len(S.opened) : InProject(S.opened[j])
RecursionSound == Has => ((S.res = "err" /\ S.err.cls = "recursion") => I!OnStack(S, S.cur.f))
NTok == LET fs == DOMAIN Content IN
        LET RECURSIVE Sum(_)
            Sum(X) == IF X = {} THEN 0 ELSE LET x == CHOOSE y \in X : TRUE IN Len(Content[x]) + Sum(X \ {x})
        IN Sum(fs)
\* every INCLUDE that is followed costs the included file's tokens once more; without a cycle the number of steps is
\* bounded by (tokens + files) per entry, entries <= 7^depth -- the random projects stay far below this constant
Terminates == Has => S.steps <= 4000

NodeView(n) == [k |-> n.k, file |-> n.file, ftok |-> n.ftok, trace |-> n.trace, qtrace |-> n.qtrace, parent |-> n.parent]
Emit == Has => PrintT("E " \o ToJson([content |-> Content, res |-> S.res, err |-> S.err, opened |-> S.opened, cyc |-> S.cyc,
                                       nodes |-> [j \in 1..Len(S.T.nodes) |-> NodeView(S.T.nodes[j])],
                                       dup |-> I!DupTypeNode(S.T)]))
=============================================================================
