------------------------------ MODULE MC_C16 ------------------------------
(***************************************************************************)
(* C16: every call history over the five accessors up to length MaxCalls.  *)
(* With VIEW on the mechanism state the graph is the set of distinct       *)
(* mechanism states x 5 accessors (each edge carries a shortest history);  *)
(* without it, every sequence.  Each emitted history is executed on fresh  *)
(* builds of real catalogs and the last call's bytes are compared with the *)
(* bytes that accessor returns on a pristine catalog.                      *)
(***************************************************************************)
EXTENDS Serial, Json

CONSTANT MaxCalls
VARIABLE s
Init == s = InitSer
Call == Len(s.calls) < MaxCalls /\ \E a \in Accessors : s' = After(s, a)
Spec == Init /\ [][Call]_s

RepeatableInv == Repeatable(s)
\* the mechanism state stops changing after the first marshal: at most 2 distinct mechanism states
View == [s EXCEPT !.calls = {s.calls[i] : i \in 1..Len(s.calls)}]
Emit == PrintT("E " \o ToJson([calls |-> s'.calls]))
=============================================================================
