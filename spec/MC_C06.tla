------------------------------ MODULE MC_C06 ------------------------------
(***************************************************************************)
(* C06: a process is a HISTORY of builds.  Each build reads the files that *)
(* are on disk at that moment and is configured by a list of option VALUES *)
(* taken from a pool that lives as long as the process (a server creates   *)
(* its options once and hands them to every build).  The specification     *)
(* gives the outcome class of a build as a function of (files, set of      *)
(* banned kinds) only -- Outcome does not read the history.  TLC           *)
(* enumerates every history up to MaxLen over the menus; the harness runs  *)
(* each one in one process with shared option values and compares every    *)
(* step with the model's class and with what a fresh process gives for the *)
(* same files and freshly made options.                                    *)
(***************************************************************************)
EXTENDS Sequences, Naturals, FiniteSets, TLC, Json

CONSTANTS MaxLen, Small

\* contents of common.jst / root.jst (the harness holds the texts; here: what matters for the verdict)
IncTab == [person1 |-> [kinds |-> {"TYPE"}, types |-> {"@person"}, dup |-> FALSE],
           person2 |-> [kinds |-> {"TYPE"}, types |-> {"@person"}, dup |-> FALSE],
           animal  |-> [kinds |-> {"TYPE"}, types |-> {"@animal"}, dup |-> FALSE],
           duptype |-> [kinds |-> {"TYPE"}, types |-> {"@person"}, dup |-> TRUE],
           empty   |-> [kinds |-> {},       types |-> {},          dup |-> FALSE]]
RootTab == [usesPerson |-> [kinds |-> {"JSIGHT", "INCLUDE", "GET", "RESP"}, needs |-> {"@person"}],
            usesAny    |-> [kinds |-> {"JSIGHT", "INCLUDE", "GET", "RESP"}, needs |-> {}],
            withMacro  |-> [kinds |-> {"JSIGHT", "INCLUDE", "MACRO", "PASTE", "URL", "GET", "RESP", "Query"}, needs |-> {}]]
IncMenu  == IF Small THEN {"person1", "duptype", "empty"} ELSE DOMAIN IncTab
RootMenu == IF Small THEN {"usesPerson", "withMacro"} ELSE DOMAIN RootTab
\* the option pool of the process: two values; a build applies a list of them
OptBans  == [A |-> {"MACRO", "PASTE"}, B |-> {"TYPE", "Query"}]
OptMenu  == IF Small THEN {<<>>, <<"A">>, <<"B">>, <<"A", "B">>}
            ELSE {<<>>, <<"A">>, <<"B">>, <<"A", "B">>, <<"B", "A">>, <<"A", "A">>}

Build1 == [inc : IncMenu, root : RootMenu, opts : OptMenu]

VARIABLE h
Init == h = <<>>
Next == Len(h) < MaxLen /\ \E b \in Build1 : h' = Append(h, b)
Spec == Init /\ [][Next]_h

BansOf(opts) == UNION {OptBans[opts[i]] : i \in 1..Len(opts)}
\* a ban is enforced while scanning (at the keyword), rule errors belong to the build phase that follows
Outcome(b) == LET bans == BansOf(b.opts) IN
              IF (IncTab[b.inc].kinds \cup RootTab[b.root].kinds) \cap bans # {} THEN "notallowed"
              ELSE IF IncTab[b.inc].dup THEN "dupname"
              ELSE IF ~(RootTab[b.root].needs \subseteq IncTab[b.inc].types) THEN "typenotfound"
              ELSE "ok"
\* the property, as the model states it: the outcome of a step is determined by the step (never by its position)
Independent == \A i, j \in 1..Len(h) : (h[i].inc = h[j].inc /\ h[i].root = h[j].root /\ BansOf(h[i].opts) = BansOf(h[j].opts))
                                        => Outcome(h[i]) = Outcome(h[j])

Emit == PrintT("E " \o ToJson([h |-> [i \in 1..Len(h') |-> [inc |-> h'[i].inc, root |-> h'[i].root, opts |-> h'[i].opts,
                                                              bans |-> BansOf(h'[i].opts), expect |-> Outcome(h'[i])]]]))
=============================================================================
