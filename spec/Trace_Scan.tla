----------------------------- MODULE Trace_Scan -----------------------------
(***************************************************************************)
(* V direction for C12 / C01: the real scanner is run on whole files (the  *)
(* repository's corpus and seeded mutations of it -- far beyond the byte   *)
(* bound of MC_C12) and each run is logged: the file's bytes, the extent   *)
(* of every schema / enum body the dependency's Len() accepted (the body   *)
(* oracle), the lexemes delivered and the outcome.  The specification      *)
(* re-executes Scanner.tla on the logged bytes with the logged bodies and  *)
(* must arrive at the same lexemes (type, begin, end) and the same error   *)
(* index; where the model has to ask the oracle for a body that was not    *)
(* logged (the real run failed inside it) the prefix must agree.           *)
(***************************************************************************)
EXTENDS Scanner, TLCExt, Json

Log == ndJsonDeserialize("trace_scan.ndjson")
VARIABLE l
Init == l = 1
Next == l <= Len(Log) /\ l' = l + 1
Spec == Init /\ [][Next]_l

BodySet(ev) == {[s |-> ev.bodies[bi].s, l |-> ev.bodies[bi].l, okS |-> ev.bodies[bi].okS, okE |-> ev.bodies[bi].okE, ei |-> 0] : bi \in DOMAIN ev.bodies}
Run(ev) == RunEOF([Init0 EXCEPT !.tape = ev.tape, !.bodies = BodySet(ev), !.eof = TRUE])
LexEq(a, b) == a.t = b.t /\ a.b = b.b /\ a.e = b.e
Prefix(mo, ro) == Cardinality(DOMAIN mo) <= Cardinality(DOMAIN ro) /\ \A li \in DOMAIN mo : LexEq(mo[li], ro[li])
SameOut(mo, ro) == Cardinality(DOMAIN mo) = Cardinality(DOMAIN ro) /\ \A li \in DOMAIN mo : LexEq(mo[li], ro[li])

Judge(ev) ==
  LET R == Run(ev) IN
  IF R.res = "oracle" THEN ev.res # "PANIC" /\ Prefix(R.out, ev.out)
  ELSE /\ R.res = ev.res
       /\ (R.res = "err" => R.err.i = ev.ei)
       /\ SameOut(R.out, ev.out)
       /\ WellFormed(R) /\ ErrInside(R)
RecordOK == l <= Len(Log) => Judge(Log[l])
TraceAccepted == TLCGet("stats").diameter = Len(Log) + 1
=============================================================================
