SPECIFICATION Spec
CONSTANT MaxLen = 3
CONSTANT Small = TRUE
INVARIANT Independent
ACTION_CONSTRAINT Emit
CHECK_DEADLOCK FALSE
