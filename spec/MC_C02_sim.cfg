SPECIFICATION Spec
CONSTANT MaxBlocks = 5
CONSTANT Prelude <- PreludeDeps
INVARIANT C05
INVARIANT KnownVerdict
INVARIANT InterOrder
ACTION_CONSTRAINT Emit
CHECK_DEADLOCK FALSE
