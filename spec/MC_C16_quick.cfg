SPECIFICATION Spec
CONSTANT MaxCalls = 4
INVARIANT RepeatableInv
ACTION_CONSTRAINT Emit
CHECK_DEADLOCK FALSE
