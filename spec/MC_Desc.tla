------------------------------ MODULE MC_Desc ------------------------------
(***************************************************************************)
(* C08 / C02 (Description): every text of up to MaxLines lines of up to     *)
(* MaxChars bytes over { space, tab, 'a', 'b' }.  Invariants: the          *)
(* normalised description does not depend on LF / CRLF / CR, on a uniform  *)
(* indentation of every line, or on the "( )" frame.  Every text is        *)
(* emitted with the model's result and replayed on the real build          *)
(* (INFO > Description), in all three line-ending conventions.             *)
(***************************************************************************)
EXTENDS Desc, Json

CONSTANTS MaxLines, MaxChars
Alphabet == {32, 9, 97, 98}
LinesOf == UNION {[1..n -> Alphabet] : n \in 0..MaxChars}

VARIABLE lines
Init == lines = <<>>
Next == Len(lines) < MaxLines /\ \E l \in LinesOf : lines' = Append(lines, l)
Spec == Init /\ [][Next]_lines

HasText(ls) == \E i \in 1..Len(ls) : \E j \in 1..Len(ls[i]) : ls[i][j] \in {97, 98}
RECURSIVE JoinWith(_, _)
JoinWith(ls, eol) == IF ls = <<>> THEN <<>> ELSE ls[1] \o eol \o JoinWith(Tail(ls), eol)
Raw(ls, eol) == JoinWith(ls, eol)                       \* every line ends with its line break
Indented(ls, ind) == [i \in 1..Len(ls) |-> IF ls[i] = <<>> THEN <<>> ELSE ind \o ls[i]]
Framed(ls, eol) == <<40>> \o eol \o Raw(ls, eol) \o <<41>> \o eol

D0 == Description(Raw(lines, <<10>>))
EolInsignificant == Description(Raw(lines, <<13, 10>>)) = D0 /\ Description(Raw(lines, <<13>>)) = D0
IndentInsignificant == HasText(lines) => \A ind \in {<<32, 32>>, <<9>>} : Description(Raw(Indented(lines, ind), <<10>>)) = D0
FrameInsignificant == HasText(lines) => Description(Framed(lines, <<10>>)) = D0
\* a line of blanks is an empty line: blanks written on an empty line (trailing blanks) do not change the text
Blanked(ls, w) == [i \in 1..Len(ls) |-> IF ls[i] = <<>> THEN w ELSE ls[i]]
BlankLinesInsignificant == HasText(lines) => \A w \in {<<32>>, <<9>>, <<32, 32, 32>>} : Description(Raw(Blanked(lines, w), <<10>>)) = D0
AlwaysOK == D0.ok

Emit == HasText(lines') => PrintT("E " \o ToJson([lines |-> lines', text |-> Description(Raw(lines', <<10>>)).text]))
=============================================================================
