SPECIFICATION Spec
CONSTANT TopLen = 4
CONSTANT MidLen = 3
CONSTANT Wide = TRUE
INVARIANT Transparent
INVARIANT CatalogTransparent
INVARIANT NoMacroNodes
INVARIANT EveryCopyThere
INVARIANT EmitInv
CHECK_DEADLOCK FALSE
