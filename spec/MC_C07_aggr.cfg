SPECIFICATION Spec
CONSTANT FileIds = {"root.jst", "a.jst", "b.jst", "c.jst"}
CONSTANT MaxRoot = 3
CONSTANT Variant = "aggr"
CONSTANT MaxOther = 2
INVARIANT StackBounded
INVARIANT OpenedInside
INVARIANT Terminates
INVARIANT QuirkOnlyWhen
INVARIANT RecursionSound
ACTION_CONSTRAINT Emit
CHECK_DEADLOCK FALSE
