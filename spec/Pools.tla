------------------------------- MODULE Pools -------------------------------
(***************************************************************************)
(* The pools of concrete values abstract documents draw from, with exactly *)
(* the attributes the core looks at.  TLC strings cannot be indexed, so a  *)
(* path is a sequence of segments and a schema body is a record of         *)
(* attributes; the concrete text is carried along for the renderer (the    *)
(* harness takes it from the "L" line TLC prints -- single source).        *)
(***************************************************************************)
EXTENDS Integers, Sequences, FiniteSets

Lit(s) == [par |-> FALSE, s |-> s]
Par(s) == [par |-> TRUE, s |-> s]

PathTab ==
  [pa   |-> [text |-> "/a",           segs |-> <<Lit("a")>>],
   pb   |-> [text |-> "/b",           segs |-> <<Lit("b")>>],
   pai  |-> [text |-> "/a/{id}",      segs |-> <<Lit("a"), Par("id")>>],
   pax  |-> [text |-> "/a/{x}",       segs |-> <<Lit("a"), Par("x")>>],
   paib |-> [text |-> "/a/{id}/b",    segs |-> <<Lit("a"), Par("id"), Lit("b")>>],
   pdup |-> [text |-> "/c/{id}/{id}", segs |-> <<Lit("c"), Par("id"), Par("id")>>],
   pci  |-> [text |-> "/c/{id}",      segs |-> <<Lit("c"), Par("id")>>],
   prpc |-> [text |-> "/rpc",         segs |-> <<Lit("rpc")>>],
   pz   |-> [text |-> "/z",           segs |-> <<Lit("z")>>],
   pf   |-> [text |-> "/f",           segs |-> <<Lit("f")>>],
   pux  |-> [text |-> "/u/{x}",       segs |-> <<Lit("u"), Par("x")>>],
   puxy |-> [text |-> "/u/{x}/p/{y}", segs |-> <<Lit("u"), Par("x"), Lit("p"), Par("y")>>],
   pmg  |-> [text |-> "/mg/{v}",      segs |-> <<Lit("mg"), Par("v")>>],
   pmp  |-> [text |-> "/mp/{v}",      segs |-> <<Lit("mp"), Par("v")>>],
   pmu  |-> [text |-> "/mu/{v}",      segs |-> <<Lit("mu"), Par("v")>>],
   pmh  |-> [text |-> "/mh/{v}/w/{w}", segs |-> <<Lit("mh"), Par("v"), Lit("w"), Par("w")>>],
   pmd  |-> [text |-> "/md/{v}",      segs |-> <<Lit("md"), Par("v")>>],
   pdup2 |-> [text |-> "/d/{a}/{b}/{a}/{b}", segs |-> <<Lit("d"), Par("a"), Par("b"), Par("a"), Par("b")>>],
   pqs  |-> [text |-> "/qs/{id}",     segs |-> <<Lit("qs"), Par("id")>>],
   prl  |-> [text |-> "/rl",          segs |-> <<Lit("rl")>>],
   pr1  |-> [text |-> "/r1",          segs |-> <<Lit("r1")>>],
   pr2  |-> [text |-> "/r2",          segs |-> <<Lit("r2")>>],
   pcats |-> [text |-> "/cats",       segs |-> <<Lit("cats")>>],
   pcatsid |-> [text |-> "/cats/{id}", segs |-> <<Lit("cats"), Par("id")>>],
   pidID |-> [text |-> "/s/{id}/i/{ID}", segs |-> <<Lit("s"), Par("id"), Lit("i"), Par("ID")>>],
   pkits |-> [text |-> "/kits",       segs |-> <<Lit("kits")>>],
   pkitsid |-> [text |-> "/kits/{id}", segs |-> <<Lit("kits"), Par("id")>>],
   pop2  |-> [text |-> "/op2",        segs |-> <<Lit("op2")>>],
   pdogs |-> [text |-> "/dogs",       segs |-> <<Lit("dogs")>>],
   pru   |-> [text |-> "/ru",         segs |-> <<Lit("ru")>>],
   pdm  |-> [text |-> "/dm",          segs |-> <<Lit("dm")>>],
   pdr  |-> [text |-> "/dr",          segs |-> <<Lit("dr")>>],
   prb  |-> [text |-> "/rb",          segs |-> <<Lit("rb")>>],
   prs  |-> [text |-> "/rs",          segs |-> <<Lit("rs")>>],
   prj  |-> [text |-> "/rj",          segs |-> <<Lit("rj")>>],
   pre  |-> [text |-> "/re",          segs |-> <<Lit("re")>>],
   pt2  |-> [text |-> "/t2",          segs |-> <<Lit("t2")>>],
   psl  |-> [text |-> "/sl",          segs |-> <<Lit("sl")>>],
   psls |-> [text |-> "/sl/",         segs |-> <<Lit("sl")>>],            \* differs from /sl by the trailing slash only: a resource of its own
   prd  |-> [text |-> "/rd",          segs |-> <<Lit("rd")>>],
   ppc  |-> [text |-> "/pc/{id}",     segs |-> <<Lit("pc"), Par("id")>>],
   pmt  |-> [text |-> "/mt",          segs |-> <<Lit("mt")>>],
   pgr  |-> [text |-> "/gr",          segs |-> <<Lit("gr")>>],
   ptt  |-> [text |-> "/tt",          segs |-> <<Lit("tt")>>],
   psp  |-> [text |-> "\"/s p\"",     segs |-> <<Lit("s p")>>],         \* a quoted path with a blank: refused (BlankPaths)
   pbad8 |-> [text |-> "/b\\xFF",     segs |-> <<Lit("b?")>>],          \* the harness writes the byte 0xFF: not UTF-8, refused
   pdot  |-> [text |-> "/.",           segs |-> <<Lit(".")>>],                            \* "." segments: skipped by the automatic tag
   pdotx |-> [text |-> "/./x",         segs |-> <<Lit("."), Lit("x")>>],
   pdd   |-> [text |-> "/./.",         segs |-> <<Lit("."), Lit(".")>>],
   pat   |-> [text |-> "/u/{@id}",     segs |-> <<Lit("u"), Par("@id")>>],                 \* a parameter named like a user type
   pex   |-> [text |-> "/v/{c~d}/{x$y}", segs |-> <<Lit("v"), Par("c~d"), Par("x$y")>>],    \* parameter names beyond letters and digits
   pnb   |-> [text |-> "/nb",          segs |-> <<Lit("nb")>>],
   pdupx |-> [text |-> "/dx/{c~d}/x/{c~d}", segs |-> <<Lit("dx"), Par("c~d"), Lit("x"), Par("c~d")>>],
   pdupu |-> [text |-> "/du/{\\xD0\\xB8}/u/{\\xD0\\xB8}", segs |-> <<Lit("du"), Par("\\xD0\\xB8"), Lit("u"), Par("\\xD0\\xB8")>>],   \* a Cyrillic name (UTF-8 bytes written by the harness)
   pvr   |-> [text |-> "/vr",          segs |-> <<Lit("vr")>>],
   pvs   |-> [text |-> "/vs",          segs |-> <<Lit("vs")>>],
   psc1  |-> [text |-> "/sc/{id}",     segs |-> <<Lit("sc"), Par("id")>>],
   psc2  |-> [text |-> "/sc/{ID}",     segs |-> <<Lit("sc"), Par("ID")>>],              \* differs from {id} in letter case only: another name
   psx1  |-> [text |-> "/sx/{a~b}",    segs |-> <<Lit("sx"), Par("a~b")>>],
   psx2  |-> [text |-> "/sx/{c$d}",    segs |-> <<Lit("sx"), Par("c$d")>>],
   pempty |-> [text |-> "/e/{}",      segs |-> <<Lit("e"), Par("")>>]]
PathIds == DOMAIN PathTab
BlankPaths == {"psp"}     \* a blank separates the fields of an interaction id; a path may not contain one
\* invalid UTF-8 would be written as U+FFFD: paths that differ in such bytes would share one interaction id
RefusedPaths == BlankPaths \cup {"pbad8"}

\* kind: schema | enum | text | regex
\* root: tokenType of the root node as the catalog reports it; rtype: its "type"
\* uses / enums: user types and enums the schema refers to; keys: top-level keys;
\* inh: user types used only through inheritance (allOf): listed in usedUserTypes, not looked up at this body;
\* props: first-level children in order (key, token type, JSight type) as the catalog lists them
BodyTab ==
  [obj    |-> [text |-> "{\"k\": 1}",            kind |-> "schema", root |-> "object", rtype |-> "object",  uses |-> {}, inh |-> {}, enums |-> {}, keys |-> {"k"}, props |-> <<[key |-> "k", tt |-> "number", ty |-> "integer"]>>],
   obj2   |-> [text |-> "{\"n\": \"s\"}",        kind |-> "schema", root |-> "object", rtype |-> "object",  uses |-> {}, inh |-> {}, enums |-> {}, keys |-> {"n"}, props |-> <<[key |-> "n", tt |-> "string", ty |-> "string"]>>],
   objref |-> [text |-> "{\"r\": @t1}",          kind |-> "schema", root |-> "object", rtype |-> "object",  uses |-> {"@t1"}, inh |-> {}, enums |-> {}, keys |-> {"r"}, props |-> <<[key |-> "r", tt |-> "reference", ty |-> "@t1"]>>],
   objr2  |-> [text |-> "{\"r\": @t2}",          kind |-> "schema", root |-> "object", rtype |-> "object",  uses |-> {"@t2"}, inh |-> {}, enums |-> {}, keys |-> {"r"}, props |-> <<[key |-> "r", tt |-> "reference", ty |-> "@t2"]>>],
   objen  |-> [text |-> "{\n  \"e\": 1 // {enum: @e1}\n}", kind |-> "schema", root |-> "object", rtype |-> "object", uses |-> {}, inh |-> {}, enums |-> {"@e1"}, keys |-> {"e"}, props |-> <<[key |-> "e", tt |-> "number", ty |-> "enum"]>>],
   arr    |-> [text |-> "[1]",                   kind |-> "schema", root |-> "array",  rtype |-> "array",   uses |-> {}, inh |-> {}, enums |-> {}, keys |-> {}, props |-> <<[key |-> "", tt |-> "number", ty |-> "integer"]>>],
   str    |-> [text |-> "\"s\"",                 kind |-> "schema", root |-> "string", rtype |-> "string",  uses |-> {}, inh |-> {}, enums |-> {}, keys |-> {}, props |-> <<>>],
   ref1   |-> [text |-> "@t1",                   kind |-> "schema", root |-> "reference", rtype |-> "@t1",  uses |-> {"@t1"}, inh |-> {}, enums |-> {}, keys |-> {}, props |-> <<>>],
   refu   |-> [text |-> "@nope",                 kind |-> "schema", root |-> "reference", rtype |-> "@nope", uses |-> {"@nope"}, inh |-> {}, enums |-> {}, keys |-> {}, props |-> <<>>],
   pcase  |-> [text |-> "{\"id\": 1, \"Key\": 1, \"KEY\": 2, \"key\": 3}", kind |-> "schema", root |-> "object", rtype |-> "object", uses |-> {}, inh |-> {}, enums |-> {}, keys |-> {"id", "Key", "KEY", "key"},
               props |-> <<[key |-> "id", tt |-> "number", ty |-> "integer"], [key |-> "Key", tt |-> "number", ty |-> "integer"], [key |-> "KEY", tt |-> "number", ty |-> "integer"], [key |-> "key", tt |-> "number", ty |-> "integer"]>>],
   objnull |-> [text |-> "{\n  \"m\": null // {enum: [], nullable: true}\n}", kind |-> "schema", root |-> "object", rtype |-> "object", uses |-> {}, inh |-> {}, enums |-> {}, keys |-> {"m"}, props |-> <<[key |-> "m", tt |-> "null", ty |-> "enum"]>>],
   hdr2   |-> [text |-> "{\"H\": \"w\", \"G\": 2}", kind |-> "schema", root |-> "object", rtype |-> "object",  uses |-> {}, inh |-> {}, enums |-> {}, keys |-> {"H", "G"}, props |-> <<[key |-> "H", tt |-> "string", ty |-> "string"], [key |-> "G", tt |-> "number", ty |-> "integer"]>>],
   hdr    |-> [text |-> "{\"H\": \"v\"}",        kind |-> "schema", root |-> "object", rtype |-> "object",  uses |-> {}, inh |-> {}, enums |-> {}, keys |-> {"H"}, props |-> <<[key |-> "H", tt |-> "string", ty |-> "string"]>>],
   pid    |-> [text |-> "{\"id\": 1}",           kind |-> "schema", root |-> "object", rtype |-> "object",  uses |-> {}, inh |-> {}, enums |-> {}, keys |-> {"id"}, props |-> <<[key |-> "id", tt |-> "number", ty |-> "integer"]>>],
   ordbad |-> [text |-> "{\n  \"items\": [@item],\n  \"n\": 1 // {min: 5}\n}", kind |-> "schema", root |-> "object", rtype |-> "object", uses |-> {"@item"}, inh |-> {}, enums |-> {}, keys |-> {"items", "n"},
               props |-> <<[key |-> "items", tt |-> "array", ty |-> "array"], [key |-> "n", tt |-> "number", ty |-> "integer"]>>],
   itemopt |-> [text |-> "{\"order\": @order}", kind |-> "schema", root |-> "object", rtype |-> "object", uses |-> {"@order"}, inh |-> {}, enums |-> {}, keys |-> {"order"},
               props |-> <<[key |-> "order", tt |-> "reference", ty |-> "@order"]>>],
   reftarr |-> [text |-> "@tarr",                 kind |-> "schema", root |-> "reference", rtype |-> "@tarr", uses |-> {"@tarr"}, inh |-> {}, enums |-> {}, keys |-> {}, props |-> <<>>],
   objun  |-> [text |-> "{\"a\": @t1|@t2}",       kind |-> "schema", root |-> "object", rtype |-> "object",  uses |-> {"@t1", "@t2"}, inh |-> {}, enums |-> {}, keys |-> {"a"}, props |-> <<[key |-> "a", tt |-> "reference", ty |-> "mixed"]>>],
   objall |-> [text |-> "{ // {allOf: \"@t5\"}\n  \"z\": 1\n}", kind |-> "schema", root |-> "object", rtype |-> "object", uses |-> {"@t5"}, inh |-> {"@t1", "@t2"}, enums |-> {}, keys |-> {"a", "z"},
               props |-> <<[key |-> "a", tt |-> "reference", ty |-> "mixed"], [key |-> "z", tt |-> "number", ty |-> "integer"]>>],
   nC     |-> [text |-> "{\"m\": 3}",            kind |-> "schema", root |-> "object", rtype |-> "object",  uses |-> {}, inh |-> {}, enums |-> {}, keys |-> {"m"}, props |-> <<[key |-> "m", tt |-> "number", ty |-> "integer"]>>],
   nB     |-> [text |-> "{\n  \"n\": { // {allOf: \"@nC\"}\n    \"b\": 2\n  }\n}", kind |-> "schema", root |-> "object", rtype |-> "object", uses |-> {"@nC"}, inh |-> {}, enums |-> {}, keys |-> {"n"},
               props |-> <<[key |-> "n", tt |-> "object", ty |-> "object"]>>],      \* allOf on a nested object: its inherited properties lie below the first level
   nA     |-> [text |-> "{ // {allOf: \"@nB\"}\n  \"a\": 1\n}", kind |-> "schema", root |-> "object", rtype |-> "object", uses |-> {"@nB"}, inh |-> {}, enums |-> {}, keys |-> {"n", "a"},
               props |-> <<[key |-> "n", tt |-> "object", ty |-> "object"], [key |-> "a", tt |-> "number", ty |-> "integer"]>>],
   pxor   |-> [text |-> "{\n  \"x\": 1 // {or: [{type: \"integer\"}, {type: \"string\"}]}\n}", kind |-> "schema", root |-> "object", rtype |-> "object", uses |-> {}, inh |-> {}, enums |-> {}, keys |-> {"x"}, props |-> <<[key |-> "x", tt |-> "number", ty |-> "mixed"]>>],
   pidu   |-> [text |-> "{\"id\": @t1 | @nope}", kind |-> "schema", root |-> "object", rtype |-> "object", uses |-> {"@t1", "@nope"}, inh |-> {}, enums |-> {}, keys |-> {"id"}, props |-> <<[key |-> "id", tt |-> "reference", ty |-> "mixed"]>>],   \* a union that names an undefined type: found only when the schema of the path variables is built
   py     |-> [text |-> "{\"y\": 1}",            kind |-> "schema", root |-> "object", rtype |-> "object",  uses |-> {}, inh |-> {}, enums |-> {}, keys |-> {"y"}, props |-> <<[key |-> "y", tt |-> "number", ty |-> "integer"]>>],
   px     |-> [text |-> "{\"x\": 1}",            kind |-> "schema", root |-> "object", rtype |-> "object",  uses |-> {}, inh |-> {}, enums |-> {}, keys |-> {"x"}, props |-> <<[key |-> "x", tt |-> "number", ty |-> "integer"]>>],
   enml   |-> [text |-> "[\n  \"a\", /* one\n  two */\n  \"b\"\n]", kind |-> "enum", root |-> "array", rtype |-> "array", uses |-> {}, inh |-> {}, enums |-> {}, keys |-> {}, props |-> <<>>],   \* a note of two lines on a value
   en     |-> [text |-> "[1, \"a\"]",            kind |-> "enum",   root |-> "array",  rtype |-> "array",   uses |-> {}, inh |-> {}, enums |-> {}, keys |-> {}, props |-> <<>>],
   d1     |-> [text |-> "text one",              kind |-> "text",   root |-> "",       rtype |-> "",        uses |-> {}, inh |-> {}, enums |-> {}, keys |-> {}, props |-> <<>>],
   dbad   |-> [text |-> "( a list\n)",            kind |-> "textbad", root |-> "",      rtype |-> "",        uses |-> {}, inh |-> {}, enums |-> {}, keys |-> {}, props |-> <<>>],   \* a wrongly parenthesised text: the error stands on the text
   d3     |-> [text |-> "line one\nline two",    kind |-> "text",   root |-> "",       rtype |-> "",        uses |-> {}, inh |-> {}, enums |-> {}, keys |-> {}, props |-> <<>>],
   d2     |-> [text |-> "text two",              kind |-> "text",   root |-> "",       rtype |-> "",        uses |-> {}, inh |-> {}, enums |-> {}, keys |-> {}, props |-> <<>>],
   rx2    |-> [text |-> "/[a-z]{4}/",            kind |-> "regex",  root |-> "",       rtype |-> "",        uses |-> {}, inh |-> {}, enums |-> {}, keys |-> {}, props |-> <<>>],
   objr7  |-> [text |-> "{\"id\": @t7}",         kind |-> "schema", root |-> "object", rtype |-> "object",  uses |-> {"@t7"}, inh |-> {}, enums |-> {}, keys |-> {"id"}, props |-> <<[key |-> "id", tt |-> "reference", ty |-> "@t7"]>>],
   rx     |-> [text |-> "/ab/",                  kind |-> "regex",  root |-> "",       rtype |-> "",        uses |-> {}, inh |-> {}, enums |-> {}, keys |-> {}, props |-> <<>>]]
BodyIds == DOMAIN BodyTab
\* pool bodies whose type reference stands on the second line of the text (an error about it is located there)
RefOnSecondLine == {"nB"}

SetToSeq(S) == CHOOSE f \in [1..Cardinality(S) -> S] : \A i, j \in 1..Cardinality(S) : i # j => f[i] # f[j]
PoolsJson == [paths |-> [x \in PathIds |-> PathTab[x].text], bodies |-> [x \in BodyIds |-> BodyTab[x].text]]
=============================================================================
