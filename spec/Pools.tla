------------------------------- MODULE Pools -------------------------------
(***************************************************************************)
(* The pools of concrete values abstract documents draw from, with exactly *)
(* the attributes the core looks at.  TLC strings cannot be indexed, so a  *)
(* path is a sequence of segments and a schema body is a record of         *)
(* attributes; the concrete text is carried along for the renderer (the    *)
(* harness takes it from the "L" line TLC prints -- single source).        *)
(***************************************************************************)
EXTENDS Integers, Sequences, FiniteSets

Lit(s) == [par |-> FALSE, s |-> s]
Par(s) == [par |-> TRUE, s |-> s]

PathTab ==
  [pa   |-> [text |-> "/a",           segs |-> <<Lit("a")>>],
   pb   |-> [text |-> "/b",           segs |-> <<Lit("b")>>],
   pai  |-> [text |-> "/a/{id}",      segs |-> <<Lit("a"), Par("id")>>],
   pax  |-> [text |-> "/a/{x}",       segs |-> <<Lit("a"), Par("x")>>],
   paib |-> [text |-> "/a/{id}/b",    segs |-> <<Lit("a"), Par("id"), Lit("b")>>],
   pdup |-> [text |-> "/c/{id}/{id}", segs |-> <<Lit("c"), Par("id"), Par("id")>>],
   pci  |-> [text |-> "/c/{id}",      segs |-> <<Lit("c"), Par("id")>>],
   prpc |-> [text |-> "/rpc",         segs |-> <<Lit("rpc")>>],
   pz   |-> [text |-> "/z",           segs |-> <<Lit("z")>>],
   pf   |-> [text |-> "/f",           segs |-> <<Lit("f")>>],
   pux  |-> [text |-> "/u/{x}",       segs |-> <<Lit("u"), Par("x")>>],
   puxy |-> [text |-> "/u/{x}/p/{y}", segs |-> <<Lit("u"), Par("x"), Lit("p"), Par("y")>>],
   pempty |-> [text |-> "/e/{}",      segs |-> <<Lit("e"), Par("")>>]]
PathIds == DOMAIN PathTab

\* kind: schema | enum | text | regex
\* root: tokenType of the root node as the catalog reports it; rtype: its "type"
\* uses / enums: user types and enums the schema refers to; keys: top-level keys
BodyTab ==
  [obj    |-> [text |-> "{\"k\": 1}",            kind |-> "schema", root |-> "object", rtype |-> "object",  uses |-> {}, enums |-> {}, keys |-> {"k"}],
   obj2   |-> [text |-> "{\"n\": \"s\"}",        kind |-> "schema", root |-> "object", rtype |-> "object",  uses |-> {}, enums |-> {}, keys |-> {"n"}],
   objref |-> [text |-> "{\"r\": @t1}",          kind |-> "schema", root |-> "object", rtype |-> "object",  uses |-> {"@t1"}, enums |-> {}, keys |-> {"r"}],
   objr2  |-> [text |-> "{\"r\": @t2}",          kind |-> "schema", root |-> "object", rtype |-> "object",  uses |-> {"@t2"}, enums |-> {}, keys |-> {"r"}],
   objen  |-> [text |-> "{\n  \"e\": 1 // {enum: @e1}\n}", kind |-> "schema", root |-> "object", rtype |-> "object", uses |-> {}, enums |-> {"@e1"}, keys |-> {"e"}],
   arr    |-> [text |-> "[1]",                   kind |-> "schema", root |-> "array",  rtype |-> "array",   uses |-> {}, enums |-> {}, keys |-> {}],
   str    |-> [text |-> "\"s\"",                 kind |-> "schema", root |-> "string", rtype |-> "string",  uses |-> {}, enums |-> {}, keys |-> {}],
   ref1   |-> [text |-> "@t1",                   kind |-> "schema", root |-> "reference", rtype |-> "@t1",  uses |-> {"@t1"}, enums |-> {}, keys |-> {}],
   refu   |-> [text |-> "@nope",                 kind |-> "schema", root |-> "reference", rtype |-> "@nope", uses |-> {"@nope"}, enums |-> {}, keys |-> {}],
   hdr    |-> [text |-> "{\"H\": \"v\"}",        kind |-> "schema", root |-> "object", rtype |-> "object",  uses |-> {}, enums |-> {}, keys |-> {"H"}],
   pid    |-> [text |-> "{\"id\": 1}",           kind |-> "schema", root |-> "object", rtype |-> "object",  uses |-> {}, enums |-> {}, keys |-> {"id"}],
   pxor   |-> [text |-> "{\n  \"x\": 1 // {or: [{type: \"integer\"}, {type: \"string\"}]}\n}", kind |-> "schema", root |-> "object", rtype |-> "object", uses |-> {}, enums |-> {}, keys |-> {"x"}],
   py     |-> [text |-> "{\"y\": 1}",            kind |-> "schema", root |-> "object", rtype |-> "object",  uses |-> {}, enums |-> {}, keys |-> {"y"}],
   px     |-> [text |-> "{\"x\": 1}",            kind |-> "schema", root |-> "object", rtype |-> "object",  uses |-> {}, enums |-> {}, keys |-> {"x"}],
   en     |-> [text |-> "[1, \"a\"]",            kind |-> "enum",   root |-> "array",  rtype |-> "array",   uses |-> {}, enums |-> {}, keys |-> {}],
   d1     |-> [text |-> "text one",              kind |-> "text",   root |-> "",       rtype |-> "",        uses |-> {}, enums |-> {}, keys |-> {}],
   d2     |-> [text |-> "text two",              kind |-> "text",   root |-> "",       rtype |-> "",        uses |-> {}, enums |-> {}, keys |-> {}],
   rx     |-> [text |-> "/ab/",                  kind |-> "regex",  root |-> "",       rtype |-> "",        uses |-> {}, enums |-> {}, keys |-> {}]]
BodyIds == DOMAIN BodyTab

SetToSeq(S) == CHOOSE f \in [1..Cardinality(S) -> S] : \A i, j \in 1..Cardinality(S) : i # j => f[i] # f[j]
PoolsJson == [paths |-> [x \in PathIds |-> PathTab[x].text], bodies |-> [x \in BodyIds |-> BodyTab[x].text]]
=============================================================================
