------------------------------ MODULE Catalog ------------------------------
(***************************************************************************)
(* From the expanded directive tree to the catalog: collectRules,          *)
(* collectTags, collectUserTypes, collectPaths, buildCatalog (the DFS of   *)
(* add* functions), compileCatalog, validateCatalog -- as a fold over the  *)
(* nodes of the expanded tree (creation order = DFS pre-order).            *)
(*                                                                         *)
(* The catalog value C keeps the sections as SEQUENCES (insertion order is *)
(* observable in the JSON), the two sides of the tag <-> interaction       *)
(* relation separately, and the uniqueness sets of the core.  Skeleton(C)  *)
(* is what the harness compares with the projection of the real ToJson().  *)
(*                                                                         *)
(* Error classes (the harness holds one message pattern per class):        *)
(*   jsightfirst jsightonce unsupported noparam annotation notunique       *)
(*   dupname dupinteraction duppath dupopid similar dupparam emptyparam    *)
(*   infoonce baseurlonce infoempty descempty bodyempty reqnobody          *)
(*   respnobody typenotfound enumnotfound tagnotfound paramsforbidden      *)
(*   typeandnotation noprotocol badprotocol mixedurl headersnotobject      *)
(*   unusedpathparam pathredefined notallowed                              *)
(* err.where: "kw" = the directive's keyword line, "body" = its body.      *)
(***************************************************************************)
EXTENDS Macro, Pools

Notations == {"jsight", "regex", "any", "empty"}
IsTypeParam(s) == s \notin Notations /\ s # ""

SNof(p) == LET hits == {i \in 1..Len(p) : p[i] \in Notations} IN
           IF hits = {} THEN "" ELSE p[CHOOSE i \in hits : TRUE]
TYof(p) == LET hits == {i \in 1..Len(p) : p[i] \notin Notations} IN
           IF hits = {} THEN "" ELSE p[CHOOSE i \in hits : TRUE]
NotationOf(sn) == IF sn = "" THEN "jsight" ELSE sn
FormatOf(n) == CASE n = "jsight" -> "json" [] n = "regex" -> "plainString" [] OTHER -> "binary"

\* ---- paths ----------------------------------------------------------------
SegText(s) == IF s.par THEN "{" \o s.s \o "}" ELSE s.s
Params(pid) == LET sg == PathTab[pid].segs IN
               SelectSeq([i \in 1..Len(sg) |-> [pre |-> [x \in 1..(i - 1) |-> SegText(sg[x])], name |-> sg[i].s, par |-> sg[i].par]],
                         LAMBDA x : x.par)
ParamNames(pid) == [i \in 1..Len(Params(pid)) |-> Params(pid)[i].name]
HasDupParam(pid) == \E i, j \in 1..Len(Params(pid)) : i < j /\ Params(pid)[i].name = Params(pid)[j].name
\* the automatic tag of a path is named after its first segment that is not "."; a path of "." segments only has the tag "/" (name "@_")
FirstRealSeg(pid) == LET segs == PathTab[pid].segs
                         real == {i \in 1..Len(segs) : ~(segs[i].par = FALSE /\ segs[i].s = ".")}
                     IN IF real = {} THEN 0 ELSE CHOOSE i \in real : \A j \in real : i <= j
PathTagTitle(pid) == IF FirstRealSeg(pid) = 0 THEN "/" ELSE "/" \o SegText(PathTab[pid].segs[FirstRealSeg(pid)])
PathTagName(pid) == IF FirstRealSeg(pid) = 0 THEN "@_" ELSE "@" \o SegText(PathTab[pid].segs[FirstRealSeg(pid)])

\* ---- schemas --------------------------------------------------------------
Sch(notation, root, rtype, uses, inh, enums, props) ==
  [notation |-> notation, root |-> root, rtype |-> rtype, uses |-> uses, inh |-> inh, enums |-> enums, props |-> props]
PseudoSch(n) == Sch(n, "", "", {}, {}, {}, <<>>)
RefSch(t) == IF t = "[@t1]" THEN Sch("jsight", "array", "array", {"@t1"}, {}, {}, <<[key |-> "", tt |-> "reference", ty |-> "@t1"]>>)
             ELSE Sch("jsight", "reference", t, {t}, {}, {}, <<>>)
BodySch(b) == Sch("jsight", BodyTab[b].root, BodyTab[b].rtype, BodyTab[b].uses, BodyTab[b].inh, BodyTab[b].enums, BodyTab[b].props)

\* ---- the catalog value ----------------------------------------------------
EmptyCat == [res |-> "ok", err |-> [cls |-> "", node |-> 0, where |-> "kw"],
             jsight |-> "", info |-> <<>>, servers |-> <<>>, tags |-> <<>>, types |-> <<>>, enums |-> <<>>,
             inters |-> <<>>, uniqUrl |-> {}, similar |-> {}, opIds |-> {}, protoUrls |-> {},
             rawPaths |-> <<>>, pieces |-> {}, declared |-> {}]

CErr(C, cls, j, w) == IF C.res # "ok" THEN C ELSE [C EXCEPT !.res = "err", !.err = [cls |-> cls, node |-> j, where |-> w]]

IdxOf(seq, name) == LET hits == {i \in 1..Len(seq) : seq[i].name = name} IN IF hits = {} THEN 0 ELSE CHOOSE i \in hits : TRUE
InterIdx(C, id) == LET hits == {i \in 1..Len(C.inters) : C.inters[i].id = id} IN IF hits = {} THEN 0 ELSE CHOOSE i \in hits : TRUE
TypeNames(C) == {C.types[i].name : i \in 1..Len(C.types)}
EnumNames(C) == {C.enums[i].name : i \in 1..Len(C.enums)}

\* ---- tree helpers ----------------------------------------------------------
RECURSIVE MethodAnc(_, _)
MethodAnc(X, j) == IF j = 0 THEN 0 ELSE IF X.nodes[j].k \in Methods \cup {"Method"} THEN j ELSE MethodAnc(X, X.nodes[j].parent)
PathIdOf(X, m) ==      \* of a method / Method / URL node
  LET n == X.nodes[m] IN
  IF n.k \in Methods /\ n.p # <<>> THEN n.p[1]
  ELSE IF n.k = "URL" THEN (IF n.p = <<>> THEN "" ELSE n.p[1])
  ELSE IF n.parent # 0 /\ X.nodes[n.parent].k = "URL" /\ X.nodes[n.parent].p # <<>> THEN X.nodes[n.parent].p[1]
  ELSE ""
InterId(X, m) ==
  LET n == X.nodes[m] IN
  IF n.k = "Method" THEN "json-rpc-2.0 " \o Name1(n) \o " " \o PathTab[PathIdOf(X, m)].text
  ELSE "http " \o n.k \o " " \o PathTab[PathIdOf(X, m)].text
KidsOfKind(X, j, k) == SelectSeq(Kids(X, j), LAMBDA c : X.nodes[c].k = k)

\* ---- collect* phases -------------------------------------------------------
\* ENUM rules: the root ENUM directives of the expanded tree in document order (a pasted ENUM stands where its PASTE stood).
RECURSIVE AddEnums(_, _, _, _)
AddEnums(C, T, js, i) ==      \* js: sequence of T node ids
  IF i > Len(js) \/ C.res # "ok" THEN C
  ELSE LET n == T.nodes[js[i]] IN
       IF Name1(n) = "" THEN [C EXCEPT !.res = "err", !.err = [cls |-> "noparam", node |-> -n.tok, where |-> "kw"]]
       ELSE IF n.b = "" THEN [C EXCEPT !.res = "err", !.err = [cls |-> "bodyempty", node |-> -n.tok, where |-> "kw"]]
       ELSE IF Name1(n) \in EnumNames(C) THEN [C EXCEPT !.res = "err", !.err = [cls |-> "dupname", node |-> -n.tok, where |-> "kw"]]
       ELSE AddEnums([C EXCEPT !.enums = Append(@, [name |-> Name1(n), annotation |-> n.a])], T, js, i + 1)

RootsOfKind(X, k) == SelectSeq(Kids(X, 0), LAMBDA j : X.nodes[j].k = k)

RECURSIVE CollectTags(_, _, _, _)
CollectTags(C, X, js, i) ==
  IF i > Len(js) \/ C.res # "ok" THEN C
  ELSE LET j == js[i]  n == X.nodes[j] IN
       IF Name1(n) = "" THEN CErr(C, "noparam", j, "kw")
       ELSE IF IdxOf(C.tags, Name1(n)) # 0 THEN CErr(C, "dupname", j, "kw")
       ELSE CollectTags([C EXCEPT !.tags = Append(@, [name |-> Name1(n), title |-> IF n.a = "" THEN Name1(n) ELSE n.a,
                                                       description |-> "", http |-> <<>>, rpc |-> <<>>, auto |-> FALSE])], X, js, i + 1)

\* user types: duplicate names, missing bodies, undefined references (in declaration order)
TypeDeclNames(X) == {Name1(X.nodes[j]) : j \in {x \in 1..Len(X.nodes) : X.nodes[x].k = "TYPE" /\ X.nodes[x].parent = 0}}
RECURSIVE CollectTypes(_, _, _, _, _)
CollectTypes(C, X, js, i, seen) ==
  IF i > Len(js) \/ C.res # "ok" THEN C
  ELSE LET j == js[i]  n == X.nodes[j]  nm == Name1(n) IN
       IF nm # "" /\ nm \in seen THEN CErr(C, "dupname", j, "kw")
       ELSE CollectTypes(C, X, js, i + 1, seen \cup {nm})
TypeNotationOf(n) == IF Len(n.p) >= 2 THEN n.p[2] ELSE "jsight"
\* buildUserTypes: a TYPE of the jsight / regex notation needs a body (first pass, declaration order) ...
RECURSIVE CheckTypeBodies(_, _, _, _)
CheckTypeBodies(C, X, js, i) ==
  IF i > Len(js) \/ C.res # "ok" THEN C
  ELSE LET j == js[i]  n == X.nodes[j] IN
       IF TypeNotationOf(n) \in {"jsight", "regex"} /\ n.b = "" THEN CErr(C, "bodyempty", j, "kw")
       ELSE CheckTypeBodies(C, X, js, i + 1)
\* ... then compileUserTypeWithAllDependencies: every type, in declaration order, is compiled AFTER the types it uses
\* (depth first, each type once), so an undefined name is reported on the body of the first type, in that order, that writes it
TypeNodeOf(X, name) == LET s == {j \in 1..Len(X.nodes) : X.nodes[j].k = "TYPE" /\ X.nodes[j].parent = 0 /\ Name1(X.nodes[j]) = name} IN
                       IF s = {} THEN 0 ELSE CHOOSE j \in s : \A x \in s : j <= x
UseSeq(b) == IF b = "objun" THEN <<"@t1", "@t2">>
             ELSE LET u == BodyTab[b].uses IN IF u = {} THEN <<>> ELSE <<CHOOSE x \in u : TRUE>>
RECURSIVE DfsType(_, _, _, _), DfsTypes(_, _, _, _, _)
DfsType(C, X, name, vis) ==
  LET j == TypeNodeOf(X, name) IN
  IF j = 0 \/ name \in vis \/ C.res # "ok" THEN [C |-> C, vis |-> vis]
  ELSE LET n == X.nodes[j] IN
       IF TypeNotationOf(n) # "jsight" THEN [C |-> C, vis |-> vis \cup {name}]
       ELSE LET R == DfsTypes(C, X, UseSeq(n.b), 1, vis \cup {name}) IN
            IF R.C.res # "ok" THEN R
            ELSE IF ~(BodyTab[n.b].uses \subseteq TypeDeclNames(X)) THEN [C |-> CErr(R.C, "typenotfound", j, IF n.b \in RefOnSecondLine THEN "body1" ELSE "body"), vis |-> R.vis]
            ELSE IF ~(BodyTab[n.b].enums \subseteq EnumNames(C)) THEN [C |-> CErr(R.C, "enumnotfound", j, "body1"), vis |-> R.vis]   \* the rule stands on the 2nd line of the pool body
            ELSE R
DfsTypes(C, X, names, i, vis) ==
  IF i > Len(names) \/ C.res # "ok" THEN [C |-> C, vis |-> vis]
  ELSE LET R == DfsType(C, X, names[i], vis) IN DfsTypes(R.C, X, names, i + 1, R.vis)
CheckTypes(C, X, js, i) ==
  LET C1 == CheckTypeBodies(C, X, js, 1) IN
  IF C1.res # "ok" THEN C1 ELSE DfsTypes(C1, X, [k \in 1..Len(js) |-> Name1(X.nodes[js[k]])], 1, {}).C

\* Path directives (collectPaths): annotation, parent, two in a row under the same parent
PathNodes(X) == SelectSeq([j \in 1..Len(X.nodes) |-> j], LAMBDA j : X.nodes[j].k = "Path")
RECURSIVE CollectPaths(_, _, _, _, _)
CollectPaths(C, X, js, i, prevParent) ==
  IF i > Len(js) \/ C.res # "ok" THEN C
  ELSE LET j == js[i]  n == X.nodes[j] IN
       IF n.a # "" THEN CErr(C, "annotation", j, "kw")
       ELSE IF n.parent # 0 /\ PathIdOf(X, n.parent) \in RefusedPaths THEN CErr(C, "incorrectpath", j, "kw")
       ELSE IF n.parent # 0 /\ PathIdOf(X, n.parent) # "" /\ (\E x \in 1..Len(Params(PathIdOf(X, n.parent))) : Params(PathIdOf(X, n.parent))[x].name = "")
            THEN CErr(C, "emptyparam", j, "kw")                    \* the path the Path directive describes is parsed here, errors stand on Path
       ELSE IF n.parent # 0 /\ PathIdOf(X, n.parent) # "" /\ HasDupParam(PathIdOf(X, n.parent)) THEN CErr(C, "dupparam", j, "kw")
       ELSE IF n.parent = 0 THEN CErr(C, "noparent", j, "kw")
       ELSE IF prevParent # 0 /\ prevParent = n.parent THEN CErr(C, "notunique", j, "kw")   \* the same parent directive (not: the same place in the text -- pasted copies share that)
       ELSE CollectPaths([C EXCEPT !.rawPaths = Append(@, [node |-> j, parent |-> n.parent])], X, js, i + 1, n.parent)

\* addMissedUndefindedPathVariables (end of the compile phase): ROOT-level URL / HTTP-method directives that no Path
\* directive belongs to have their path parsed here -- a missing path, an empty or a repeated {parameter} is reported
\* before anything of the build phase
RECURSIVE MissedPaths(_, _, _, _)
MissedPaths(C, X, js, i) ==
  IF i > Len(js) \/ C.res # "ok" THEN C
  ELSE LET j == js[i]  n == X.nodes[j]  pid == PathIdOf(X, j) IN
       IF n.k \notin (Methods \cup {"URL"}) \/ KidsOfKind(X, j, "Path") # <<>> THEN MissedPaths(C, X, js, i + 1)
       ELSE IF pid = "" THEN CErr(C, "pathnotfound", j, "kw")
       ELSE IF pid \in RefusedPaths THEN CErr(C, "incorrectpath", j, "kw")
       ELSE IF \E x \in 1..Len(Params(pid)) : Params(pid)[x].name = "" THEN CErr(C, "emptyparam", j, "kw")
       ELSE IF HasDupParam(pid) THEN CErr(C, "dupparam", j, "kw")
       ELSE MissedPaths(C, X, js, i + 1)

\* ---- schema checks at add time ---------------------------------------------
\* returns "" or an error class
SchemaFault(C, sch) ==
  IF ~(sch.uses \subseteq C.declared) THEN "typenotfound"     \* all TYPEs are collected before any directive is added
  ELSE IF ~(sch.enums \subseteq EnumNames(C)) THEN "enumnotfound"
  ELSE ""

\* ---- tags of an interaction --------------------------------------------------
TagsDirFor(X, m) ==     \* the Tags directive that applies to method node m (0 = none)
  LET own == KidsOfKind(X, m, "Tags")
      par == X.nodes[m].parent
      up == IF par # 0 /\ X.nodes[par].k = "URL" THEN KidsOfKind(X, par, "Tags") ELSE <<>>
  IN IF own # <<>> THEN own[1] ELSE IF up # <<>> THEN up[1] ELSE 0

Dedup(s) == LET F[i \in 0..Len(s)] == IF i = 0 THEN <<>>
                                      ELSE IF \E x \in 1..Len(F[i - 1]) : F[i - 1][x] = s[i] THEN F[i - 1] ELSE Append(F[i - 1], s[i])
            IN F[Len(s)]

\* registers interaction id under its tags; returns [C, names] or an error in C
\* a Tags directive may name the tags declared by TAG only, not the automatic tag made from a path
Declared(C, name) == IdxOf(C.tags, name) # 0 /\ ~C.tags[IdxOf(C.tags, name)].auto
AttachTags(C, X, m, id, proto) ==
  LET td == TagsDirFor(X, m) IN
  IF td # 0
  THEN LET names == Dedup(X.nodes[td].p) IN
       IF X.nodes[td].a # "" THEN [C |-> CErr(C, "annotation", td, "kw"), names |-> <<>>]
       ELSE IF names = <<>> THEN [C |-> CErr(C, "noparam", td, "kw"), names |-> <<>>]
       ELSE IF \E x \in 1..Len(names) : ~Declared(C, names[x]) THEN [C |-> CErr(C, "tagnotfound", td, "kw"), names |-> <<>>]
       ELSE [C |-> [C EXCEPT !.tags = [t \in 1..Len(C.tags) |->
                        IF \E x \in 1..Len(names) : names[x] = C.tags[t].name
                        THEN IF proto = "http" THEN [C.tags[t] EXCEPT !.http = Append(@, id)] ELSE [C.tags[t] EXCEPT !.rpc = Append(@, id)]
                        ELSE C.tags[t]]],
             names |-> names]
  ELSE LET pid == PathIdOf(X, m)  tn == PathTagName(pid)  ix == IdxOf(C.tags, tn)
           C1 == IF ix # 0 THEN C
                 ELSE [C EXCEPT !.tags = Append(@, [name |-> tn, title |-> PathTagTitle(pid), description |-> "", http |-> <<>>, rpc |-> <<>>, auto |-> TRUE])]
           ix1 == IdxOf(C1.tags, tn)
       IN [C |-> [C1 EXCEPT !.tags[ix1] = IF proto = "http" THEN [@ EXCEPT !.http = Append(@, id)] ELSE [@ EXCEPT !.rpc = Append(@, id)]],
           names |-> <<tn>>]

\* similar paths / path parameter checks shared by URL and methods (returns C or error)
CheckPathParams(C, pid, j) ==
  IF \E i \in 1..Len(Params(pid)) : Params(pid)[i].name = "" THEN CErr(C, "emptyparam", j, "kw")
  ELSE IF HasDupParam(pid) THEN CErr(C, "dupparam", j, "kw")
  ELSE IF \E i \in 1..Len(Params(pid)) : \E s \in C.similar : s.pre = Params(pid)[i].pre /\ s.name # Params(pid)[i].name
       THEN CErr(C, "similar", j, "kw")
  ELSE [C EXCEPT !.similar = @ \cup {[pre |-> Params(pid)[i].pre, name |-> Params(pid)[i].name] : i \in 1..Len(Params(pid))}]

\* ---- body of Request / response / Body ---------------------------------------
\* Resolve the schema a Request / response-code / Body directive carries:
\* [has |-> BOOLEAN, fault |-> class or "", where, sch, format]
Carried(C, n) ==
  LET sn == SNof(n.p)  ty == TYof(n.p)  nt == NotationOf(sn) IN
  IF sn # "" /\ ty # "" THEN [has |-> FALSE, fault |-> "typeandnotation", where |-> "kw", sch |-> PseudoSch("any"), format |-> ""]
  ELSE IF ty # "" /\ n.b = "" THEN
       LET s == RefSch(ty) IN [has |-> TRUE, fault |-> SchemaFault(C, s), where |-> "kw", sch |-> s, format |-> "json"]
  ELSE IF nt = "jsight" /\ n.b # "" THEN
       LET s == BodySch(n.b) IN [has |-> TRUE, fault |-> SchemaFault(C, s), where |-> IF SchemaFault(C, s) = "enumnotfound" THEN "body1" ELSE "body", sch |-> s, format |-> "json"]
  ELSE IF nt = "regex" /\ n.b # "" THEN [has |-> TRUE, fault |-> "", where |-> "body", sch |-> PseudoSch("regex"), format |-> "plainString"]
  ELSE IF nt \in {"any", "empty"} /\ n.b = "" THEN [has |-> TRUE, fault |-> "", where |-> "kw", sch |-> PseudoSch(nt), format |-> "binary"]
  ELSE [has |-> FALSE, fault |-> "", where |-> "kw", sch |-> PseudoSch("any"), format |-> ""]

\* ---- the add* functions -------------------------------------------------------
AddNode(C, X, j) ==
  LET n == X.nodes[j]
      par == n.parent
      pk == IF par = 0 THEN "" ELSE X.nodes[par].k
      m == MethodAnc(X, j)
      ii == IF m = 0 \/ PathIdOf(X, m) = "" THEN 0 ELSE InterIdx(C, InterId(X, m))
  IN
  IF C.res # "ok" THEN C
  ELSE CASE n.k = "JSIGHT" ->
         IF Name1(n) = "" THEN CErr(C, "noparam", j, "kw")
         ELSE IF Name1(n) # "0.3" THEN CErr(C, "unsupported", j, "kw")
         ELSE IF n.a # "" THEN CErr(C, "annotation", j, "kw")
         ELSE IF C.jsight # "" THEN CErr(C, "jsightonce", j, "kw")
         ELSE [C EXCEPT !.jsight = "0.3"]
    [] n.k = "INFO" ->
         IF n.a # "" THEN CErr(C, "annotation", j, "kw")
         ELSE IF C.info # <<>> THEN CErr(C, "infoonce", j, "kw")
         ELSE [C EXCEPT !.info = <<[title |-> "", version |-> "", description |-> "", node |-> j]>>]
    [] n.k = "Title" ->
         IF Name1(n) = "" THEN CErr(C, "noparam", j, "kw")
         ELSE IF n.a # "" THEN CErr(C, "annotation", j, "kw")
         ELSE IF C.info[1].title # "" THEN CErr(C, "notunique", j, "kw")
         ELSE [C EXCEPT !.info[1].title = Name1(n)]
    [] n.k = "Version" ->
         IF Name1(n) = "" THEN CErr(C, "noparam", j, "kw")
         ELSE IF n.a # "" THEN CErr(C, "annotation", j, "kw")
         ELSE IF C.info[1].version # "" THEN CErr(C, "notunique", j, "kw")
         ELSE [C EXCEPT !.info[1].version = Name1(n)]
    [] n.k = "Description" ->
         IF n.a # "" THEN CErr(C, "annotation", j, "kw")
         ELSE IF n.b = "" THEN CErr(C, "descempty", j, "kw")
         ELSE IF BodyTab[n.b].kind = "textbad" THEN CErr(C, "descparen", j, "body")     \* "( text": something else on the line of the opening parenthesis
         ELSE IF pk = "INFO" THEN
              IF C.info[1].description # "" THEN CErr(C, "notunique", j, "kw") ELSE [C EXCEPT !.info[1].description = BodyTab[n.b].text]
         ELSE IF pk = "TAG" THEN
              LET t == IdxOf(C.tags, Name1(X.nodes[par])) IN
              IF C.tags[t].description # "" THEN CErr(C, "notunique", j, "kw") ELSE [C EXCEPT !.tags[t].description = BodyTab[n.b].text]
         ELSE IF ii = 0 THEN CErr(C, "resourcenotfound", j, "kw")
         ELSE IF C.inters[ii].description # "" THEN CErr(C, "notunique", j, "kw")
         ELSE [C EXCEPT !.inters[ii].description = BodyTab[n.b].text]
    [] n.k = "SERVER" ->
         IF Name1(n) = "" THEN CErr(C, "noparam", j, "kw")
         ELSE IF IdxOf(C.servers, Name1(n)) # 0 THEN CErr(C, "dupname", j, "kw")
         ELSE [C EXCEPT !.servers = Append(@, [name |-> Name1(n), annotation |-> n.a, baseUrl |-> ""])]
    [] n.k = "BaseUrl" ->
         IF Name1(n) = "" THEN CErr(C, "noparam", j, "kw")
         ELSE IF n.a # "" THEN CErr(C, "annotation", j, "kw")
         ELSE LET s == IdxOf(C.servers, Name1(X.nodes[par])) IN
              IF C.servers[s].baseUrl # "" THEN CErr(C, "baseurlonce", j, "kw") ELSE [C EXCEPT !.servers[s].baseUrl = Name1(n)]
    [] n.k = "TYPE" ->
         IF Name1(n) = "" THEN CErr(C, "noparam", j, "kw")
         ELSE LET nt == TypeNotationOf(n)
                  s == IF nt = "jsight" THEN BodySch(n.b) ELSE PseudoSch(nt)
              IN [C EXCEPT !.types = Append(@, [name |-> Name1(n), annotation |-> n.a, schema |-> s])]
    [] n.k = "URL" ->
         IF n.a # "" THEN CErr(C, "annotation", j, "kw")
         ELSE IF Name1(n) = "" \/ n.p[1] \in RefusedPaths THEN CErr(C, "incorrectpath", j, "kw")
         ELSE LET C1 == CheckPathParams(C, n.p[1], j) IN
              IF C1.res # "ok" THEN C1
              ELSE IF n.p[1] \in C.uniqUrl THEN CErr(C1, "duppath", j, "kw")
              ELSE LET ks == Kids(X, j)
                       rpc(c) == X.nodes[c].k \in {"Protocol", "Method"}
                       ks2 == SelectSeq(ks, LAMBDA c : X.nodes[c].k # "Tags")          \* the Tags of a URL serve both protocols
                       bad == {x \in 2..Len(ks2) : rpc(ks2[x]) # rpc(ks2[1])}
                   IN IF bad # {} THEN CErr(C1, "mixedurl", ks2[CHOOSE x \in bad : \A y \in bad : x <= y], "kw")
                      ELSE [C1 EXCEPT !.uniqUrl = @ \cup {n.p[1]}]
    [] n.k \in Methods ->
         IF PathIdOf(X, j) = "" THEN CErr(C, "pathnotfound", j, "kw")
         ELSE IF PathIdOf(X, j) \in RefusedPaths THEN CErr(C, "incorrectpath", j, "kw")
         ELSE LET pid == PathIdOf(X, j)  C1 == CheckPathParams(C, pid, j)  id == InterId(X, j) IN
              IF C1.res # "ok" THEN C1
              ELSE IF InterIdx(C1, id) # 0 THEN CErr(C1, "dupinteraction", j, "kw")
              ELSE LET R == AttachTags(C1, X, j, id, "http") IN
                   IF R.C.res # "ok" THEN R.C
                   ELSE [R.C EXCEPT !.inters = Append(@, [id |-> id, proto |-> "http", method |-> n.k, path |-> PathTab[pid].text,
                                                          pathVars |-> ParamNames(pid), tags |-> R.names, annotation |-> n.a,
                                                          description |-> "", query |-> <<>>, request |-> <<>>, responses |-> <<>>,
                                                          opid |-> "", params |-> <<>>, result |-> <<>>, node |-> j])]
    [] n.k = "Query" ->
         IF n.a # "" THEN CErr(C, "annotation", j, "kw")
         ELSE IF n.b = "" THEN CErr(C, "bodyempty", j, "kw")
         ELSE LET s == BodySch(n.b)  f == SchemaFault(C, s)
                  fmt == IF \E x \in 1..Len(n.p) : n.p[x] \in {"htmlFormEncoded", "noFormat"}
                         THEN n.p[CHOOSE x \in 1..Len(n.p) : n.p[x] \in {"htmlFormEncoded", "noFormat"}] ELSE "htmlFormEncoded"
                  ex == IF \E x \in 1..Len(n.p) : n.p[x] \notin {"htmlFormEncoded", "noFormat"}
                        THEN n.p[CHOOSE x \in 1..Len(n.p) : n.p[x] \notin {"htmlFormEncoded", "noFormat"}] ELSE ""
              IN IF f # "" THEN CErr(C, f, j, IF f = "enumnotfound" THEN "body1" ELSE "body")
                 ELSE IF ii = 0 THEN CErr(C, "resourcenotfound", j, "kw")
                 ELSE IF C.inters[ii].query # <<>> THEN CErr(C, "notunique", j, "kw")
                 ELSE [C EXCEPT !.inters[ii].query = <<[format |-> fmt, example |-> ex, schema |-> s]>>]
    [] n.k = "Request" ->
         IF n.a # "" THEN CErr(C, "annotation", j, "kw")
         ELSE LET cr == Carried(C, n) IN
              IF cr.fault = "typeandnotation" THEN CErr(C, "typeandnotation", j, "kw")
              ELSE LET C1 == IF C.inters[ii].request = <<>>
                             THEN [C EXCEPT !.inters[ii].request = <<[headers |-> <<>>, body |-> <<>>, node |-> j]>>] ELSE C IN
                   IF ~cr.has THEN C1
                   ELSE IF cr.fault # "" THEN CErr(C1, cr.fault, j, cr.where)
                   ELSE IF C1.inters[ii].request[1].body # <<>> THEN CErr(C1, "notunique", j, "kw")
                   ELSE [C1 EXCEPT !.inters[ii].request[1].body = <<[format |-> cr.format, schema |-> cr.sch]>>]
    [] n.k = "RESP" ->
         LET cr == Carried(C, n) IN
         IF cr.fault = "typeandnotation" THEN CErr(C, "typeandnotation", j, "kw")
         ELSE LET C1 == [C EXCEPT !.inters[ii].responses = Append(@, [code |-> n.c, annotation |-> n.a, headers |-> <<>>, body |-> <<>>, node |-> j])]
                  r == Len(C1.inters[ii].responses) IN
              IF ~cr.has THEN C1
              ELSE IF cr.fault # "" THEN CErr(C1, cr.fault, j, cr.where)
              ELSE [C1 EXCEPT !.inters[ii].responses[r].body = <<[format |-> cr.format, schema |-> cr.sch]>>]
    [] n.k = "Headers" ->
         IF n.a # "" THEN CErr(C, "annotation", j, "kw")
         ELSE IF n.b = "" THEN CErr(C, "bodyempty", j, "kw")
         ELSE LET s == BodySch(n.b)  f == SchemaFault(C, s) IN
              IF f # "" THEN CErr(C, f, j, IF f = "enumnotfound" THEN "body1" ELSE "body")
              ELSE IF pk = "Request" THEN
                   IF C.inters[ii].request[1].headers # <<>> THEN CErr(C, "notunique", j, "kw")
                   ELSE [C EXCEPT !.inters[ii].request[1].headers = <<[schema |-> s, node |-> j]>>]
              ELSE IF pk = "RESP" THEN
                   LET r == Len(C.inters[ii].responses) IN
                   IF C.inters[ii].responses[r].headers # <<>> THEN CErr(C, "notunique", j, "kw")
                   ELSE [C EXCEPT !.inters[ii].responses[r].headers = <<[schema |-> s, node |-> j]>>]
              ELSE CErr(C, "ctxerr", j, "kw")
    [] n.k = "Body" ->
         IF pk \in {"Request", "RESP"} /\ X.nodes[par].p # <<>> THEN CErr(C, "paramsforbidden", par, "kw")
         ELSE LET cr == Carried(C, n) IN
              IF pk = "Request" THEN
                   IF n.a # "" THEN CErr(C, "annotation", j, "kw")
                   ELSE IF cr.fault = "typeandnotation" THEN CErr(C, "typeandnotation", j, "kw")
                   ELSE IF ~cr.has THEN CErr(C, "incorrectrequest", j, "kw")
                   ELSE IF cr.fault # "" THEN CErr(C, cr.fault, j, cr.where)
                   ELSE IF C.inters[ii].request[1].body # <<>> THEN CErr(C, "notunique", j, "kw")
                   ELSE [C EXCEPT !.inters[ii].request[1].body = <<[format |-> cr.format, schema |-> cr.sch]>>]
              ELSE IF pk = "RESP" THEN
                   LET r == Len(C.inters[ii].responses) IN
                   IF cr.fault = "typeandnotation" THEN CErr(C, "typeandnotation", j, "kw")
                   ELSE IF n.a # "" THEN CErr(C, "annotation", j, "kw")       \* the annotation of a response stands on its code line
                   ELSE IF ~cr.has THEN CErr(C, "bodyempty", j, "kw")
                   ELSE IF C.inters[ii].responses[r].body # <<>> THEN CErr(C, "notunique", j, "kw")      \* a second Body of the same response
                   ELSE IF cr.fault # "" THEN CErr(C, cr.fault, j, cr.where)
                   ELSE [C EXCEPT !.inters[ii].responses[r].body = <<[format |-> cr.format, schema |-> cr.sch]>>]
              ELSE C
    [] n.k = "Protocol" ->
         IF n.a # "" THEN CErr(C, "annotation", j, "kw")
         ELSE IF Name1(n) = "" THEN CErr(C, "noparam", j, "kw")
         ELSE IF Name1(n) # "json-rpc-2.0" THEN CErr(C, "badprotocol", j, "kw")
         ELSE IF par \in C.protoUrls THEN CErr(C, "notunique", j, "kw")
         ELSE [C EXCEPT !.protoUrls = @ \cup {par}]
    [] n.k = "Method" ->
         IF Name1(n) = "" THEN CErr(C, "noparam", j, "kw")
         ELSE IF KidsOfKind(X, par, "Protocol") = <<>> THEN CErr(C, "noprotocol", j, "kw")
         ELSE LET id == InterId(X, j) IN
              IF InterIdx(C, id) # 0 THEN CErr(C, "dupinteraction", j, "kw")
              ELSE LET R == AttachTags(C, X, j, id, "rpc") IN
                   IF R.C.res # "ok" THEN R.C
                   ELSE [R.C EXCEPT !.inters = Append(@, [id |-> id, proto |-> "json-rpc-2.0", method |-> Name1(n), path |-> PathTab[PathIdOf(X, j)].text,
                                                          pathVars |-> <<>>, tags |-> R.names, annotation |-> n.a,
                                                          description |-> "", query |-> <<>>, request |-> <<>>, responses |-> <<>>,
                                                          opid |-> "", params |-> <<>>, result |-> <<>>, node |-> j])]
    [] n.k \in {"Params", "Result"} ->
         IF n.a # "" THEN CErr(C, "annotation", j, "kw")
         ELSE IF n.b = "" THEN CErr(C, "bodyempty", j, "kw")
         ELSE LET s == BodySch(n.b)  f == SchemaFault(C, s) IN
              IF f # "" THEN CErr(C, f, j, IF f = "enumnotfound" THEN "body1" ELSE "body")
              ELSE IF n.k = "Params" THEN
                   IF C.inters[ii].params # <<>> THEN CErr(C, "notunique", j, "kw") ELSE [C EXCEPT !.inters[ii].params = <<s>>]
              ELSE IF C.inters[ii].result # <<>> THEN CErr(C, "notunique", j, "kw") ELSE [C EXCEPT !.inters[ii].result = <<s>>]
    [] n.k = "OperationId" ->
         IF Name1(n) = "" THEN CErr(C, "noparam", j, "kw")
         ELSE IF n.a # "" THEN CErr(C, "annotation", j, "kw")
         ELSE IF Name1(n) \in C.opIds THEN CErr(C, "dupopid", j, "kw")
         ELSE IF C.inters[ii].opid # "" THEN CErr([C EXCEPT !.opIds = @ \cup {Name1(n)}], "notunique", j, "kw")
         ELSE [C EXCEPT !.opIds = @ \cup {Name1(n)}, !.inters[ii].opid = Name1(n)]
    [] n.k = "Tags" ->     \* the directive is checked by itself too (a URL-level Tags that every method overrides is used by nobody)
         LET names == Dedup(n.p)
             sibs == IF n.parent = 0 THEN <<>> ELSE KidsOfKind(X, n.parent, "Tags") IN
         IF sibs # <<>> /\ sibs[1] # j THEN CErr(C, "notunique", j, "kw")     \* only the first Tags of a directive is ever looked up
         ELSE IF n.a # "" THEN CErr(C, "annotation", j, "kw")
         ELSE IF names = <<>> THEN CErr(C, "noparam", j, "kw")
         ELSE IF \E x \in 1..Len(names) : ~Declared(C, names[x]) THEN CErr(C, "tagnotfound", j, "kw")
         ELSE C
    [] OTHER -> C       \* Path, ENUM, TAG, MACRO, PASTE: no add function

RECURSIVE AddFrom(_, _, _)
AddFrom(C, X, j) == IF j > Len(X.nodes) \/ C.res # "ok" THEN C ELSE AddFrom(AddNode(C, X, j), X, j + 1)

\* ---- compileCatalog: path variables -------------------------------------------
\* every {parameter} of a path defined by at most one Path directive; no unused keys
RECURSIVE Pieces(_, _, _)
Pieces(C, X, i) ==
  IF i > Len(C.rawPaths) \/ C.res # "ok" THEN C
  ELSE LET rp == C.rawPaths[i]
           pid == PathIdOf(X, rp.parent)
           keys == BodyTab[X.nodes[rp.node].b].keys
           names == {Params(pid)[x].name : x \in 1..Len(Params(pid))}
           defs == {[pre |-> Params(pid)[x].pre, name |-> Params(pid)[x].name] : x \in {y \in 1..Len(Params(pid)) : Params(pid)[y].name \in keys}}
       IN IF pid = "" THEN CErr(C, "pathnotfound", rp.node, "kw")
          ELSE IF BodyTab[X.nodes[rp.node].b].root # "object" THEN CErr(C, "pathnotobject", rp.node, "kw")
          ELSE IF defs \cap C.pieces # {} THEN CErr(C, "pathredefined", rp.node, "kw")
          ELSE IF ~(keys \subseteq names) THEN CErr(C, "unusedpathparam", rp.node, "kw")
          \* what only shows when the schema of the path variables is built (a union that names an unknown type) stands on Path too
          ELSE IF ~(BodyTab[X.nodes[rp.node].b].uses \subseteq C.declared) THEN CErr(C, "typenotfound", rp.node, "kw")
          ELSE Pieces([C EXCEPT !.pieces = @ \cup defs], X, i + 1)

\* ---- validateCatalog ------------------------------------------------------------
Validate(C) ==
  IF C.res # "ok" THEN C
  ELSE IF C.info # <<>> /\ C.info[1].title = "" /\ C.info[1].version = "" /\ C.info[1].description = ""
       THEN CErr(C, "infoempty", C.info[1].node, "kw")
  ELSE LET reqBad == {i \in 1..Len(C.inters) : C.inters[i].request # <<>> /\ C.inters[i].request[1].body = <<>>} IN
       IF reqBad # {} THEN CErr(C, "reqnobody", C.inters[CHOOSE i \in reqBad : \A x \in reqBad : i <= x].request[1].node, "kw")
       ELSE LET respBad == {i \in 1..Len(C.inters) : \E r \in 1..Len(C.inters[i].responses) : C.inters[i].responses[r].body = <<>>} IN
            IF respBad # {}
            THEN LET i == CHOOSE x \in respBad : \A y \in respBad : x <= y
                     r == CHOOSE x \in 1..Len(C.inters[i].responses) :
                            C.inters[i].responses[x].body = <<>> /\ \A y \in 1..(x - 1) : C.inters[i].responses[y].body # <<>>
                 IN CErr(C, "respnobody", C.inters[i].responses[r].node, "kw")
            ELSE LET hb(h) == h # <<>> /\ h[1].schema.root \notin {"object", "reference"}
                     bad == {i \in 1..Len(C.inters) :
                               (C.inters[i].request # <<>> /\ hb(C.inters[i].request[1].headers))
                               \/ \E r \in 1..Len(C.inters[i].responses) : hb(C.inters[i].responses[r].headers)}
                 IN IF bad = {} THEN C
                    ELSE LET i == CHOOSE x \in bad : \A y \in bad : x <= y IN
                         IF C.inters[i].request # <<>> /\ hb(C.inters[i].request[1].headers)
                         THEN CErr(C, "headersnotobject", C.inters[i].request[1].headers[1].node, "body")
                         ELSE LET r == CHOOSE x \in 1..Len(C.inters[i].responses) : hb(C.inters[i].responses[x].headers)
                                         /\ \A y \in 1..(x - 1) : ~hb(C.inters[i].responses[y].headers)
                              IN CErr(C, "headersnotobject", C.inters[i].responses[r].headers[1].node, "body")

\* ---- the whole pipeline after expansion ------------------------------------------
\* T: the original tree (its root ENUMs are collected), X: the expanded tree.
RunCatalog(T, X) ==
  IF X.res # "ok" THEN [EmptyCat EXCEPT !.res = "err", !.err = [cls |-> X.res, node |-> -X.errTok, where |-> "kw"]]
  ELSE LET C1 == AddEnums(EmptyCat, X, RootsOfKind(X, "ENUM"), 1)   \* collectRules: the root ENUMs of the EXPANDED tree, in document order
           C2 == CollectTags(C1, X, RootsOfKind(X, "TAG"), 1)
           C3 == CollectTypes([C2 EXCEPT !.declared = TypeDeclNames(X)], X, RootsOfKind(X, "TYPE"), 1, {})
           C4 == CheckTypes(C3, X, RootsOfKind(X, "TYPE"), 1)
           C5 == CollectPaths(C4, X, PathNodes(X), 1, 0)
           C5b == MissedPaths(C5, X, Kids(X, 0), 1)
           C6 == IF C5b.res = "ok" /\ T.nodes # <<>> /\ T.nodes[Kids(T, 0)[1]].k # "JSIGHT"     \* the very first directive, a MACRO definition included
                 THEN [C5b EXCEPT !.res = "err", !.err = [cls |-> "jsightfirst", node |-> -T.nodes[Kids(T, 0)[1]].tok, where |-> "kw"]]
                 ELSE IF C5b.res = "ok" /\ X.nodes # <<>> /\ X.nodes[Kids(X, 0)[1]].k # "JSIGHT"
                 THEN CErr(C5b, "jsightfirst", Kids(X, 0)[1], "kw")
                 ELSE C5b
           C7 == AddFrom(C6, X, 1)
           C8 == Pieces(C7, X, 1)
       IN Validate(C8)

\* token index of the error (negative node = already a token index)
ErrTok(X, C) == IF C.err.node < 0 THEN -C.err.node ELSE IF C.err.node = 0 THEN 0 ELSE X.nodes[C.err.node].tok

\* ---- what the JSON must contain ------------------------------------------------------
SchJ(s) == [notation |-> s.notation, root |-> s.root, rtype |-> s.rtype, uses |-> s.uses \cup s.inh, uenums |-> s.enums, props |-> s.props]
Opt(x, f(_)) == IF x = <<>> THEN <<>> ELSE <<f(x[1])>>
Skeleton(C) ==
  [jsight |-> C.jsight,
   info |-> IF C.info = <<>> THEN <<>> ELSE <<[title |-> C.info[1].title, version |-> C.info[1].version, description |-> C.info[1].description]>>,
   servers |-> C.servers,
   tags |-> [i \in 1..Len(C.tags) |-> [name |-> C.tags[i].name, title |-> C.tags[i].title, description |-> C.tags[i].description,
                                        http |-> C.tags[i].http, rpc |-> C.tags[i].rpc]],
   types |-> [i \in 1..Len(C.types) |-> [name |-> C.types[i].name, annotation |-> C.types[i].annotation, schema |-> SchJ(C.types[i].schema)]],
   enums |-> C.enums,
   inters |-> [i \in 1..Len(C.inters) |->
      LET x == C.inters[i] IN
      [id |-> x.id, proto |-> x.proto, method |-> x.method, path |-> x.path, pathVars |-> x.pathVars, tags |-> x.tags,
       annotation |-> x.annotation, description |-> x.description,
       query |-> IF x.query = <<>> THEN <<>> ELSE <<[format |-> x.query[1].format, example |-> x.query[1].example, schema |-> SchJ(x.query[1].schema)]>>,
       request |-> IF x.request = <<>> THEN <<>>
                   ELSE <<[headers |-> IF x.request[1].headers = <<>> THEN <<>> ELSE <<SchJ(x.request[1].headers[1].schema)>>,
                           body |-> IF x.request[1].body = <<>> THEN <<>> ELSE <<[format |-> x.request[1].body[1].format, schema |-> SchJ(x.request[1].body[1].schema)]>>]>>,
       responses |-> [r \in 1..Len(x.responses) |->
                        [code |-> x.responses[r].code, annotation |-> x.responses[r].annotation,
                         headers |-> IF x.responses[r].headers = <<>> THEN <<>> ELSE <<SchJ(x.responses[r].headers[1].schema)>>,
                         body |-> IF x.responses[r].body = <<>> THEN <<>> ELSE <<[format |-> x.responses[r].body[1].format, schema |-> SchJ(x.responses[r].body[1].schema)]>>]],
       params |-> IF x.params = <<>> THEN <<>> ELSE <<SchJ(x.params[1])>>,
       result |-> IF x.result = <<>> THEN <<>> ELSE <<SchJ(x.result[1])>>]]]

\* ---- the whole build of a single-file document ------------------------------------------
Build(toks) ==
  LET T == RunTree(toks)  X == Expand(T)  C == RunCatalog(T, X) IN
  IF T.res # "ok" THEN [res |-> "err", cls |-> T.res, tok |-> T.errTok, where |-> "kw", skel |-> <<>>]
  ELSE IF C.res # "ok" THEN [res |-> "err", cls |-> C.err.cls, tok |-> ErrTok(X, C), where |-> C.err.where, skel |-> <<>>]
  ELSE [res |-> "ok", cls |-> "", tok |-> 0, where |-> "kw", skel |-> <<Skeleton(C)>>]

(***************************************************************************)
(* Invariants of an accepted catalog (property C05), stated on the catalog *)
(* value -- the harness evaluates the same predicates on the real JSON.    *)
(***************************************************************************)
CrossRefsClosed(C) ==
  /\ \A i \in 1..Len(C.inters) : \A t \in 1..Len(C.inters[i].tags) :
        LET tg == IdxOf(C.tags, C.inters[i].tags[t])
            lst == IF C.inters[i].proto = "http" THEN C.tags[tg].http ELSE C.tags[tg].rpc IN
        tg # 0 /\ Cardinality({x \in 1..Len(lst) : lst[x] = C.inters[i].id}) = 1
  /\ \A t \in 1..Len(C.tags) : \A x \in 1..Len(C.tags[t].http) :
        LET i == InterIdx(C, C.tags[t].http[x]) IN i # 0 /\ \E y \in 1..Len(C.inters[i].tags) : C.inters[i].tags[y] = C.tags[t].name
  /\ \A t \in 1..Len(C.tags) : \A x \in 1..Len(C.tags[t].rpc) :
        LET i == InterIdx(C, C.tags[t].rpc[x]) IN i # 0 /\ \E y \in 1..Len(C.inters[i].tags) : C.inters[i].tags[y] = C.tags[t].name
  /\ \A i, j \in 1..Len(C.inters) : i # j => C.inters[i].id # C.inters[j].id
  /\ \A i \in 1..Len(C.inters) : \A r \in 1..Len(C.inters[i].responses) : C.inters[i].responses[r].body # <<>>
  /\ \A i \in 1..Len(C.types) : C.types[i].schema.uses \subseteq TypeNames(C) /\ C.types[i].schema.enums \subseteq EnumNames(C)
  /\ \A i \in 1..Len(C.inters) :
        LET ss == (IF C.inters[i].query = <<>> THEN {} ELSE {C.inters[i].query[1].schema})
                  \cup (IF C.inters[i].request = <<>> \/ C.inters[i].request[1].body = <<>> THEN {} ELSE {C.inters[i].request[1].body[1].schema})
                  \cup {C.inters[i].responses[r].body[1].schema : r \in {x \in 1..Len(C.inters[i].responses) : C.inters[i].responses[x].body # <<>>}}
        IN \A sc \in ss : sc.uses \subseteq TypeNames(C) /\ sc.enums \subseteq EnumNames(C)
  /\ C.jsight = "0.3"

=============================================================================
