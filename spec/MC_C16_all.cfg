SPECIFICATION Spec
CONSTANT MaxCalls = 6
INVARIANT RepeatableInv
ACTION_CONSTRAINT Emit
CHECK_DEADLOCK FALSE
