SPECIFICATION Spec
INVARIANT EventOK
POSTCONDITION TraceAccepted
CHECK_DEADLOCK FALSE
