SPECIFICATION Spec
CONSTANT MaxBlocks = 2
CONSTANT Prelude <- PreludeDeps
INVARIANT C17
INVARIANT EmitInv
CHECK_DEADLOCK FALSE
