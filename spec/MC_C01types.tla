---------------------------- MODULE MC_C01types ----------------------------
(***************************************************************************)
(* C01 (type graphs): user types refer to each other through references,   *)
(* 'or' unions, object properties, array items and allOf.  Every function  *)
(* of the build that walks such a graph (rule checks, path-variable        *)
(* pieces, used-type collection, example generation, serialisation) must   *)
(* carry a visited set.  The model is the walk WITH a visited set: it      *)
(* terminates on every graph within Cardinality(Types) unfoldings          *)
(* (invariant WalkBounded), whatever the cycle.  TLC enumerates every      *)
(* graph over N types and the shape menu, crossed with every site that     *)
(* uses @T1; each is built by the real code in a crash-isolated worker.    *)
(***************************************************************************)
EXTENDS Integers, Sequences, FiniteSets, TLC, Json

CONSTANTS N,
          WithKeyref     \* FALSE: leave out the shape whose combination with a self-mentioning union is the recorded fatal crash
                         \* (every such graph costs a dead worker; the N = 2 configuration keeps it)
Types == 1..N
\* shape of a type body
\* leaf: an object; any / empty / regex: the other notations a TYPE may have; scalar: a JSight scalar;
\* keyref: an object whose key is a type shortcut ({ @t : 1 }); nullref: a reference with a rule (@t // {nullable: true})
Shapes == [k : {"leaf", "any", "empty", "regex", "scalar"}] \cup [k : {"ref", "prop", "optprop", "arr", "allof", "nullref"} \cup (IF WithKeyref THEN {"keyref"} ELSE {}), a : Types] \cup [k : {"or"}, a : Types, b : Types]
Sites == {"none", "path-ref", "path-prop", "headers", "query", "request", "response", "rpc", "typeuse"}

VARIABLES g, site
vars == <<g, site>>
Init == g = <<>> /\ site \in Sites
Next == Len(g) < N /\ \E s \in Shapes : g' = Append(g, s) /\ UNCHANGED site
Spec == Init /\ [][Next]_vars

Succ(G, t) == LET s == G[t] IN IF s.k \in {"leaf", "any", "empty", "regex", "scalar"} THEN {} ELSE IF s.k = "or" THEN {s.a, s.b} ELSE {s.a}
\* the walk with a visited set: returns the number of unfoldings
RECURSIVE Walk(_, _, _, _)
Walk(G, todo, seen, n) ==
  IF todo = {} THEN n
  ELSE LET t == CHOOSE x \in todo : TRUE IN Walk(G, (todo \cup (Succ(G, t) \ seen)) \ {t}, seen \cup {t} \cup Succ(G, t), n + 1)
Complete == Len(g) = N
WalkBounded == Complete => Walk(g, {1}, {1}, 0) <= N
\* a graph in which @T1 reaches itself (what an unguarded walk would loop on)
RECURSIVE Reach(_, _, _)
Reach(G, front, seen) == LET nx == UNION {Succ(G, t) : t \in front} \ seen IN IF nx = {} THEN seen ELSE Reach(G, nx, seen \cup nx)
Cyclic == Complete /\ 1 \in Reach(g, {1}, {})

(***************************************************************************)
(* 'or' diamonds: 2n + 2 types, @a_i = @a_(i+1) | @b_(i+1), @b_i =         *)
(* @b_(i+1) | @a_(i+1), two scalar leaves.  The number of PATHS from @a_0  *)
(* doubles with every level; the walk with a visited set unfolds each type *)
(* once.  A build whose time follows the paths is not "proportional to the *)
(* input".  Depths are emitted as "D" lines; the harness measures them.    *)
(***************************************************************************)
DiamondDepths == {8, 12, 16, 20, 22}
\* node 2i+1 = @a_i, node 2i+2 = @b_i (i = 0..n-1); nodes 2n+1, 2n+2 are the leaves
DiamondG(n) == [t \in 1..(2 * n + 2) |->
                 IF t > 2 * n THEN [k |-> "scalar"]
                 ELSE LET i == (t - 1) \div 2 IN
                      IF t % 2 = 1 THEN [k |-> "or", a |-> 2 * (i + 1) + 1, b |-> 2 * (i + 1) + 2]
                      ELSE [k |-> "or", a |-> 2 * (i + 1) + 2, b |-> 2 * (i + 1) + 1]]
ASSUME \A n \in DiamondDepths : Walk(DiamondG(n), {1}, {1}, 0) <= 2 * n + 2      \* linear in the number of types
ASSUME \A n \in DiamondDepths : PrintT("D " \o ToJson([depth |-> n, types |-> 2 * n + 2]))

EmitInv == Complete => PrintT("E " \o ToJson([g |-> g, site |-> site, cyclic |-> Cyclic]))
=============================================================================
