SPECIFICATION Spec
CONSTANT MaxLen = 2
CONSTANT Small = FALSE
INVARIANT Independent
ACTION_CONSTRAINT Emit
CHECK_DEADLOCK FALSE
