SPECIFICATION Spec
INVARIANT Total
INVARIANT EmitInv
CHECK_DEADLOCK FALSE
