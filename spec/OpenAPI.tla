------------------------------ MODULE OpenAPI ------------------------------
(***************************************************************************)
(* The OpenAPI 3.0.3 export (catalog/ser/openapi) as a pure function of    *)
(* the catalog value of Catalog.tla: OAS(C) is the skeleton of the         *)
(* document ToOpenAPIJson must produce for an accepted catalog C.          *)
(*                                                                         *)
(*   servers      urls in declaration order                                *)
(*   paths        path -> item; an item is created by the FIRST HTTP       *)
(*                interaction of that path (document order) and carries    *)
(*                that interaction's path variables as required path       *)
(*                parameters; every interaction of the path adds its       *)
(*                operation under its method                               *)
(*   operation    summary = annotation, description, operationId, tags =   *)
(*                TITLES of the interaction's tags, query parameters       *)
(*                (style deepObject) then request-header parameters, a     *)
(*                requestBody unless the method is GET / DELETE or there   *)
(*                is no Request, and responses                             *)
(*   responses    one key per distinct code ("default" when there is no    *)
(*                response); several responses with one code are merged    *)
(*   response     content: one media type per body format (json ->         *)
(*                application/json, plainString -> text/plain, binary ->   *)
(*                the range any/any); a single response of the notation      *)
(*                empty has an empty content; merged responses carry the   *)
(*                union of their media types and of their header names;    *)
(*                merging a response of the notation empty is refused:     *)
(*                the export as a whole returns an error (ExportFails)     *)
(*   requestBody  media type of the request's format; any -> the range,    *)
(*                empty -> no media type                                   *)
(*   info         title and version ("" without INFO), description only    *)
(*                when the document gives one                              *)
(*   components   one schema per user type (the harness strips the '@')     *)
(*                                                                         *)
(* JSON-RPC interactions are not exported.  What lies inside a schema      *)
(* object is the dependency's business (jsoac) and is not predicted;       *)
(* parameter NAMES are the first-level keys of an object schema ("?" when  *)
(* the schema is not an inline object).                                    *)
(***************************************************************************)
EXTENDS Catalog

ParamKeys(sch) == IF sch.root = "object" THEN [i \in 1..Len(sch.props) |-> sch.props[i].key] ELSE <<"?">>

TagTitle(C, name) == LET i == IdxOf(C.tags, name) IN IF i = 0 THEN "" ELSE C.tags[i].title
RECURSIVE TagTitles(_, _, _)
TagTitles(C, names, i) == IF i > Len(names) THEN <<>>
                          ELSE (IF IdxOf(C.tags, names[i]) = 0 THEN <<>> ELSE <<TagTitle(C, names[i])>>) \o TagTitles(C, names, i + 1)

Codes(x) == {x.responses[r].code : r \in 1..Len(x.responses)}
MT(fmt) == CASE fmt = "json" -> "application/json" [] fmt = "plainString" -> "text/plain" [] OTHER -> "*/*"
RespsOf(x, code) == SelectSeq(x.responses, LAMBDA r : r.code = code)
RespNotation(r) == r.body[1].schema.notation
ContentOf(rs) == IF Len(rs) = 1 /\ RespNotation(rs[1]) = "empty" THEN {} ELSE {MT(rs[i].body[1].format) : i \in 1..Len(rs)}
HeaderNames(rs) == UNION {IF rs[i].headers = <<>> THEN {} ELSE {ParamKeys(rs[i].headers[1].schema)[k] : k \in 1..Len(ParamKeys(rs[i].headers[1].schema))} : i \in 1..Len(rs)}
Resp(x, code) == [code |-> code, content |-> ContentOf(RespsOf(x, code)), headers |-> HeaderNames(RespsOf(x, code))]
ReqContent(x) == IF x.method \in {"GET", "DELETE"} \/ x.request = <<>> THEN {}
                 ELSE LET b == x.request[1].body[1] IN
                      CASE b.schema.notation = "any" -> {"*/*"} [] b.schema.notation = "empty" -> {} [] OTHER -> {MT(b.format)}
\* newResponseAnyOf: "empty response body in same-code responses: not decided" -- the export returns an error
MergeRefused(x) == \E c \in Codes(x) : Len(RespsOf(x, c)) > 1 /\ \E i \in 1..Len(RespsOf(x, c)) : RespNotation(RespsOf(x, c)[i]) = "empty"
Operation(C, x) ==
  [method   |-> x.method,
   summary  |-> x.annotation,
   description |-> x.description,
   opid     |-> x.opid,
   tags     |-> TagTitles(C, x.tags, 1),
   query    |-> IF x.query = <<>> THEN <<>> ELSE ParamKeys(x.query[1].schema),
   headers  |-> IF x.request = <<>> \/ x.request[1].headers = <<>> THEN <<>> ELSE ParamKeys(x.request[1].headers[1].schema),
   body     |-> IF x.method \in {"GET", "DELETE"} \/ x.request = <<>> THEN "none"
                ELSE IF x.request[1].body[1].schema.notation = "any" THEN "optional" ELSE "required",
   codes    |-> IF x.responses = <<>> THEN {"default"} ELSE Codes(x),
   reqmt    |-> ReqContent(x),
   resp     |-> IF MergeRefused(x) THEN {} ELSE {Resp(x, c) : c \in Codes(x)}]

HttpIdx(C) == SelectSeq([i \in 1..Len(C.inters) |-> i], LAMBDA i : C.inters[i].proto = "http")
PathsOf(C) == {C.inters[i].path : i \in {HttpIdx(C)[k] : k \in 1..Len(HttpIdx(C))}}
FirstOf(C, p) == LET s == {i \in 1..Len(C.inters) : C.inters[i].proto = "http" /\ C.inters[i].path = p} IN CHOOSE i \in s : \A j \in s : i <= j
Item(C, p) ==
  [path   |-> p,
   params |-> C.inters[FirstOf(C, p)].pathVars,
   ops    |-> {Operation(C, C.inters[i]) : i \in {j \in 1..Len(C.inters) : C.inters[j].proto = "http" /\ C.inters[j].path = p}}]

ExportFails(C) == \E i \in 1..Len(C.inters) : C.inters[i].proto = "http" /\ MergeRefused(C.inters[i])
OAS(C) ==
  [openapi    |-> "3.0.3",
   fails      |-> ExportFails(C),
   info       |-> IF C.info = <<>> THEN [title |-> "", version |-> "", hasdesc |-> FALSE]
                  ELSE [title |-> C.info[1].title, version |-> C.info[1].version, hasdesc |-> C.info[1].description # ""],
   servers    |-> [i \in 1..Len(C.servers) |-> C.servers[i].baseUrl],
   paths      |-> {Item(C, p) : p \in PathsOf(C)},
   components |-> {C.types[i].name : i \in 1..Len(C.types)}]

(***************************************************************************)
(* C17 on the model: what the property states follows from OAS(C) for      *)
(* every accepted catalog -- checked by TLC on the document model.         *)
(***************************************************************************)
ParamsOfPath(p) == LET pid == CHOOSE x \in PathIds : PathTab[x].text = p IN {Params(pid)[i].name : i \in 1..Len(Params(pid))}
Sound(C) ==
  LET O == OAS(C) IN
  /\ \A i \in 1..Len(C.inters) : C.inters[i].proto = "http" =>
        \E it \in O.paths : it.path = C.inters[i].path /\ \E op \in it.ops : op.method = C.inters[i].method
  /\ \A it \in O.paths : ParamsOfPath(it.path) = {it.params[k] : k \in 1..Len(it.params)}
  /\ \A it \in O.paths : \A op \in it.ops : op.codes # {}      \* a code of the catalog (100-599 by C13 / C05) or "default"
=============================================================================
