------------------------------ MODULE OpenAPI ------------------------------
(***************************************************************************)
(* The OpenAPI 3.0.3 export (catalog/ser/openapi) as a pure function of    *)
(* the catalog value of Catalog.tla: OAS(C) is the skeleton of the         *)
(* document ToOpenAPIJson must produce for an accepted catalog C.          *)
(*                                                                         *)
(*   servers      urls in declaration order                                *)
(*   paths        path -> item; an item is created by the FIRST HTTP       *)
(*                interaction of that path (document order) and carries    *)
(*                that interaction's path variables as required path       *)
(*                parameters; every interaction of the path adds its       *)
(*                operation under its method                               *)
(*   operation    summary = annotation, description, operationId, tags =   *)
(*                TITLES of the interaction's tags, query parameters       *)
(*                (style deepObject) then request-header parameters, a     *)
(*                requestBody unless the method is GET / DELETE or there   *)
(*                is no Request, and responses                             *)
(*   responses    one key per distinct code ("default" when there is no    *)
(*                response); several responses with one code are merged    *)
(*   components   one schema per user type (the harness strips the '@')     *)
(*                                                                         *)
(* JSON-RPC interactions are not exported.  What lies inside a schema      *)
(* object is the dependency's business (jsoac) and is not predicted;       *)
(* parameter NAMES are the first-level keys of an object schema ("?" when  *)
(* the schema is not an inline object).                                    *)
(***************************************************************************)
EXTENDS Catalog

ParamKeys(sch) == IF sch.root = "object" THEN [i \in 1..Len(sch.props) |-> sch.props[i].key] ELSE <<"?">>

TagTitle(C, name) == LET i == IdxOf(C.tags, name) IN IF i = 0 THEN "" ELSE C.tags[i].title
RECURSIVE TagTitles(_, _, _)
TagTitles(C, names, i) == IF i > Len(names) THEN <<>>
                          ELSE (IF IdxOf(C.tags, names[i]) = 0 THEN <<>> ELSE <<TagTitle(C, names[i])>>) \o TagTitles(C, names, i + 1)

Codes(x) == {x.responses[r].code : r \in 1..Len(x.responses)}
Operation(C, x) ==
  [method   |-> x.method,
   summary  |-> x.annotation,
   description |-> x.description,
   opid     |-> x.opid,
   tags     |-> TagTitles(C, x.tags, 1),
   query    |-> IF x.query = <<>> THEN <<>> ELSE ParamKeys(x.query[1].schema),
   headers  |-> IF x.request = <<>> \/ x.request[1].headers = <<>> THEN <<>> ELSE ParamKeys(x.request[1].headers[1].schema),
   body     |-> IF x.method \in {"GET", "DELETE"} \/ x.request = <<>> THEN "none"
                ELSE IF x.request[1].body[1].schema.notation = "any" THEN "optional" ELSE "required",
   codes    |-> IF x.responses = <<>> THEN {"default"} ELSE Codes(x)]

HttpIdx(C) == SelectSeq([i \in 1..Len(C.inters) |-> i], LAMBDA i : C.inters[i].proto = "http")
PathsOf(C) == {C.inters[i].path : i \in {HttpIdx(C)[k] : k \in 1..Len(HttpIdx(C))}}
FirstOf(C, p) == LET s == {i \in 1..Len(C.inters) : C.inters[i].proto = "http" /\ C.inters[i].path = p} IN CHOOSE i \in s : \A j \in s : i <= j
Item(C, p) ==
  [path   |-> p,
   params |-> C.inters[FirstOf(C, p)].pathVars,
   ops    |-> {Operation(C, C.inters[i]) : i \in {j \in 1..Len(C.inters) : C.inters[j].proto = "http" /\ C.inters[j].path = p}}]

OAS(C) ==
  [openapi    |-> "3.0.3",
   servers    |-> [i \in 1..Len(C.servers) |-> C.servers[i].baseUrl],
   paths      |-> {Item(C, p) : p \in PathsOf(C)},
   components |-> {C.types[i].name : i \in 1..Len(C.types)}]

(***************************************************************************)
(* C17 on the model: what the property states follows from OAS(C) for      *)
(* every accepted catalog -- checked by TLC on the document model.         *)
(***************************************************************************)
ParamsOfPath(p) == LET pid == CHOOSE x \in PathIds : PathTab[x].text = p IN {Params(pid)[i].name : i \in 1..Len(Params(pid))}
Sound(C) ==
  LET O == OAS(C) IN
  /\ \A i \in 1..Len(C.inters) : C.inters[i].proto = "http" =>
        \E it \in O.paths : it.path = C.inters[i].path /\ \E op \in it.ops : op.method = C.inters[i].method
  /\ \A it \in O.paths : ParamsOfPath(it.path) = {it.params[k] : k \in 1..Len(it.params)}
  /\ \A it \in O.paths : \A op \in it.ops : op.codes # {}      \* a code of the catalog (100-599 by C13 / C05) or "default"
=============================================================================
