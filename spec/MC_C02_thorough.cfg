SPECIFICATION Spec
CONSTANT MaxBlocks = 4
INVARIANT C05
INVARIANT KnownVerdict
INVARIANT InterOrder
ACTION_CONSTRAINT Emit
CHECK_DEADLOCK FALSE
