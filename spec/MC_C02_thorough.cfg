SPECIFICATION Spec
CONSTANT MaxBlocks = 4
CONSTANT Prelude <- PreludeNone
INVARIANT C05
INVARIANT KnownVerdict
INVARIANT InterOrder
ACTION_CONSTRAINT Emit
CHECK_DEADLOCK FALSE
