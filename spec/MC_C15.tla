------------------------------ MODULE MC_C15 ------------------------------
(***************************************************************************)
(* C15: the order of independent top-level blocks does not matter.  For    *)
(* each base set of blocks (types used before they are declared, mutual    *)
(* references through requests, tags, URL groups, stand-alone methods,     *)
(* macro defined after use) every permutation is built by the specified    *)
(* pipeline; invariant: accepted iff the base order is accepted, and the   *)
(* catalog has the same entries with the same content -- only the order    *)
(* inside sections and inside a tag's interaction list follows the text.   *)
(***************************************************************************)
EXTENDS Blocks, Json

CONSTANT Deep       \* thorough tier: more and larger base sets

QuickSets ==
  [s1 |-> <<"t1", "t2", "getB", "tag1", "e1">>,
   s2 |-> <<"tag1", "tag2", "urlT", "tagged", "t1">>,
   s3 |-> <<"urlA", "sim", "rpc", "srv", "info">>,
   s4 |-> <<"mac", "useM", "t4", "e1", "urlAI">>,
   s5 |-> <<"tag1", "tag2", "urlT", "getB", "t1">>,
   sA |-> <<"pathX", "pathXY", "t1", "getB", "srv">>,
   sB |-> <<"t7", "useR1", "useR2", "t1", "srv">>,
   sC |-> <<"tagCats", "catsT", "catsU", "dogsT", "srv">>,
   sD |-> <<"urlS1", "urlS2", "t1", "macT", "useMT">>,
   sE |-> <<"tnA", "tnB", "tnC", "urlA", "srv">>]
DeepSets ==
  [s6 |-> <<"t1", "reqT", "tAny", "srv2", "srv", "infoV">>,
   s7 |-> <<"mac", "mac2", "t1", "bodyT", "tag1", "pathM">>,
   s8 |-> <<"tag1", "tag2", "rpcT", "rpc", "e1", "enumQ">>,
   s9 |-> <<"t2", "t1", "t4", "e1", "t3", "qnf">>]
BaseSets == IF Deep THEN QuickSets @@ DeepSets ELSE QuickSets

VARIABLES base, perm
vars == <<base, perm>>
Init == base \in DOMAIN BaseSets /\ perm \in Permutations(1..Len(BaseSets[base]))
Next == UNCHANGED vars
Spec == Init /\ [][Next]_vars

Permuted == [i \in 1..Len(BaseSets[base]) |-> BaseSets[base][perm[i]]]
B0 == Build(DocOf(BaseSets[base]))
B1 == Build(DocOf(Permuted))

SeqSet(s) == {s[i] : i \in 1..Len(s)}
TagAsSet(t) == [t EXCEPT !.http = SeqSet(@), !.rpc = SeqSet(@)]
AsMaps(S) == [info |-> S.info, jsight |-> S.jsight, servers |-> SeqSet(S.servers), types |-> SeqSet(S.types), enums |-> SeqSet(S.enums),
              tags |-> {TagAsSet(S.tags[i]) : i \in 1..Len(S.tags)}, inters |-> SeqSet(S.inters)]
\* every base set is an accepted document (otherwise the property says nothing about it)
BaseAccepted == B0.res = "ok"
OrderIrrelevant == /\ B1.res = B0.res
                   /\ B0.res = "ok" => AsMaps(B1.skel[1]) = AsMaps(B0.skel[1])

ASSUME PrintT("L " \o ToJson(PoolsJson))
EmitInv == PrintT("E " \o ToJson([base |-> base, blocks |-> Permuted, doc |-> DocOf(Permuted), doc0 |-> DocOf(BaseSets[base]), x |-> B1]))
=============================================================================
