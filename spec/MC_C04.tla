------------------------------ MODULE MC_C04 ------------------------------
(***************************************************************************)
(* C04: accepted => serialisable.  The matrix (every directive position    *)
(* that carries a schema) x (every class of schema defect).  The           *)
(* specification's table says what the build has to have checked for the   *)
(* serialisers to be total: every defect must be rejected at build time    *)
(* (MustReject), or -- if the build lets it through -- must not make       *)
(* ToJson / ToJsonIndent fail.  Every cell is emitted and replayed: when   *)
(* the real build accepts the cell's document, both serialisers must       *)
(* succeed and produce well-formed JDoc Exchange JSON.                     *)
(***************************************************************************)
EXTENDS Integers, Sequences, FiniteSets, TLC, Json

Positions == {"TYPE", "TYPE-regex", "Request", "Request-Body", "Request-regex", "RESP", "RESP-Body", "RESP-regex",
              "Headers-req", "Headers-resp", "Query", "Path", "Params", "Result", "ENUM",
              "RESP-first-of-two", "RESP-middle-of-three", "Request-headers-only",
              "Path-full", "Query-full", "Headers-req-full", "Request-full", "Headers-resp-full", "RESP-full"}     \* among valid companions of every other kind
Defects == {"none", "syntax", "example-vs-type", "example-vs-range", "undefined-type", "undefined-enum", "undefined-rule",
            "invalid-regex", "unsatisfiable-regex", "regex-matching-empty", "not-an-object", "duplicate-key", "bad-allOf", "or-mismatch", "or-on-object", "only-annotation", "no-body"}

DefectText == [d \in Defects |->
  CASE d = "none" -> "{\n  \"id\": 1\n}"
    [] d = "syntax" -> "{\n  \"id\": \n}"
    [] d = "example-vs-type" -> "{\n  \"id\": 1 // {type: \"string\"}\n}"
    [] d = "example-vs-range" -> "{\n  \"id\": 1 // {min: 5}\n}"
    [] d = "undefined-type" -> "{\n  \"id\": @nope\n}"
    [] d = "undefined-enum" -> "{\n  \"id\": 1 // {enum: @nope}\n}"
    [] d = "undefined-rule" -> "{\n  \"id\": 1 // {foo: 1}\n}"
    [] d = "invalid-regex" -> "/(/"
    [] d = "unsatisfiable-regex" -> "/[^\\x00-\\x{10FFFF}]/"      \* compiles, matches nothing: no example exists
    [] d = "regex-matching-empty" -> "/a*/"                        \* legal; the example may be the empty string
    [] d = "not-an-object" -> "[1, 2]"
    [] d = "duplicate-key" -> "{\n  \"id\": 1,\n  \"id\": 2\n}"
    [] d = "or-on-object" -> "{} // {or: [{type: \"object\"}, {type: \"string\"}]}"     \* found by the marshaler only (example generation)
    [] d = "only-annotation" -> "// x"                                                   \* a body that is nothing but an annotation
    [] d = "bad-allOf" -> "{ // {allOf: \"@nope\"}\n  \"id\": 1\n}"
    [] OTHER -> "{\n  \"id\": 1 // {or: [\"string\", \"boolean\"]}\n}"]

\* does the defect apply at the position (a regex position takes regex texts only)
NoBodyPos == {"RESP-first-of-two", "RESP-middle-of-three", "Request-headers-only"}
Applies(p, d) == IF p \in NoBodyPos THEN d = "no-body"            \* a response / request that only has Headers
                 ELSE IF d = "no-body" THEN FALSE
                 ELSE IF p \in {"TYPE-regex", "Request-regex", "RESP-regex"} THEN d \in {"none", "invalid-regex", "unsatisfiable-regex", "regex-matching-empty"}
                 ELSE IF p = "ENUM" THEN d \in {"none", "syntax"}
                 ELSE d \notin {"invalid-regex", "unsatisfiable-regex", "regex-matching-empty"} /\ (d = "only-annotation" => p \notin {"Path", "Headers-req", "Headers-resp", "Query", "Path-full", "Headers-req-full", "Headers-resp-full", "Query-full"})

\* what the build has to reject so that marshalling cannot fail later
MustReject(p, d) == d \notin {"none", "regex-matching-empty"} /\ ~(d = "not-an-object" /\ p \notin {"Headers-req", "Headers-resp", "Path", "Headers-req-full", "Headers-resp-full", "Path-full"})

VARIABLES pos, def
Init == pos \in Positions /\ def \in Defects /\ Applies(pos, def)
Next == UNCHANGED <<pos, def>>
Spec == Init /\ [][Next]_<<pos, def>>

\* M: in the specified design an accepted cell is one the serialisers can handle
AcceptedSerialisable == ~MustReject(pos, def) => def \in {"none", "not-an-object", "regex-matching-empty"}

EmitInv == PrintT("E " \o ToJson([pos |-> pos, def |-> def, text |-> DefectText[def], mustReject |-> MustReject(pos, def)]))
=============================================================================
