SPECIFICATION Spec
CONSTANT MaxLen = 12
CONSTANT Menu <- FullMenu
INVARIANT CyclesRejected
INVARIANT Transparent
INVARIANT NoMacroNodes
ACTION_CONSTRAINT Emit
CHECK_DEADLOCK FALSE
