------------------------------- MODULE Macro -------------------------------
(***************************************************************************)
(* MACRO / PASTE: core/compile_core_macro.go and compile_core_paste.go as  *)
(* pure operators over the tree value of Tree.tla.                         *)
(*                                                                         *)
(*   CollectMacros(T)   collectMacro: the root MACRO nodes, by name, in    *)
(*                      definition order; MACRO nodes contribute nothing   *)
(*                      else to the document                               *)
(*   RecursionCheck(T,M) checkMacroForRecursion: a macro that reaches      *)
(*                      itself through any chain of PASTEs is an error     *)
(*   Expand(T)          processPaste: every directive is copied and its    *)
(*                      context re-resolved against the paste context; a   *)
(*                      PASTE is replaced by the body of its macro; an     *)
(*                      error from inside a pasted body is re-located at   *)
(*                      the (outermost) PASTE                              *)
(*                                                                         *)
(* The result X is again a tree value; its nodes carry src (node id in T)  *)
(* and via (token of the outermost PASTE through which the node came, 0    *)
(* if written in place).  X.enumsAtPaste lists the ENUM nodes registered   *)
(* while pasting (collectRulesFromDirectives runs at each paste).          *)
(***************************************************************************)
EXTENDS Tree, TLC

MErr(T, cls, node) == [res |-> cls, errTok |-> T.nodes[node].tok]

Name1(n) == IF n.p = <<>> THEN "" ELSE n.p[1]

\* ---- collectMacro -------------------------------------------------------
RootMacros(T) == SelectSeq(Kids(T, 0), LAMBDA j : T.nodes[j].k = "MACRO")

RECURSIVE CollectFrom(_, _, _, _)
\* acc: sequence of [name, node]
CollectFrom(T, ms, i, acc) ==
  IF i > Len(ms) THEN [res |-> "ok", errTok |-> 0, macros |-> acc]
  ELSE LET j == ms[i]  n == T.nodes[j] IN
       IF n.a # "" THEN MErr(T, "annotation", j) @@ [macros |-> acc]
       ELSE IF Name1(n) = "" THEN MErr(T, "noparam", j) @@ [macros |-> acc]
       ELSE IF Kids(T, j) = <<>> THEN MErr(T, "macroempty", j) @@ [macros |-> acc]
       ELSE IF \E x \in 1..Len(acc) : acc[x].name = Name1(n) THEN MErr(T, "dupname", j) @@ [macros |-> acc]
       ELSE CollectFrom(T, ms, i + 1, Append(acc, [name |-> Name1(n), node |-> j]))

CollectMacros(T) == CollectFrom(T, RootMacros(T), 1, <<>>)

MacroNode(M, name) == LET hits == {x \in 1..Len(M) : M[x].name = name} IN
                      IF hits = {} THEN 0 ELSE M[CHOOSE x \in hits : TRUE].node

\* ---- checkMacroForRecursion ----------------------------------------------
\* All PASTE nodes below node j (not descending into a PASTE), in document order.
RECURSIVE PastesBelow(_, _)
PastesBelow(T, j) ==
  LET ks == Kids(T, j)
      F[i \in 0..Len(ks)] ==
        IF i = 0 THEN <<>>
        ELSE F[i - 1] \o (IF T.nodes[ks[i]].k = "PASTE" THEN <<ks[i]>> ELSE PastesBelow(T, ks[i]))
  IN F[Len(ks)]

\* Macro names reachable from macro m through chains of PASTEs.
RECURSIVE ReachFrom(_, _, _, _)
ReachFrom(T, M, frontier, seen) ==
  IF frontier = {} THEN seen
  ELSE LET nxt == {Name1(T.nodes[p]) : p \in UNION {{PastesBelow(T, MacroNode(M, m))[x] : x \in 1..Len(PastesBelow(T, MacroNode(M, m)))} : m \in frontier}}
           new == {m \in nxt : MacroNode(M, m) # 0} \ seen
       IN ReachFrom(T, M, new, seen \cup new)

Reaches(T, M, m) == ReachFrom(T, M, {m}, {})
Cyclic(T, M, m) == m \in Reaches(T, M, m)

\* The check walks the macros in definition order; for each it searches, depth
\* first and in document order, the PASTEs reachable from its body -- descending
\* into every other macro once (visited) -- for the first PASTE without a name or
\* the first PASTE that names the macro being checked: that PASTE is the error.
\* work: node ids still to visit (a stack, next first).
RECURSIVE FindBack(_, _, _, _, _)
FindBack(T, M, m, work, visited) ==
  IF work = <<>> THEN [res |-> "ok", errTok |-> 0]
  ELSE LET n == Head(work)  rest == Tail(work) IN
       IF T.nodes[n].k = "PASTE"
       THEN LET nm == Name1(T.nodes[n]) IN
            IF nm = "" THEN MErr(T, "noparam", n)
            ELSE IF nm = m THEN MErr(T, "recursion", n)
            ELSE IF nm \in visited \/ MacroNode(M, nm) = 0 THEN FindBack(T, M, m, rest, visited \cup {nm})
            ELSE FindBack(T, M, m, Kids(T, MacroNode(M, nm)) \o rest, visited \cup {nm})
       ELSE FindBack(T, M, m, Kids(T, n) \o rest, visited)

RECURSIVE CheckMacrosFrom(_, _, _)
CheckMacrosFrom(T, M, i) ==
  IF i > Len(M) THEN [res |-> "ok", errTok |-> 0]
  ELSE LET r == FindBack(T, M, M[i].name, Kids(T, M[i].node), {M[i].name}) IN
       IF r.res # "ok" THEN r ELSE CheckMacrosFrom(T, M, i + 1)

RecursionCheck(T, M) == CheckMacrosFrom(T, M, 1)

\* ---- processPaste ---------------------------------------------------------
EmptyX == [nodes |-> <<>>, ctx |-> 0, res |-> "ok", errTok |-> 0, enumsAtPaste |-> <<>>]

AsTok(n) == n    \* a node carries all fields of the token it came from

\* Attach a copy of T-node j to X at the place context resolution decides.
CopyInto(X, T, j, via) ==
  LET n == T.nodes[j]
      R == Resolve(X, AsTok(n), n.tok)
  IN IF R.res # "ok" THEN R
     ELSE [R EXCEPT !.nodes[Len(R.nodes)] = @ @@ [src |-> j, via |-> via]]

\* ENUM nodes among the direct children of macro node m (collectRulesFromDirectives).
EnumKids(T, m) == SelectSeq(Kids(T, m), LAMBDA j : T.nodes[j].k = "ENUM" /\ T.nodes[j].b # "")

RECURSIVE ProcNode(_, _, _, _, _), ProcList(_, _, _, _, _, _)
\* via = token of the outermost PASTE being expanded (0 when outside any paste)
ProcNode(X, T, M, j, via) ==
  IF X.res # "ok" THEN X
  ELSE LET n == T.nodes[j] IN
  IF n.k = "PASTE"
  THEN LET top == IF via = 0 THEN n.tok ELSE via
           bad(cls) == [X EXCEPT !.res = cls, !.errTok = top]
           m == MacroNode(M, Name1(n))
       IN IF n.a # "" THEN bad("annotation")
          ELSE IF Name1(n) = "" THEN bad("noparam")
          ELSE IF m = 0 THEN bad("nomacro")
          ELSE LET X2 == ProcList(X, T, M, Kids(T, m), 1, top)    \* ENUM rules are collected afterwards, from the expanded tree, in document order
               IN IF X2.res # "ok" THEN [X2 EXCEPT !.errTok = top] ELSE X2
  ELSE LET X1 == CopyInto(X, T, j, via) IN
       IF X1.res # "ok" THEN X1
       ELSE LET me == Len(X1.nodes)
                X2 == ProcList(X1, T, M, Kids(T, j), 1, via)
            IN IF X2.res # "ok" THEN X2
               ELSE IF n.e THEN [X2 EXCEPT !.ctx = X2.nodes[me].parent] ELSE X2

ProcList(X, T, M, js, i, via) ==
  IF i > Len(js) \/ X.res # "ok" THEN X
  ELSE ProcList(ProcNode(X, T, M, js[i], via), T, M, js, i + 1, via)

NonMacroRoots(T) == SelectSeq(Kids(T, 0), LAMBDA j : T.nodes[j].k # "MACRO")

\* compileCore up to processPaste.
Expand(T) ==
  IF T.res # "ok" THEN [EmptyX EXCEPT !.res = T.res, !.errTok = T.errTok]
  ELSE LET C == CollectMacros(T) IN
       IF C.res # "ok" THEN [EmptyX EXCEPT !.res = C.res, !.errTok = C.errTok]
       ELSE LET R == RecursionCheck(T, C.macros) IN
            IF R.res # "ok" THEN [EmptyX EXCEPT !.res = R.res, !.errTok = R.errTok]
            ELSE ProcList(EmptyX, T, C.macros, NonMacroRoots(T), 1, 0)

\* The in-place reading of a document (property C10): the token sequence in which
\* every PASTE is replaced by the tokens of the macro body (recursively) and the
\* MACRO definitions are deleted.  Only meaningful for acyclic, fully defined macro
\* graphs (Expand rejects the others).
CloseTok == [t |-> "C", k |-> ")", p |-> <<>>, a |-> "", e |-> FALSE, b |-> "", c |-> ""]
RECURSIVE InlineNode(_, _, _), InlineList(_, _, _, _)
InlineNode(T, M, j) ==
  LET n == T.nodes[j] IN
  IF n.k = "PASTE" THEN InlineList(T, M, Kids(T, MacroNode(M, Name1(n))), 1)
  ELSE <<[t |-> "D", k |-> n.k, p |-> n.p, a |-> n.a, e |-> n.e, b |-> n.b, c |-> n.c]>> \o InlineList(T, M, Kids(T, j), 1) \o (IF n.e THEN <<CloseTok>> ELSE <<>>)
InlineList(T, M, js, i) ==
  IF i > Len(js) THEN <<>> ELSE InlineNode(T, M, js[i]) \o InlineList(T, M, js, i + 1)
InlineDoc(T, M) == InlineList(T, M, NonMacroRoots(T), 1)

\* Shape of a tree value: what two equivalent documents must agree on.
Shape(X) == [j \in 1..Len(X.nodes) |->
               [k |-> X.nodes[j].k, p |-> X.nodes[j].p, a |-> X.nodes[j].a, b |-> X.nodes[j].b,
                c |-> X.nodes[j].c, e |-> X.nodes[j].e, parent |-> X.nodes[j].parent]]

=============================================================================
