SPECIFICATION Spec
CONSTANT Ctx = "explicitCR"
INVARIANT KeywordsExact
INVARIANT FirstDeviation
INVARIANT NeedsTerminator
INVARIANT NoPanicInv
PROPERTY ErrorIsFinal
ACTION_CONSTRAINT Emit
CHECK_DEADLOCK FALSE
