SPECIFICATION Spec
CONSTANT MaxCalls = 6
VIEW View
INVARIANT RepeatableInv
ACTION_CONSTRAINT Emit
CHECK_DEADLOCK FALSE
