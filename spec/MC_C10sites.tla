---------------------------- MODULE MC_C10sites ----------------------------
(***************************************************************************)
(* C10 (paste sites): one macro body from a menu of directive groups is    *)
(* pasted at 1..3 sites of a document (root, under two different URLs,     *)
(* under a method of each, twice in a row under one method).  A paste makes a NEW copy of the body at the   *)
(* site, so every group that is legal once at each site is legal at all of *)
(* them together: nothing may be keyed by where the body was written.      *)
(* Same invariants and same emission as MC_C10 (documents too long for its *)
(* length bound).                                                          *)
(***************************************************************************)
EXTENDS Catalog, TLC, Json

D(k, p, e, b, c) == [t |-> "D", k |-> k, p |-> p, a |-> "", e |-> e, b |-> b, c |-> c]
Resp(code) == D("RESP", <<"any">>, FALSE, "", code)

BodyMenu ==
  [methodPath |-> << D("GET", <<>>, FALSE, "", ""), D("Path", <<>>, FALSE, "pid", ""), Resp("200") >>,
   pathOnly   |-> << D("Path", <<>>, FALSE, "pid", "") >>,
   respHdr    |-> << Resp("200"), D("Headers", <<>>, FALSE, "hdr", "") >>,
   query      |-> << D("Query", <<>>, FALSE, "obj", "") >>,
   tags       |-> << D("Tags", <<"@g1">>, FALSE, "", "") >>,
   descr      |-> << D("Description", <<>>, FALSE, "d1", "") >>,
   explicitM  |-> << D("POST", <<>>, TRUE, "", ""), Resp("201"), CloseTok >>,
   ownPath    |-> << D("GET", <<"pb">>, FALSE, "", ""), Resp("200") >>,
   enum       |-> << D("ENUM", <<"@e1">>, FALSE, "en", "") >>,
   nested     |-> << D("PASTE", <<"@m2">>, FALSE, "", "") >>,
   request    |-> << D("Request", <<"any">>, FALSE, "", "") >>]
Paste == D("PASTE", <<"@m1">>, FALSE, "", "")
SiteMenu ==
  [root |-> << Paste >>,
   urlA |-> << D("URL", <<"pai">>, FALSE, "", ""), Paste >>,
   urlC |-> << D("URL", <<"pci">>, FALSE, "", ""), Paste >>,
   getA |-> << D("URL", <<"pai">>, FALSE, "", ""), D("PUT", <<>>, FALSE, "", ""), Paste >>,
   getC |-> << D("URL", <<"pci">>, FALSE, "", ""), D("PUT", <<>>, FALSE, "", ""), Paste >>,
   \* twice in a row under one method: two expansions of one macro are two copies, also when they are neighbours
   twice |-> << D("URL", <<"pf">>, FALSE, "", ""), D("POST", <<>>, FALSE, "", ""), Paste, Paste >>]
SiteOrder == << "root", "urlA", "urlC", "getA", "getC", "twice" >>

VARIABLES body, sites
vars == <<body, sites>>
Init == body \in DOMAIN BodyMenu /\ sites \in {s \in SUBSET (DOMAIN SiteMenu) : s # {} /\ Cardinality(s) <= 3}
Next == UNCHANGED vars
Spec == Init /\ [][Next]_vars

RECURSIVE SiteToks(_)
SiteToks(i) == IF i > Len(SiteOrder) THEN <<>>
               ELSE (IF SiteOrder[i] \in sites THEN SiteMenu[SiteOrder[i]] ELSE <<>>) \o SiteToks(i + 1)
doc == << D("ENUM", <<"@e0">>, FALSE, "en", ""),          \* a root ENUM before everything: enums keep document order through a paste
          D("TAG", <<"@g1">>, FALSE, "", ""),
          D("MACRO", <<"@m2">>, TRUE, "", ""), Resp("404"), CloseTok,
          D("MACRO", <<"@m1">>, TRUE, "", "") >> \o BodyMenu[body] \o << CloseTok >> \o SiteToks(1)

T == RunTree(doc)
X == Expand(T)
CM == CollectMacros(T)
Y == RunTree(InlineDoc(T, CM.macros))
TreeBuilds == T.res = "ok" /\ CM.res = "ok"
DupEnum(Z) == \E i, j \in 1..Len(Z.nodes) : i < j /\ Z.nodes[i].k = "ENUM" /\ Z.nodes[j].k = "ENUM" /\ Name1(Z.nodes[i]) = Name1(Z.nodes[j])
Transparent == TreeBuilds =>
     IF X.res = "dupname" THEN Y.res = "ok" => DupEnum(Y)      \* ENUM rules are registered while pasting (see MC_C10)
     ELSE /\ (X.res = "ok") = (Y.res = "ok")
          /\ (X.res = "ok" => Shape(X) = Shape(Y))
          /\ (X.res # "ok" => X.res = Y.res)
\* ... and so is the whole build: the catalog of the macro form is the catalog of the in-place document (M: this is
\* where a rule of Catalog.tla that is keyed by the place a directive was written, not by the directive, shows up)
J == D("JSIGHT", <<"0.3">>, FALSE, "", "")
BM == Build(<<J>> \o doc)
BI == Build(<<J>> \o InlineDoc(T, CM.macros))
CatalogTransparent == (TreeBuilds /\ X.res = "ok") => (BM.res = BI.res /\ BM.skel = BI.skel /\ (BM.res = "err" => BM.cls = BI.cls))
NoMacroNodes == X.res = "ok" => \A j \in 1..Len(X.nodes) : X.nodes[j].k \notin {"MACRO", "PASTE"}

ASSUME PrintT("L " \o ToJson(PoolsJson))
EmitInv == PrintT("E " \o ToJson([doc |-> doc, tres |-> T.res,
             x |-> [res |-> X.res, errTok |-> X.errTok, shape |-> IF X.res = "ok" THEN Shape(X) ELSE <<>>],
             inl |-> IF TreeBuilds THEN [ok |-> TRUE, toks |-> InlineDoc(T, CM.macros)] ELSE [ok |-> FALSE, toks |-> <<>>]]))
=============================================================================
