------------------------------- MODULE Blocks -------------------------------
(***************************************************************************)
(* Block templates: the top-level blocks abstract API models are built     *)
(* from (C02 C03 C05 C15 C19).  Each block is a token sequence; a document *)
(* is JSIGHT followed by a sequence of distinct blocks.                    *)
(***************************************************************************)
EXTENDS Catalog

D(k, p, a, e, b, c) == [t |-> "D", k |-> k, p |-> p, a |-> a, e |-> e, b |-> b, c |-> c]
J == D("JSIGHT", <<"0.3">>, "", FALSE, "", "")

BlockTab ==
  [info  |-> << D("INFO", <<>>, "", FALSE, "", ""), D("Title", <<"T1">>, "", FALSE, "", ""),
                D("Version", <<"1.0">>, "", FALSE, "", ""), D("Description", <<>>, "", FALSE, "d1", "") >>,
   srv   |-> << D("SERVER", <<"@s1">>, "srv one", FALSE, "", ""), D("BaseUrl", <<"http://x/{v}">>, "", FALSE, "", "") >>,
   tag1  |-> << D("TAG", <<"@g1">>, "tag one", FALSE, "", ""), D("Description", <<>>, "", FALSE, "d3", "") >>,   \* a text of two lines
   tag2  |-> << D("TAG", <<"@g_2">>, "", FALSE, "", "") >>,
   t1    |-> << D("TYPE", <<"@t1">>, "type one", FALSE, "obj", "") >>,
   t2    |-> << D("TYPE", <<"@t2">>, "", FALSE, "objref", "") >>,                 \* refers to @t1
   t3    |-> << D("TYPE", <<"@t3", "regex">>, "", FALSE, "rx", "") >>,
   t4    |-> << D("TYPE", <<"@t4">>, "", FALSE, "objen", "") >>,                  \* uses the enum @e1
   e1    |-> << D("ENUM", <<"@e1">>, "enum one", FALSE, "en", "") >>,
   urlA  |-> << D("URL", <<"pa">>, "", FALSE, "", ""),
                D("GET", <<>>, "get a", FALSE, "", ""), D("RESP", <<"any">>, "ok", FALSE, "", "200"),
                D("POST", <<>>, "", FALSE, "", ""), D("Request", <<>>, "", FALSE, "obj", ""),
                  D("RESP", <<>>, "", FALSE, "obj2", "201"), D("RESP", <<"any">>, "", FALSE, "", "404"), D("Headers", <<>>, "", FALSE, "hdr", "") >>,
   urlAI |-> << D("URL", <<"pai">>, "", TRUE, "", ""), D("Path", <<>>, "", FALSE, "pid", ""),
                D("GET", <<>>, "get one", TRUE, "", ""), D("Description", <<>>, "", FALSE, "d1", ""),
                  D("Query", <<"q=1">>, "", FALSE, "obj", ""), D("RESP", <<"any">>, "", FALSE, "", "200"),
                  D("RESP", <<"empty">>, "", FALSE, "", "404"), D("Headers", <<>>, "", FALSE, "hdr", ""), CloseTok,
                D("DELETE", <<>>, "", FALSE, "", ""), D("RESP", <<"empty">>, "", FALSE, "", "204"), CloseTok >>,
   getB  |-> << D("PUT", <<"pb">>, "put b", FALSE, "", ""), D("Request", <<>>, "", FALSE, "", ""),
                  D("Headers", <<>>, "", FALSE, "hdr", ""), D("Body", <<>>, "", FALSE, "objref", ""),
                D("RESP", <<>>, "", FALSE, "", "200"), D("Body", <<"regex">>, "", FALSE, "rx", "") >>,   \* Request body refers to @t1
   rpc   |-> << D("URL", <<"prpc">>, "", FALSE, "", ""), D("Protocol", <<"json-rpc-2.0">>, "", FALSE, "", ""),
                D("Method", <<"foo">>, "method foo", FALSE, "", ""), D("Description", <<>>, "", FALSE, "d2", ""),
                  D("Params", <<>>, "", FALSE, "obj", ""), D("Result", <<>>, "", FALSE, "arr", "") >>,
   tagged|-> << D("GET", <<"pci">>, "", FALSE, "", ""), D("Tags", <<"@g1", "@g_2">>, "", FALSE, "", ""),
                D("OperationId", <<"op1">>, "", FALSE, "", ""), D("RESP", <<"@t1">>, "", FALSE, "", "200"),
                D("RESP", <<"[@t1]">>, "list", FALSE, "", "206") >>, \* needs tag1 tag2 t1
   urlT  |-> << D("URL", <<"paib">>, "", FALSE, "", ""), D("Tags", <<"@g1">>, "", FALSE, "", ""),
                D("GET", <<>>, "", FALSE, "", ""), D("RESP", <<"any">>, "", FALSE, "", "200"),
                D("POST", <<>>, "", FALSE, "", ""), D("Tags", <<"@g_2">>, "", FALSE, "", ""), D("RESP", <<"any">>, "", FALSE, "", "200") >>, \* URL-level and method-level Tags
   \* every HTTP method stand-alone with path parameters nobody else mentions and no Path directive
   sAll  |-> << D("GET", <<"pmg">>, "", FALSE, "", ""), D("RESP", <<"any">>, "", FALSE, "", "200"),
                D("POST", <<"pmp">>, "", FALSE, "", ""), D("RESP", <<"any">>, "", FALSE, "", "200"),
                D("PUT", <<"pmu">>, "", FALSE, "", ""), D("RESP", <<"any">>, "", FALSE, "", "200"),
                D("PATCH", <<"pmh">>, "", FALSE, "", ""), D("RESP", <<"any">>, "", FALSE, "", "200"),
                D("DELETE", <<"pmd">>, "", FALSE, "", ""), D("RESP", <<"any">>, "", FALSE, "", "200") >>,
   \* a path that repeats two different parameters (rejected; the message names the first repeated one)
   dup2  |-> << D("GET", <<"pdup2">>, "", FALSE, "", ""), D("RESP", <<"any">>, "", FALSE, "", "200") >>,
   dup3  |-> << D("URL", <<"pdup">>, "", FALSE, "", ""), D("Path", <<>>, "", FALSE, "pid", ""), D("GET", <<>>, "", FALSE, "", ""),
                D("RESP", <<"any">>, "", FALSE, "", "200") >>,                               \* ... under a Path directive: reported on Path
   \* a Description text directly followed by a line that is a bare 3-byte keyword (the response's body stands on the next line)
   descR |-> << D("GET", <<"pdr">>, "", FALSE, "", ""), D("Description", <<>>, "", FALSE, "d1", ""),
                D("RESP", <<>>, "", FALSE, "obj", "200"), D("PUT", <<"pdr">>, "", FALSE, "", ""), D("Description", <<>>, "", FALSE, "d2", ""),
                D("RESP", <<"any">>, "", FALSE, "", "404") >>,
   \* a regex user type with many matching strings, used by the bodies of two resources
   t7    |-> << D("TYPE", <<"@t7", "regex">>, "", FALSE, "rx2", "") >>,
   useR1 |-> << D("GET", <<"pr1">>, "", FALSE, "", ""), D("RESP", <<>>, "", FALSE, "objr7", "200") >>,          \* needs t7
   useR2 |-> << D("GET", <<"pr2">>, "", FALSE, "", ""), D("RESP", <<>>, "", FALSE, "objr7", "200") >>,          \* needs t7
   \* a declared TAG whose name is also the automatic tag of a path: used through Tags first, then by an untagged interaction
   tagCats |-> << D("TAG", <<"@cats">>, "Cats", FALSE, "", ""), D("Description", <<>>, "", FALSE, "d1", "") >>,
   catsT   |-> << D("GET", <<"pcats">>, "", FALSE, "", ""), D("Tags", <<"@cats">>, "", FALSE, "", ""), D("RESP", <<"any">>, "", FALSE, "", "200") >>,        \* needs tagCats
   catsU   |-> << D("GET", <<"pcatsid">>, "", FALSE, "", ""), D("RESP", <<"any">>, "", FALSE, "", "200") >>,                                              \* untagged: automatic tag @cats
   dogsT   |-> << D("GET", <<"pdogs">>, "", FALSE, "", ""), D("Tags", <<"@cats">>, "", FALSE, "", ""), D("RESP", <<"any">>, "", FALSE, "", "200") >>,        \* needs tagCats
   tagSame |-> << D("TAG", <<"@kits">>, "Kits", FALSE, "", ""), D("Description", <<>>, "", FALSE, "d2", ""),
                  D("GET", <<"pkits">>, "", FALSE, "", ""), D("Tags", <<"@kits">>, "", FALSE, "", ""), D("RESP", <<"any">>, "", FALSE, "", "200"),
                  D("GET", <<"pkitsid">>, "", FALSE, "", ""), D("RESP", <<"any">>, "", FALSE, "", "200") >>,                   \* the same in one block
   \* two path parameters that differ in letter case only
   idID  |-> << D("GET", <<"pidID">>, "", FALSE, "", ""), D("RESP", <<"any">>, "", FALSE, "", "200") >>,
   \* a Description whose text is wrongly parenthesised (rejected on the first line of the text, wherever the layout puts it)
   descBad |-> << D("GET", <<"pnb">>, "", FALSE, "", ""), D("Description", <<>>, "", FALSE, "dbad", ""), D("RESP", <<"any">>, "", FALSE, "", "200") >>,
   \* inheritance through a nested object: @nA inherits from @nB, whose property n inherits from @nC
   tnA   |-> << D("TYPE", <<"@nA">>, "", FALSE, "nA", "") >>,
   tnB   |-> << D("TYPE", <<"@nB">>, "", FALSE, "nB", "") >>,
   tnC   |-> << D("TYPE", <<"@nC">>, "", FALSE, "nC", "") >>,
   \* an ENUM whose value carries a note of two lines (recorded finding: the catalog keeps the raw line break and indentation)
   enumML |-> << D("ENUM", <<"@e9">>, "", FALSE, "enml", "") >>,
   \* quoted parameters that hold the two characters the quoting escapes (a quotation mark and a backslash)
   infoQ |-> << D("INFO", <<>>, "", FALSE, "", ""), D("Title", <<"A \"quoted\" title \\ end">>, "", FALSE, "", ""), D("Version", <<"1.0-\"b\"">>, "", FALSE, "", "") >>,
   srvQ  |-> << D("SERVER", <<"@s_q">>, "", FALSE, "", ""), D("BaseUrl", <<"https://h/{a}?x=\"1\"&y=\\">>, "", FALSE, "", "") >>,
   \* faults that only the checks behind the build find (validateCatalog): a request / a response that has Headers but no body.
   \* Two of them in one document: the first in the order of the checks is reported, every time
   vReq  |-> << D("POST", <<"pvr">>, "", FALSE, "", ""), D("Request", <<>>, "", FALSE, "", ""), D("Headers", <<>>, "", FALSE, "hdr", ""),
                D("RESP", <<"any">>, "", FALSE, "", "200") >>,
   vResp |-> << D("GET", <<"pvs">>, "", FALSE, "", ""), D("RESP", <<>>, "", FALSE, "", "200"), D("Headers", <<>>, "", FALSE, "hdr", ""),
                D("RESP", <<"any">>, "", FALSE, "", "404") >>,
   \* paths with "." segments (stand-alone method, URL with a method, JSON-RPC)
   dotP  |-> << D("GET", <<"pdot">>, "", FALSE, "", ""), D("RESP", <<"any">>, "", FALSE, "", "200") >>,
   dotX  |-> << D("URL", <<"pdotx">>, "", FALSE, "", ""), D("POST", <<>>, "", FALSE, "", ""), D("RESP", <<"any">>, "", FALSE, "", "200") >>,
   dotD  |-> << D("URL", <<"pdd">>, "", FALSE, "", ""), D("Protocol", <<"json-rpc-2.0">>, "", FALSE, "", ""), D("Method", <<"dots">>, "", FALSE, "", ""),
                D("Params", <<>>, "", FALSE, "obj", "") >>,
   \* parameter names that look like a user type / that hold characters beyond letters and digits
   atP   |-> << D("GET", <<"pat">>, "", FALSE, "", ""), D("RESP", <<"any">>, "", FALSE, "", "200") >>,
   exP   |-> << D("PUT", <<"pex">>, "", FALSE, "", ""), D("RESP", <<"any">>, "", FALSE, "", "200") >>,
   \* annotations with white space that is not ASCII (no-break space, ideographic space, line separator, next line): they
   \* are part of the text ("\\xNN" stands for the raw byte, written by the harness)
   annU  |-> << D("GET", <<"pnb">>, "list\\xC2\\xA0all\\xE3\\x80\\x80the\\xE2\\x80\\xA8cats", FALSE, "", ""),
                D("RESP", <<"any">>, "fine\\xC2\\x85then", FALSE, "", "200") >>,
   \* two OperationId directives with different ids on one method (rejected: the second one)
   opid2 |-> << D("GET", <<"pop2">>, "", FALSE, "", ""), D("OperationId", <<"opA">>, "", FALSE, "", ""), D("OperationId", <<"opB">>, "", FALSE, "", ""),
                D("RESP", <<"any">>, "", FALSE, "", "200") >>,
   \* a Tags directive that names the automatic tag of another path (never declared by TAG): rejected, in either order
   tagAuto |-> << D("GET", <<"pcats">>, "", FALSE, "", ""), D("RESP", <<"any">>, "", FALSE, "", "200"),
                  D("GET", <<"pdogs">>, "", FALSE, "", ""), D("Tags", <<"@cats">>, "", FALSE, "", ""), D("RESP", <<"any">>, "", FALSE, "", "200") >>,
   \* URL-level Tags with JSON-RPC methods
   rpcUT |-> << D("URL", <<"pru">>, "", FALSE, "", ""), D("Tags", <<"@g1">>, "", FALSE, "", ""), D("Protocol", <<"json-rpc-2.0">>, "", FALSE, "", ""),
                D("Method", <<"baz">>, "", FALSE, "", ""), D("Result", <<>>, "", FALSE, "str", "") >>,                                  \* needs tag1
   \* a Description of several lines
   descM |-> << D("GET", <<"pdm">>, "", FALSE, "", ""), D("Description", <<>>, "", FALSE, "d3", ""), D("RESP", <<"any">>, "", FALSE, "", "200") >>,
   \* a union written without blanks, and a type that inherits it through allOf (needs t1 t2; t6 needs t5)
   t5    |-> << D("TYPE", <<"@t5">>, "", FALSE, "objun", "") >>,
   t6    |-> << D("TYPE", <<"@t6">>, "", FALSE, "objall", "") >>,
   \* JSON-RPC with the Protocol directive written after the methods
   rpcPL |-> << D("URL", <<"prl">>, "", FALSE, "", ""), D("Method", <<"bar">>, "", FALSE, "", ""),
                D("Params", <<>>, "", FALSE, "obj", ""), D("Result", <<>>, "", FALSE, "arr", ""),
                D("Protocol", <<"json-rpc-2.0">>, "", FALSE, "", "") >>,
   \* a query parameter and a request header that have the name of the path parameter
   qsame |-> << D("GET", <<"pqs">>, "", FALSE, "", ""), D("Query", <<>>, "", FALSE, "pid", ""), D("RESP", <<"any">>, "", FALSE, "", "200"),
                D("POST", <<"pqs">>, "", FALSE, "", ""), D("Request", <<"any">>, "", FALSE, "", ""), D("Headers", <<>>, "", FALSE, "pid", ""),
                D("RESP", <<"any">>, "", FALSE, "", "200") >>,
   \* a quoted path with a blank in it, stand-alone and as a URL with a method below
   blankP|-> << D("GET", <<"psp">>, "", FALSE, "", ""), D("RESP", <<"any">>, "", FALSE, "", "200") >>,
   bad8P |-> << D("GET", <<"pbad8">>, "", FALSE, "", ""), D("RESP", <<"any">>, "", FALSE, "", "200") >>,              \* a path that is not UTF-8
   blankU|-> << D("URL", <<"psp">>, "", FALSE, "", ""), D("POST", <<>>, "", FALSE, "", ""), D("RESP", <<"any">>, "", FALSE, "", "200") >>,
   \* a response and a request whose bodies are given by child Body directives
   respB |-> << D("POST", <<"prb">>, "", FALSE, "", ""), D("Request", <<>>, "", FALSE, "", ""), D("Body", <<"any">>, "", FALSE, "", ""),
                D("RESP", <<>>, "", FALSE, "", "200"), D("Body", <<"@t1">>, "", FALSE, "", ""),
                D("RESP", <<>>, "", FALSE, "", "404"), D("Headers", <<>>, "", FALSE, "hdr", ""), D("Body", <<"empty">>, "", FALSE, "", "") >>,   \* needs t1
   \* a URL-level Tags that every method of the URL overrides (nobody uses it; it is checked all the same)
   urlTT |-> << D("URL", <<"ptt">>, "", FALSE, "", ""), D("Tags", <<"@g1">>, "", FALSE, "", ""),
                D("GET", <<>>, "", FALSE, "", ""), D("Tags", <<"@g_2">>, "", FALSE, "", ""), D("RESP", <<"any">>, "", FALSE, "", "200") >>,       \* needs tag1 tag2
   \* a macro that carries a Path, pasted under two resources (each paste is a new copy of the method and its Path)
   macP  |-> << D("MACRO", <<"@mp">>, "", TRUE, "", ""), D("GET", <<>>, "", FALSE, "", ""), D("Path", <<>>, "", FALSE, "pid", ""),
                D("RESP", <<"any">>, "", FALSE, "", "200"), CloseTok >>,
   useMP |-> << D("URL", <<"pai">>, "", FALSE, "", ""), D("PASTE", <<"@mp">>, "", FALSE, "", ""),
                D("URL", <<"pci">>, "", FALSE, "", ""), D("PASTE", <<"@mp">>, "", FALSE, "", "") >>,                 \* needs macP
   \* a URL-level Tags written after the methods: only an explicit '( )' on the last method lets it reach the URL
   urlTx |-> << D("URL", <<"pf">>, "", FALSE, "", ""), D("GET", <<>>, "", FALSE, "", ""), D("RESP", <<"any">>, "", FALSE, "", "200"),
                D("POST", <<>>, "", TRUE, "", ""), D("RESP", <<"any">>, "", FALSE, "", "200"), CloseTok,
                D("Tags", <<"@g1">>, "", FALSE, "", "") >>,                                                          \* needs tag1
   mac   |-> << D("MACRO", <<"@m1">>, "", TRUE, "", ""), D("RESP", <<"any">>, "from macro", FALSE, "", "200"),
                D("Headers", <<>>, "", FALSE, "hdr", ""), CloseTok >>,
   useM  |-> << D("URL", <<"pb">>, "", FALSE, "", ""), D("GET", <<>>, "", FALSE, "", ""), D("PASTE", <<"@m1">>, "", FALSE, "", ""),
                D("POST", <<>>, "", FALSE, "", ""), D("PASTE", <<"@m1">>, "", FALSE, "", "") >>,                 \* needs mac; conflicts with getB? (pb vs PUT pb: no)
   useMM |-> << D("DELETE", <<"pvs">>, "", FALSE, "", ""), D("PASTE", <<"@m1">>, "", FALSE, "", ""), D("PASTE", <<"@m1">>, "", FALSE, "", "") >>,   \* one macro (a response with Headers) twice in a row in one method: two responses (needs mac)
   tagrep|-> << D("PATCH", <<"pci">>, "", FALSE, "", ""), D("Tags", <<"@g1", "@g_2", "@g1", "@g1">>, "", FALSE, "", ""),
                D("RESP", <<"any">>, "", FALSE, "", "200") >>,                                                  \* repeated tag names (needs tag1 tag2)
   reqT  |-> << D("POST", <<"pz">>, "create", FALSE, "", ""), D("Request", <<"@t1">>, "", FALSE, "", ""),
                D("RESP", <<"[@t1]">>, "", FALSE, "", "201"), D("RESP", <<"regex">>, "", FALSE, "rx", "400") >>,        \* needs t1
   bodyT |-> << D("DELETE", <<"pz">>, "", FALSE, "", ""), D("Request", <<>>, "", FALSE, "", ""), D("Body", <<"regex">>, "", FALSE, "rx", ""),
                D("RESP", <<>>, "gone", FALSE, "", "200"), D("Body", <<"@t1">>, "", FALSE, "", ""),
                D("RESP", <<>>, "", FALSE, "", "404"), D("Headers", <<>>, "", FALSE, "hdr", ""), D("Body", <<"empty">>, "", FALSE, "", "") >>, \* needs t1
   qnf   |-> << D("GET", <<"pz">>, "", FALSE, "", ""), D("Query", <<"noFormat">>, "", FALSE, "obj2", ""), D("RESP", <<"any">>, "", FALSE, "", "200") >>,
   tAny  |-> << D("TYPE", <<"@ta", "any">>, "any type", FALSE, "", ""), D("TYPE", <<"@te", "empty">>, "", FALSE, "", "") >>,
   srv2  |-> << D("SERVER", <<"@s_2">>, "", FALSE, "", ""), D("BaseUrl", <<"https://y">>, "", FALSE, "", "") >>,
   infoV |-> << D("INFO", <<>>, "", FALSE, "", ""), D("Version", <<"2">>, "", FALSE, "", "") >>,
   rpcT  |-> << D("URL", <<"pz">>, "", FALSE, "", ""), D("Protocol", <<"json-rpc-2.0">>, "", FALSE, "", ""),
                D("Method", <<"m1">>, "", FALSE, "", ""), D("Method", <<"m2">>, "second", FALSE, "", ""), D("Tags", <<"@g_2">>, "", FALSE, "", ""),
                D("Result", <<>>, "", FALSE, "str", "") >>,                                                           \* needs tag1 tag2
   pathM |-> << D("GET", <<"paib">>, "", FALSE, "", ""), D("Path", <<>>, "", FALSE, "pid", ""), D("RESP", <<"any">>, "", FALSE, "", "200") >>,  \* Path under a method
   mac2  |-> << D("MACRO", <<"@m2">>, "", TRUE, "", ""), D("GET", <<>>, "from m2", FALSE, "", ""), D("PASTE", <<"@m1">>, "", FALSE, "", ""), CloseTok,
                D("URL", <<"pz">>, "", FALSE, "", ""), D("PASTE", <<"@m2">>, "", FALSE, "", "") >>,                        \* nested macros: needs mac
   enumQ |-> << D("PUT", <<"pz">>, "", FALSE, "", ""), D("Query", <<"c=1">>, "", FALSE, "objen", ""), D("RESP", <<"any">>, "", FALSE, "", "200") >>, \* needs e1
   \* two resources sharing the path parameter {x}: it is described (with an inline 'or' of rule sets, i.e. unnamed inner types)
   \* by the Path of the shorter path only; the longer path's Path describes {y}
   pathX |-> << D("GET", <<"pux">>, "", FALSE, "", ""), D("Path", <<>>, "", FALSE, "pxor", ""), D("RESP", <<"any">>, "", FALSE, "", "200") >>,
   pathXY|-> << D("GET", <<"puxy">>, "", FALSE, "", ""), D("Path", <<>>, "", FALSE, "py", ""), D("RESP", <<"any">>, "", FALSE, "", "200") >>,
   \* responses which share a code: three body formats; two of one format with different headers; one of the notation empty
   respSame  |-> << D("GET", <<"prs">>, "", FALSE, "", ""), D("RESP", <<>>, "first", FALSE, "obj", "200"),
                    D("RESP", <<>>, "", FALSE, "", "200"), D("Body", <<"regex">>, "", FALSE, "rx", ""), D("RESP", <<"any">>, "third", FALSE, "", "200") >>,
   respSameJ |-> << D("POST", <<"prj">>, "", FALSE, "", ""), D("Request", <<"any">>, "", FALSE, "", ""),
                    D("RESP", <<>>, "", FALSE, "obj", "200"), D("Headers", <<>>, "", FALSE, "hdr", ""),
                    D("RESP", <<>>, "", FALSE, "obj2", "200"), D("Headers", <<>>, "", FALSE, "hdr2", ""),
                    D("RESP", <<"empty">>, "", FALSE, "", "404") >>,
   respSameE |-> << D("GET", <<"pre">>, "", FALSE, "", ""), D("RESP", <<>>, "", FALSE, "obj", "200"), D("RESP", <<"empty">>, "", FALSE, "", "200") >>,
   \* two Tags directives under one method: the second one would never be looked up -- rejected
   tags2 |-> << D("GET", <<"pt2">>, "", FALSE, "", ""), D("Tags", <<"@g1">>, "", FALSE, "", ""), D("Tags", <<"@g_2">>, "", FALSE, "", ""),
                D("RESP", <<"any">>, "", FALSE, "", "200") >>,                                                              \* needs tag1, tag2
   \* two resources whose paths differ by the trailing slash only (either order)
   urlS1 |-> << D("URL", <<"psl">>, "", FALSE, "", ""), D("GET", <<>>, "", FALSE, "", ""), D("RESP", <<"any">>, "", FALSE, "", "200") >>,
   urlS2 |-> << D("URL", <<"psls">>, "", FALSE, "", ""), D("GET", <<>>, "", FALSE, "", ""), D("RESP", <<"any">>, "", FALSE, "", "200") >>,
   \* one JSON-RPC method defined twice in one URL: rejected on the second Method
   rpcDup |-> << D("URL", <<"prd">>, "", FALSE, "", ""), D("Protocol", <<"json-rpc-2.0">>, "", FALSE, "", ""),
                 D("Method", <<"foo">>, "", FALSE, "", ""), D("Params", <<>>, "", FALSE, "obj", ""),
                 D("Method", <<"foo">>, "", FALSE, "", ""), D("Params", <<>>, "", FALSE, "obj2", "") >>,
   \* a macro of root-level content and its root-level PASTE (a document may begin with it)
   macT  |-> << D("MACRO", <<"@mt">>, "", TRUE, "", ""), D("GET", <<"pmt">>, "", FALSE, "", ""), D("RESP", <<"any">>, "", FALSE, "", "200"), CloseTok >>,
   useMT |-> << D("PASTE", <<"@mt">>, "", FALSE, "", "") >>,                                                       \* needs macT
   \* Path body with three unused properties whose names differ in case only: the message lists them in one fixed order
   pathCase |-> << D("GET", <<"ppc">>, "", FALSE, "", ""), D("Path", <<>>, "", FALSE, "pcase", ""), D("RESP", <<"any">>, "", FALSE, "", "200") >>,
   \* a rule whose value is an empty array
   respNull |-> << D("GET", <<"pmt">>, "", FALSE, "", ""), D("RESP", <<>>, "", FALSE, "objnull", "200") >>,
   \* two root-level PASTEs in a row: the first leaves the context of its method open, the second brings the response
   rootPastes |-> << D("MACRO", <<"@mg">>, "", TRUE, "", ""), D("GET", <<"pgr">>, "", FALSE, "", ""), CloseTok,
                     D("MACRO", <<"@mr">>, "", TRUE, "", ""), D("RESP", <<"any">>, "", FALSE, "", "200"), CloseTok,
                     D("PASTE", <<"@mg">>, "", FALSE, "", ""), D("PASTE", <<"@mr">>, "", FALSE, "", "") >>,
   sim   |-> << D("GET", <<"pax">>, "", FALSE, "", ""), D("RESP", <<"any">>, "", FALSE, "", "200") >>]          \* /a/{x}: similar to /a/{id}
BlockIds == DOMAIN BlockTab

RECURSIVE Concat(_, _)
Concat(bs, i) == IF i > Len(bs) THEN <<>> ELSE BlockTab[bs[i]] \o Concat(bs, i + 1)
DocOf(bs) == <<J>> \o Concat(bs, 1)
=============================================================================
