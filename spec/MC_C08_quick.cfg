SPECIFICATION Spec
CONSTANT Product = FALSE
CONSTANT Small = TRUE
INVARIANT CanonicalScans
INVARIANT LayoutInsignificant
INVARIANT EmitInv
CHECK_DEADLOCK FALSE
