SPECIFICATION Spec
CONSTANT N = 3
INVARIANT WalkBounded
INVARIANT EmitInv
CHECK_DEADLOCK FALSE
