SPECIFICATION Spec
CONSTANT N = 3
CONSTANT WithKeyref = FALSE
INVARIANT WalkBounded
INVARIANT EmitInv
CHECK_DEADLOCK FALSE
