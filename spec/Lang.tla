------------------------------- MODULE Lang -------------------------------
(***************************************************************************)
(* The JSight API 0.3 language tables, transcribed from the language       *)
(* definition (README / docs / fixtures) -- an independent copy of         *)
(* directive/enumeration.go, directive/parameter.go and the scanner's      *)
(* keyword states.  Every other module takes its vocabulary from here.     *)
(***************************************************************************)
EXTENDS Integers, Sequences, FiniteSets

Methods == {"GET", "POST", "PUT", "PATCH", "DELETE"}

\* The 31 directive kinds.  "RESP" stands for the family of response codes
\* 100..599 (directive.HTTPResponseCode); INCLUDE never reaches the tree.
Kinds == {"JSIGHT", "INFO", "Title", "Version", "Description", "SERVER", "BaseUrl",
          "URL", "Body", "Request", "RESP", "Path", "Headers", "Query", "TYPE",
          "ENUM", "MACRO", "PASTE", "INCLUDE", "Protocol", "Method", "Params",
          "Result", "TAG", "Tags", "OperationId"} \cup Methods

TreeKinds == Kinds \ {"INCLUDE"}

\* The 30 keywords as the scanner must spell them (byte sequences: TLC strings
\* cannot be indexed).
KwNames == Kinds \ {"RESP"}
KwBytes == [k \in KwNames |->
  CASE k = "JSIGHT" -> <<74,83,73,71,72,84>>
    [] k = "INFO" -> <<73,78,70,79>>
    [] k = "Title" -> <<84,105,116,108,101>>
    [] k = "Version" -> <<86,101,114,115,105,111,110>>
    [] k = "Description" -> <<68,101,115,99,114,105,112,116,105,111,110>>
    [] k = "SERVER" -> <<83,69,82,86,69,82>>
    [] k = "BaseUrl" -> <<66,97,115,101,85,114,108>>
    [] k = "URL" -> <<85,82,76>>
    [] k = "GET" -> <<71,69,84>>
    [] k = "POST" -> <<80,79,83,84>>
    [] k = "PUT" -> <<80,85,84>>
    [] k = "PATCH" -> <<80,65,84,67,72>>
    [] k = "DELETE" -> <<68,69,76,69,84,69>>
    [] k = "Body" -> <<66,111,100,121>>
    [] k = "Request" -> <<82,101,113,117,101,115,116>>
    [] k = "Path" -> <<80,97,116,104>>
    [] k = "Headers" -> <<72,101,97,100,101,114,115>>
    [] k = "Query" -> <<81,117,101,114,121>>
    [] k = "TYPE" -> <<84,89,80,69>>
    [] k = "ENUM" -> <<69,78,85,77>>
    [] k = "MACRO" -> <<77,65,67,82,79>>
    [] k = "PASTE" -> <<80,65,83,84,69>>
    [] k = "INCLUDE" -> <<73,78,67,76,85,68,69>>
    [] k = "Protocol" -> <<80,114,111,116,111,99,111,108>>
    [] k = "Method" -> <<77,101,116,104,111,100>>
    [] k = "Params" -> <<80,97,114,97,109,115>>
    [] k = "Result" -> <<82,101,115,117,108,116>>
    [] k = "TAG" -> <<84,65,71>>
    [] k = "Tags" -> <<84,97,103,115>>
    [] k = "OperationId" -> <<79,112,101,114,97,116,105,111,110,73,100>>]

\* ---------------------------------------------------------------------------
\* The context table (JSight API 0.3, "Directive's context").
\* ---------------------------------------------------------------------------
RootOK == {"JSIGHT", "INFO", "SERVER", "URL", "TYPE", "ENUM", "MACRO", "PASTE", "TAG"} \cup Methods

MethodKids == {"Description", "Request", "RESP", "Path", "Query", "PASTE", "Tags", "OperationId"}

Allowed(p) ==
  CASE p = "URL" -> Methods \cup {"Path", "PASTE", "Protocol", "Method", "Tags"}
    [] p \in Methods -> MethodKids
    [] p = "RESP" -> {"Body", "Headers", "PASTE"}
    [] p = "Request" -> {"Body", "Headers", "PASTE"}
    [] p = "INFO" -> {"Title", "Version", "Description", "PASTE"}
    [] p = "SERVER" -> {"BaseUrl", "PASTE"}
    [] p = "Method" -> {"Description", "Params", "Result", "Tags"}
    [] p = "TAG" -> {"Description"}
    [] p = "MACRO" -> {"INFO", "Title", "Version", "Description", "SERVER", "BaseUrl", "URL",
                       "Body", "Request", "RESP", "Path", "Headers", "Query", "TYPE", "ENUM",
                       "PASTE"} \cup Methods
    [] OTHER -> {}

\* Kinds whose body is free text that swallows a "(": they can never carry an
\* explicit context.
NoExplicit == {"Description"}

=============================================================================
