SPECIFICATION Spec
CONSTANT TopLen = 3
CONSTANT MidLen = 3
CONSTANT Wide = FALSE
INVARIANT Transparent
INVARIANT CatalogTransparent
INVARIANT NoMacroNodes
INVARIANT EveryCopyThere
INVARIANT EmitInv
CHECK_DEADLOCK FALSE
