SPECIFICATION Spec
INVARIANT AcceptedSerialisable
INVARIANT EmitInv
CHECK_DEADLOCK FALSE
