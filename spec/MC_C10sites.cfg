SPECIFICATION Spec
INVARIANT Transparent
INVARIANT CatalogTransparent
INVARIANT NoMacroNodes
INVARIANT EmitInv
CHECK_DEADLOCK FALSE
