SPECIFICATION Spec
INVARIANT Transparent
INVARIANT NoMacroNodes
INVARIANT EmitInv
CHECK_DEADLOCK FALSE
