-------------------------------- MODULE Desc --------------------------------
(***************************************************************************)
(* core/description.go as pure operators over byte sequences: line-ending  *)
(* normalisation, removal of the optional "( ... )" frame, trimming of     *)
(* blank lines, removal of the common indentation (computed from the first *)
(* line and shrunk until every non-empty line has it).  Used by C08: the   *)
(* result must not depend on the line-ending convention, on a uniform      *)
(* re-indentation, on the "( )" frame, or on blanks written on an empty    *)
(* line.                                                                   *)
(***************************************************************************)
EXTENDS Integers, Sequences, FiniteSets, TLC

NL == 10
CR == 13
WS == {32, 9}

\* CRLF -> LF, CR -> LF
RECURSIVE NormNL(_)
NormNL(s) == IF s = <<>> THEN <<>>
             ELSE IF s[1] = CR THEN (IF Len(s) >= 2 /\ s[2] = NL THEN <<NL>> \o NormNL(SubSeq(s, 3, Len(s))) ELSE <<NL>> \o NormNL(Tail(s)))
             ELSE <<s[1]>> \o NormNL(Tail(s))

RECURSIVE TrimLeftSet(_, _), TrimRightSet(_, _)
TrimLeftSet(s, S) == IF s # <<>> /\ s[1] \in S THEN TrimLeftSet(Tail(s), S) ELSE s
TrimRightSet(s, S) == IF s # <<>> /\ s[Len(s)] \in S THEN TrimRightSet(SubSeq(s, 1, Len(s) - 1), S) ELSE s
TrimSet(s, S) == TrimRightSet(TrimLeftSet(s, S), S)
Space == {32, 9, 10, 13, 11, 12}

\* descriptionRemoveParentheses: [ok, text]
RemoveParens(b) ==
  LET bb == TrimSet(b, Space) IN
  IF Len(bb) >= 2 /\ bb[1] = 40 /\ bb[Len(bb)] = 41
  THEN LET inner == TrimSet(SubSeq(bb, 2, Len(bb) - 1), WS) IN
       IF inner = <<>> \/ inner[1] \notin {NL, CR} \/ inner[Len(inner)] \notin {NL, CR}
       THEN [ok |-> FALSE, text |-> inner]
       ELSE [ok |-> TRUE, text |-> TrimSet(inner, {NL, CR})]
  ELSE [ok |-> TRUE, text |-> b]

RECURSIVE SplitNL(_, _)
SplitNL(s, cur) == IF s = <<>> THEN <<cur>>
                   ELSE IF s[1] = NL THEN <<cur>> \o SplitNL(Tail(s), <<>>)
                   ELSE SplitNL(Tail(s), Append(cur, s[1]))
RECURSIVE JoinNL(_)
JoinNL(ls) == IF ls = <<>> THEN <<>> ELSE IF Len(ls) = 1 THEN ls[1] ELSE ls[1] \o <<NL>> \o JoinNL(Tail(ls))

IsPrefix(p, s) == Len(p) <= Len(s) /\ SubSeq(s, 1, Len(p)) = p
\* longestWhitespacePrefix: the leading blanks of the first line (a first line of blanks only
\* contributes all but its last byte), shrunk until every non-empty line starts with it
FirstPrefix(l) ==
  LET idx == {i \in 1..Len(l) : l[i] \notin WS \/ i = Len(l)} IN
  IF idx = {} THEN <<>> ELSE SubSeq(l, 1, (CHOOSE i \in idx : \A j \in idx : i <= j) - 1)
RECURSIVE Shrink(_, _)
Shrink(p, ls) == IF p = <<>> THEN <<>>
                 ELSE IF \A i \in 2..Len(ls) : ls[i] = <<>> \/ IsPrefix(p, ls[i]) THEN p
                 ELSE Shrink(SubSeq(p, 1, Len(p) - 1), ls)
CommonPrefix(ls) == IF ls = <<>> THEN <<>> ELSE Shrink(FirstPrefix(ls[1]), ls)
StripPrefix(l, p) == IF IsPrefix(p, l) THEN SubSeq(l, Len(p) + 1, Len(l)) ELSE l

\* description(): [ok, text].  A line of blanks is an empty line (trailing blanks do not change the text); empty lines
\* in front of and behind the text are dropped, the last line loses its trailing blanks.
IsBlankLine(l) == \A i \in 1..Len(l) : l[i] \in WS
RECURSIVE DropLeadingEmpty(_), DropTrailingEmpty(_)
DropLeadingEmpty(ls) == IF ls # <<>> /\ ls[1] = <<>> THEN DropLeadingEmpty(Tail(ls)) ELSE ls
DropTrailingEmpty(ls) == IF ls # <<>> /\ ls[Len(ls)] = <<>> THEN DropTrailingEmpty(SubSeq(ls, 1, Len(ls) - 1)) ELSE ls
Description(raw) ==
  LET b0 == NormNL(raw)
      rp == RemoveParens(b0) IN
  IF ~rp.ok THEN [ok |-> FALSE, text |-> <<>>]
  ELSE LET ls0 == SplitNL(rp.text, <<>>)
           ls1 == [i \in 1..Len(ls0) |-> IF IsBlankLine(ls0[i]) THEN <<>> ELSE ls0[i]]
           ls2 == DropTrailingEmpty(DropLeadingEmpty(ls1))
           ls == IF ls2 = <<>> THEN <<>> ELSE [ls2 EXCEPT ![Len(ls2)] = TrimRightSet(@, WS)]
           p == CommonPrefix(ls)
       IN [ok |-> TRUE, text |-> JoinNL([i \in 1..Len(ls) |-> StripPrefix(ls[i], p)])]
=============================================================================
