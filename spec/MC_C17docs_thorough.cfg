SPECIFICATION Spec
CONSTANT MaxBlocks = 3
CONSTANT Prelude <- PreludeNone
INVARIANT C17
INVARIANT EmitInv
CHECK_DEADLOCK FALSE
