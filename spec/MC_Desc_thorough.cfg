SPECIFICATION Spec
CONSTANT MaxLines = 3
CONSTANT MaxChars = 3
INVARIANT EolInsignificant
INVARIANT IndentInsignificant
INVARIANT FrameInsignificant
INVARIANT BlankLinesInsignificant
INVARIANT AlwaysOK
ACTION_CONSTRAINT Emit
CHECK_DEADLOCK FALSE
