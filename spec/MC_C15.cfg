SPECIFICATION Spec
INVARIANT EmitInv
INVARIANT OrderIrrelevant
CHECK_DEADLOCK FALSE
