SPECIFICATION Spec
CONSTANT Deep = FALSE
INVARIANT EmitInv
INVARIANT OrderIrrelevant
INVARIANT BaseAccepted
CHECK_DEADLOCK FALSE
