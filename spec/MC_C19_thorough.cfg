SPECIFICATION Spec
CONSTANT Deep = TRUE
INVARIANT EmitInv
INVARIANT BaseOK
INVARIANT BanRule
CHECK_DEADLOCK FALSE
