SPECIFICATION Spec
CONSTANTS
 G = {"g1", "g2"}
 PoolLocked = TRUE
 FastPath = TRUE
INVARIANT NoPartialContent
CHECK_DEADLOCK FALSE
