SPECIFICATION Spec
VIEW View
INVARIANT DepthOK
PROPERTY AgreesWithDecl
PROPERTY NoSilentClose
PROPERTY CloseRule
PROPERTY OpenRule
ACTION_CONSTRAINT Emit
CHECK_DEADLOCK FALSE
