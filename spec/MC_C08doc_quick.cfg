SPECIFICATION Spec
CONSTANT MaxBlocks = 2
INVARIANT SameTree
INVARIANT SameCatalog
ACTION_CONSTRAINT Emit
CHECK_DEADLOCK FALSE
