SPECIFICATION Spec
CONSTANT FileIds = {"root.jst", "a.jst", "b.jst"}
CONSTANT MaxRoot = 3
CONSTANT Variant = "contexts"
CONSTANT MaxOther = 3
INVARIANT StackBounded
INVARIANT OpenedInside
INVARIANT Terminates
INVARIANT QuirkOnlyWhen
INVARIANT RecursionSound
ACTION_CONSTRAINT Emit
CHECK_DEADLOCK FALSE
