-------------------------------- MODULE Conc --------------------------------
(***************************************************************************)
(* Concurrency (property C18): goroutines that build projects and          *)
(* serialise catalogs share                                                *)
(*   - the package-level buffer pools of jsight-schema-core (example       *)
(*     generation, OpenAPI conversion): Get, Write, Put and -- the          *)
(*     dependency's defect -- the copy-out AFTER Put; jsight-api-core      *)
(*     serialises each use with a mutex (PoolLocked),                      *)
(*   - per catalog, the lazily compiled exchange content behind a          *)
(*     sync.Once: buildContent makes it "partial", processAllOf "full";    *)
(*     nobody may marshal a partial content (FastPath models a reader      *)
(*     that skips the Once when the content pointer is already set).       *)
(* Steps are taken at synchronisation points only.  Every call must return *)
(* what it returns when run alone: result[g] = g (the goroutine's own      *)
(* data) and content "full".                                               *)
(***************************************************************************)
EXTENDS Integers, FiniteSets, TLC

CONSTANTS G,            \* goroutines
          PoolLocked,   \* the mutex around pool use is taken
          FastPath      \* a reader may skip the Once when the content is already non-nil

Bufs == 1..Cardinality(G)
VARIABLES pool, fresh, bcontent, pc, held, result, mu, once, content, seen
vars == <<pool, fresh, bcontent, pc, held, result, mu, once, content, seen>>

Init == /\ pool = {} /\ fresh = Bufs /\ bcontent = [b \in Bufs |-> "none"]
        /\ pc = [g \in G |-> "compile"] /\ held = [g \in G |-> 0] /\ result = [g \in G |-> "none"]
        /\ mu = "free" /\ once = "idle" /\ content = "none" /\ seen = [g \in G |-> "none"]

\* ---- sync.Once around the content of the shared catalog ----
OnceEnter(g) == /\ pc[g] = "compile" /\ once = "idle" /\ ~(FastPath /\ content # "none")
                /\ once' = g /\ pc' = [pc EXCEPT ![g] = "build1"]
                /\ UNCHANGED <<pool, fresh, bcontent, held, result, mu, content, seen>>
Build1(g) == /\ pc[g] = "build1" /\ content' = "partial" /\ pc' = [pc EXCEPT ![g] = "build2"]
             /\ UNCHANGED <<pool, fresh, bcontent, held, result, mu, once, seen>>
Build2(g) == /\ pc[g] = "build2" /\ content' = "full" /\ once' = "done" /\ pc' = [pc EXCEPT ![g] = "read"]
             /\ UNCHANGED <<pool, fresh, bcontent, held, result, mu, seen>>
OnceWait(g) == /\ pc[g] = "compile" /\ once = "done"
               /\ pc' = [pc EXCEPT ![g] = "read"] /\ UNCHANGED <<pool, fresh, bcontent, held, result, mu, once, content, seen>>
Skip(g) == /\ FastPath /\ pc[g] = "compile" /\ content # "none"          \* the unsynchronised fast path
           /\ pc' = [pc EXCEPT ![g] = "read"] /\ UNCHANGED <<pool, fresh, bcontent, held, result, mu, once, content, seen>>
Read(g) == /\ pc[g] = "read" /\ seen' = [seen EXCEPT ![g] = content]
           /\ pc' = [pc EXCEPT ![g] = "start"] /\ UNCHANGED <<pool, fresh, bcontent, held, result, mu, once, content>>

\* ---- a pooled buffer of the dependency ----
Lock(g) == /\ PoolLocked /\ pc[g] = "start" /\ mu = "free" /\ mu' = g /\ pc' = [pc EXCEPT ![g] = "get"]
           /\ UNCHANGED <<pool, fresh, bcontent, held, result, once, content, seen>>
Get(g) == /\ pc[g] = (IF PoolLocked THEN "get" ELSE "start")
          /\ \E b \in (IF pool # {} THEN pool ELSE fresh) :
               /\ pool' = pool \ {b} /\ fresh' = fresh \ {b}
               /\ held' = [held EXCEPT ![g] = b]
               /\ bcontent' = [bcontent EXCEPT ![b] = "reset"]
          /\ pc' = [pc EXCEPT ![g] = "write"] /\ UNCHANGED <<result, mu, once, content, seen>>
Write(g) == /\ pc[g] = "write" /\ bcontent' = [bcontent EXCEPT ![held[g]] = g] /\ pc' = [pc EXCEPT ![g] = "put"]
            /\ UNCHANGED <<pool, fresh, held, result, mu, once, content, seen>>
Put(g) == /\ pc[g] = "put" /\ pool' = pool \cup {held[g]} /\ pc' = [pc EXCEPT ![g] = "copy"]
          /\ UNCHANGED <<fresh, bcontent, held, result, mu, once, content, seen>>
Copy(g) == /\ pc[g] = "copy" /\ result' = [result EXCEPT ![g] = bcontent[held[g]]]        \* the slice is copied out after Put
           /\ pc' = [pc EXCEPT ![g] = IF PoolLocked THEN "unlock" ELSE "done"]
           /\ UNCHANGED <<pool, fresh, bcontent, held, mu, once, content, seen>>
Unlock(g) == /\ pc[g] = "unlock" /\ mu' = "free" /\ pc' = [pc EXCEPT ![g] = "done"]
             /\ UNCHANGED <<pool, fresh, bcontent, held, result, once, content, seen>>

Next == \E g \in G : OnceEnter(g) \/ Build1(g) \/ Build2(g) \/ OnceWait(g) \/ Skip(g) \/ Read(g)
                     \/ Lock(g) \/ Get(g) \/ Write(g) \/ Put(g) \/ Copy(g) \/ Unlock(g)
Spec == Init /\ [][Next]_vars /\ WF_vars(Next)

\* every call returns what it returns when run alone
Sequential == \A g \in G : pc[g] = "done" => result[g] = g
NoPartialContent == \A g \in G : seen[g] \in {"none", "full"}
OnceAtMostOnce == once \in G \cup {"idle", "done"}
AllFinish == <>(\A g \in G : pc[g] = "done")
=============================================================================
