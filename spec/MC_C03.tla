------------------------------ MODULE MC_C03 ------------------------------
(***************************************************************************)
(* C03: a single known fault is rejected, at the fault.  Base documents    *)
(* (valid by the specification: invariant BaseValid) x every fault class   *)
(* of the property x every site where the class applies.  A fault is a     *)
(* transformation of the token sequence together with the class and the    *)
(* token on which the error must be reported; the invariant FaultDetected  *)
(* says the specified pipeline reports exactly that.  Every (document,     *)
(* fault) is emitted and replayed on the real build -- written directly,   *)
(* and (for appended faults) inside an INCLUDEd file and a MACRO body.     *)
(***************************************************************************)
EXTENDS Blocks, Json

CONSTANT Deep       \* thorough tier: more base documents

QuickBases ==
  [b1 |-> <<"info", "srv", "tag1", "tag2", "t1", "t3", "e1", "urlAI", "tagged", "rpc">>,
   b2 |-> <<"mac", "t1", "t2", "urlA", "getB", "useM", "bodyT">>,        \* a MACRO definition first (JSIGHT must precede it too)
   b3 |-> <<"tag1", "tag2", "urlT", "tagrep", "t1", "e1", "urlTT", "respB">>,
   b4 |-> <<"useMT", "t1", "macT", "urlS1", "urlS2", "respSameJ">>]      \* a root-level PASTE first, its macro defined later
DeepBases ==
  [b4 |-> <<"infoV", "srv2", "t1", "reqT", "tAny", "e1", "t4", "pathM">>,
   b5 |-> <<"tag1", "mac", "mac2", "tag2", "rpc", "e1", "enumQ">>,
   b6 |-> <<"t1", "bodyT", "urlAI", "srv", "tag1", "tag2", "tagged">>]
Bases == IF Deep THEN QuickBases @@ DeepBases ELSE QuickBases

VARIABLES base, fault
vars == <<base, fault>>

Doc0(b) == DocOf(Bases[b])
InsertAt(doc, i, toks) == SubSeq(doc, 1, i) \o toks \o SubSeq(doc, i + 1, Len(doc))   \* after token i
F(kind, doc, cls, tok, where, app) == [kind |-> kind, doc |-> doc, cls |-> cls, tok |-> tok, where |-> where, app |-> app]
\* app: number of trailing tokens that were appended (may be placed in an INCLUDEd file / MACRO body)

NP == {"JSIGHT", "Title", "Version", "SERVER", "BaseUrl", "MACRO", "PASTE", "TAG", "Tags", "Protocol", "Method", "OperationId", "ENUM"}
AN == {"JSIGHT", "INFO", "Title", "Version", "Description", "BaseUrl", "URL", "Query", "Request", "Headers", "Path",
       "Protocol", "MACRO", "PASTE", "Tags", "OperationId", "Params", "Result"}
DL == {"Title", "Version", "Description", "BaseUrl", "Query", "Headers", "OperationId", "Protocol", "Path", "Body", "Tags"}

BlockStart(bs, x) == 2 + Len(Concat(SubSeq(bs, 1, x - 1), 1))     \* token index of the first token of block x
DupCls(k) == CASE k \in {"TYPE", "ENUM", "SERVER", "TAG", "MACRO"} -> "dupname"
               [] k = "INFO" -> "infoonce" [] k = "URL" -> "duppath" [] OTHER -> "dupinteraction"

\* a Body directive takes no annotation, neither under a Request nor under a response (whose annotation stands on the code line)
BodyOfRequest(doc, x) == doc[x].k = "Body" /\ LET T == RunTree(doc) IN
                           \E j \in 1..Len(T.nodes) : T.nodes[j].tok = x /\ T.nodes[j].parent # 0 /\ T.nodes[T.nodes[j].parent].k \in {"Request", "RESP"}

Faults(b) ==
  LET doc == Doc0(b)  bs == Bases[b]  n == Len(doc) IN
  {F("noparam", [doc EXCEPT ![i].p = <<>>], "noparam", i, "kw", 0) : i \in {x \in 1..n : doc[x].t = "D" /\ doc[x].k \in NP /\ doc[x].p # <<>>}}
  \cup {F("annotation", [doc EXCEPT ![i].a = "x"], "annotation", i, "kw", 0) : i \in {x \in 1..n : doc[x].t = "D" /\ doc[x].a = "" /\ (doc[x].k \in AN \/ BodyOfRequest(doc, x))}}
  \cup {F("second", InsertAt(doc, i, <<doc[i]>>), IF doc[i].k = "BaseUrl" THEN "baseurlonce" ELSE IF doc[i].k = "OperationId" THEN "dupopid" ELSE "notunique", i + 1, "kw", 0)
          : i \in {x \in 1..n : doc[x].t = "D" /\ doc[x].k \in DL}}
  \cup {F("dupblock", doc \o BlockTab[bs[x]], DupCls(BlockTab[bs[x]][1].k), n + 1, "kw", Len(BlockTab[bs[x]]))
          : x \in {y \in 1..Len(bs) : bs[y] \notin {"useM", "urlT", "rpc", "useMT"}}}
  \cup {F("undeftype", [doc EXCEPT ![i].p = <<"@nope">>], "typenotfound", i, "kw", 0) : i \in {x \in 1..n : doc[x].k = "RESP" /\ doc[x].p = <<"any">>}}
  \cup {F("undeftype-body", [doc EXCEPT ![i].b = "refu"], "typenotfound", i, "body", 0) : i \in {x \in 1..n : doc[x].k \in {"Headers", "Query", "Params"}}}
  \cup {F("undeftag", [doc EXCEPT ![i].p = <<"@nope">>], "tagnotfound", i, "kw", 0) : i \in {x \in 1..n : doc[x].k = "Tags"}}
  \cup {F("undeftag-in-list", [doc EXCEPT ![ij[1]].p = SubSeq(@, 1, ij[2]) \o <<"@nope">> \o SubSeq(@, ij[2] + 1, Len(@))], "tagnotfound", ij[1], "kw", 0)
          : ij \in {q \in (1..n) \X (0..3) : doc[q[1]].k = "Tags" /\ q[2] <= Len(doc[q[1]].p)}}
  \cup {F("undefmacro", [doc EXCEPT ![i].p = <<"@nope">>], "nomacro", i, "kw", 0) : i \in {x \in 1..n : doc[x].k = "PASTE"}}
  \cup {F("jsight-missing", Tail(doc), "jsightfirst", 1, "kw", 0),
        F("jsight-not-first", SubSeq(doc, 2, BlockStart(bs, 2) - 1) \o <<J>> \o SubSeq(doc, BlockStart(bs, 2), n), "jsightfirst", 1, "kw", 0),
        F("jsight-repeated", doc \o <<J>>, "jsightonce", n + 1, "kw", 1),
        F("jsight-unsupported", [doc EXCEPT ![1].p = <<"0.2">>], "unsupported", 1, "kw", 0),
        F("similar", doc \o <<D("GET", <<"pax">>, "", FALSE, "", ""), D("RESP", <<"any">>, "", FALSE, "", "200")>>,
          IF \E x \in 1..n : doc[x].k \in Methods \cup {"URL"} /\ doc[x].p # <<>> /\ doc[x].p[1] \in {"pai", "paib"} THEN "similar" ELSE "none", n + 1, "kw", 2),
        F("dupparam", doc \o <<D("GET", <<"pdup">>, "", FALSE, "", ""), D("RESP", <<"any">>, "", FALSE, "", "200")>>, "dupparam", n + 1, "kw", 2),
        F("dupparam-exotic-name", doc \o <<D("GET", <<"pdupx">>, "", FALSE, "", ""), D("RESP", <<"any">>, "", FALSE, "", "200")>>, "dupparam", n + 1, "kw", 2),
        F("dupparam-utf8-name", doc \o <<D("GET", <<"pdupu">>, "", FALSE, "", ""), D("RESP", <<"any">>, "", FALSE, "", "200")>>, "dupparam", n + 1, "kw", 2),
        F("similar-exotic-names", doc \o <<D("GET", <<"psx1">>, "", FALSE, "", ""), D("RESP", <<"any">>, "", FALSE, "", "200"),
                                           D("GET", <<"psx2">>, "", FALSE, "", ""), D("RESP", <<"any">>, "", FALSE, "", "200")>>, "similar", n + 3, "kw", 4),
        F("similar-names-differ-in-case", doc \o <<D("GET", <<"psc1">>, "", FALSE, "", ""), D("RESP", <<"any">>, "", FALSE, "", "200"),
                                                   D("PUT", <<"psc2">>, "", FALSE, "", ""), D("RESP", <<"any">>, "", FALSE, "", "200")>>, "similar", n + 3, "kw", 4),
        F("jsight-unsupported-0.3.0", [doc EXCEPT ![1].p = <<"0.3.0">>], "unsupported", 1, "kw", 0),
        F("jsight-unsupported-0.03", [doc EXCEPT ![1].p = <<"0.03">>], "unsupported", 1, "kw", 0),
        F("jsight-unsupported-00.3", [doc EXCEPT ![1].p = <<"00.3">>], "unsupported", 1, "kw", 0),
        F("jsight-unsupported-0.30", [doc EXCEPT ![1].p = <<"0.30">>], "unsupported", 1, "kw", 0),
        F("dupopid", doc \o <<D("GET", <<"pb">>, "", FALSE, "", ""), D("OperationId", <<"op1">>, "", FALSE, "", ""), D("RESP", <<"any">>, "", FALSE, "", "200")>>,
          IF \E x \in 1..n : doc[x].k = "OperationId" THEN "dupopid" ELSE "none", n + 2, "kw", 3),
        F("undefenum", doc \o <<D("TYPE", <<"@t9">>, "", FALSE, "objen", "")>>,
          IF \E x \in 1..n : doc[x].k = "ENUM" THEN "none" ELSE "enumnotfound", n + 1, "body1", 1),
        F("resp-nobody", doc \o <<D("GET", <<"pdup">>, "", FALSE, "", "")>>, "dupparam", n + 1, "kw", 1),
        \* --- faults found by validateCatalog / the add functions of nested directives ---
        F("response-without-body", doc \o <<D("GET", <<"pf">>, "", FALSE, "", ""), D("RESP", <<>>, "", FALSE, "", "200"),
                                            D("Headers", <<>>, "", FALSE, "hdr", ""), D("RESP", <<"any">>, "", FALSE, "", "404")>>, "respnobody", n + 2, "kw", 4),
        F("request-without-body", doc \o <<D("POST", <<"pf">>, "", FALSE, "", ""), D("Request", <<>>, "", FALSE, "", ""),
                                           D("Headers", <<>>, "", FALSE, "hdr", ""), D("RESP", <<"any">>, "", FALSE, "", "200")>>, "reqnobody", n + 2, "kw", 4),
        F("info-empty", IF \E x \in 1..n : doc[x].k = "INFO" THEN doc ELSE doc \o <<D("INFO", <<>>, "", FALSE, "", "")>>,
                        IF \E x \in 1..n : doc[x].k = "INFO" THEN "none" ELSE "infoempty", n + 1, "kw", 1),
        F("type-and-notation", doc \o <<D("GET", <<"pf">>, "", FALSE, "", ""), D("RESP", <<"@t1", "any">>, "", FALSE, "", "200")>>, "typeandnotation", n + 2, "kw", 2),
        F("body-under-response-with-parameter", doc \o <<D("GET", <<"pf">>, "", FALSE, "", ""), D("RESP", <<"any">>, "", FALSE, "", "200"),
                                                         D("Body", <<"any">>, "", FALSE, "", "")>>, "paramsforbidden", n + 2, "kw", 3),
        F("method-without-protocol", doc \o <<D("URL", <<"pf">>, "", FALSE, "", ""), D("Method", <<"bar">>, "", FALSE, "", "")>>, "noprotocol", n + 2, "kw", 2),
        F("wrong-protocol", doc \o <<D("URL", <<"pf">>, "", FALSE, "", ""), D("Protocol", <<"soap">>, "", FALSE, "", "")>>, "badprotocol", n + 2, "kw", 2),
        F("http-and-rpc-in-one-url", doc \o <<D("URL", <<"pf">>, "", FALSE, "", ""), D("Protocol", <<"json-rpc-2.0">>, "", FALSE, "", ""),
                                              D("GET", <<>>, "", FALSE, "", ""), D("RESP", <<"any">>, "", FALSE, "", "200")>>, "mixedurl", n + 3, "kw", 4),
        F("unused-path-parameter", doc \o <<D("GET", <<"pci">>, "", TRUE, "", ""), D("Path", <<>>, "", FALSE, "px", ""), D("RESP", <<"any">>, "", FALSE, "", "200"), CloseTok>>,
                                   IF \E x \in 1..n : doc[x].k \in Methods /\ doc[x].p = <<"pci">> /\ doc[x].k = "GET" THEN "none" ELSE "unusedpathparam", n + 2, "kw", 4),
        F("undeftype-in-path-union", doc \o <<D("GET", <<"ppc">>, "", FALSE, "", ""), D("Path", <<>>, "", FALSE, "pidu", ""), D("RESP", <<"any">>, "", FALSE, "", "200")>>,
                                     "typenotfound", n + 2, "kw", 3),
        F("description-without-text", doc \o <<D("TAG", <<"@g9">>, "", FALSE, "", ""), D("Description", <<>>, "", FALSE, "", "")>>, "descempty", n + 2, "kw", 2),
        F("empty-path-parameter", doc \o <<D("GET", <<"pempty">>, "", FALSE, "", ""), D("RESP", <<"any">>, "", FALSE, "", "200")>>, "emptyparam", n + 1, "kw", 2)}

Init == base \in DOMAIN Bases /\ fault \in Faults(base)
Next == UNCHANGED vars
Spec == Init /\ [][Next]_vars

BaseValid == Build(Doc0(base)).res = "ok"
R == Build(fault.doc)
FaultDetected == IF fault.cls = "none" THEN TRUE
                 ELSE /\ R.res = "err" /\ R.cls = fault.cls /\ R.where = fault.where
                      /\ \/ R.tok = fault.tok
                         \/ fault.doc[fault.tok].k = "PASTE" /\ fault.doc[R.tok].k = "PASTE" /\ R.tok > fault.tok
                            \* (a fault on a PASTE inside a MACRO body surfaces at the outermost PASTE: known finding C03-paste-relocation)

ASSUME PrintT("L " \o ToJson(PoolsJson))
EmitInv == PrintT("E " \o ToJson([base |-> base, kind |-> fault.kind, model |-> [res |-> R.res, cls |-> R.cls, tok |-> R.tok, where |-> R.where], doc |-> fault.doc, app |-> fault.app,
                                  x |-> [res |-> IF fault.cls = "none" THEN R.res ELSE "err", cls |-> IF fault.cls = "none" THEN R.cls ELSE fault.cls,
                                         tok |-> IF fault.cls = "none" THEN R.tok ELSE fault.tok,
                                         where |-> IF fault.cls = "none" THEN R.where ELSE fault.where,
                                         skel |-> IF fault.cls = "none" THEN R.skel ELSE <<>>]]))
=============================================================================
