SPECIFICATION Spec
INVARIANT EmitInv
INVARIANT BaseValid
INVARIANT FaultDetected
CHECK_DEADLOCK FALSE
