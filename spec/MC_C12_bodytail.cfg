SPECIFICATION Spec
CONSTANT MaxLen = 16
CONSTANT Focus = "bodytail"
CONSTANT Bytes1 = {32, 10, 13, 35, 40, 41, 47, 42, 34, 92, 120, 66}
INVARIANT NoPanicInv
INVARIANT WellFormedInv
INVARIANT ErrInsideInv
INVARIANT LexOrderInv
INVARIANT ClosedInv
INVARIANT StackBounded
ACTION_CONSTRAINT Emit
CHECK_DEADLOCK FALSE
