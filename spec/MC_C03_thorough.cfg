SPECIFICATION Spec
CONSTANT Deep = TRUE
INVARIANT EmitInv
INVARIANT BaseValid
INVARIANT FaultDetected
CHECK_DEADLOCK FALSE
