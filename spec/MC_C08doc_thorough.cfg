SPECIFICATION Spec
CONSTANT MaxBlocks = 3
INVARIANT SameTree
INVARIANT SameCatalog
ACTION_CONSTRAINT Emit
CHECK_DEADLOCK FALSE
