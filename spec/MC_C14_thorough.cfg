SPECIFICATION Spec
CONSTANT MaxLen = 7
INVARIANT RefusedIffBadSegment
INVARIANT StaysInside
ACTION_CONSTRAINT Emit
CHECK_DEADLOCK FALSE
