----------------------------- MODULE Trace_C11 -----------------------------
(***************************************************************************)
(* V direction for C11: executions recorded from the real tree builder     *)
(* (harness: vh c11-record) on long random token sequences are re-executed *)
(* by the Tree specification; every logged observation (verdict, chain of  *)
(* open contexts, tree size, EOF verdict) must be what the spec predicts.  *)
(***************************************************************************)
EXTENDS Tree, TLC, TLCExt, Json

Log == ndJsonDeserialize("trace_c11.ndjson")

VARIABLES T, l
vars == <<T, l>>

Init == T = EmptyTree /\ l = 1

Ev == Log[l]

Reset == /\ l <= Len(Log) /\ Ev.ev = "reset"
         /\ T' = EmptyTree /\ l' = l + 1

TokA == /\ l <= Len(Log) /\ Ev.ev = "tok" /\ T.res = "ok"
        /\ LET T1 == TreeStep(T, Ev.tok, l) IN
           /\ T1.res = Ev.res
           /\ (Ev.res = "ok" => ChainKE(T1) = Ev.chain /\ Len(T1.nodes) = Ev.n)
           /\ T' = T1
        /\ l' = l + 1

EofA == /\ l <= Len(Log) /\ Ev.ev = "eof" /\ T.res = "ok"
        /\ HasUnclosed(T) = Ev.unclosed
        /\ UNCHANGED T /\ l' = l + 1

Next == Reset \/ TokA \/ EofA
Spec == Init /\ [][Next]_vars

TraceAccepted == TLCGet("stats").diameter = Len(Log) + 1
=============================================================================
