SPECIFICATION Spec
CONSTANTS
 G = {"g1", "g2", "g3"}
 PoolLocked = TRUE
 FastPath = FALSE
INVARIANT Sequential
INVARIANT NoPartialContent
INVARIANT OnceAtMostOnce
PROPERTY AllFinish
CHECK_DEADLOCK FALSE
