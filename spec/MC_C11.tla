------------------------------ MODULE MC_C11 ------------------------------
(***************************************************************************)
(* C11: the complete state graph of the context resolver.  The state that  *)
(* matters is the chain of open contexts (kind, explicit); the tree built  *)
(* so far and the token history are history variables hidden by VIEW, so   *)
(* the graph is finite with no bound on document length.  Every edge is    *)
(* emitted (ACTION_CONSTRAINT Emit) with a shortest document reaching it   *)
(* and the observation the specification predicts; the Go harness replays  *)
(* each on the real tree builder.                                          *)
(***************************************************************************)
EXTENDS Tree, TLC, Json

VARIABLES T, hist
vars == <<T, hist>>

Tok(k, hp, e) == [t |-> "D", k |-> k, p |-> IF hp THEN <<"/p">> ELSE <<>>, a |-> "", e |-> e, b |-> "", c |-> ""]
CloseTok == [t |-> "C", k |-> ")", p |-> <<>>, a |-> "", e |-> FALSE, b |-> "", c |-> ""]

OpenTok == [t |-> "O", k |-> "(", p |-> <<>>, a |-> "", e |-> FALSE, b |-> "", c |-> ""]

Init == T = EmptyTree /\ hist = <<>>

Dir == /\ T.res = "ok"
       /\ \E k \in TreeKinds, hp \in BOOLEAN, e \in BOOLEAN :
            /\ (hp => k \in Methods)
            /\ (e => k \notin NoExplicit)
            /\ LET tok == Tok(k, hp, e) IN
               /\ T' = TreeStep(T, tok, Len(hist) + 1)
               /\ hist' = Append(hist, tok)

CloseA == /\ T.res = "ok"
          /\ T' = TreeStep(T, CloseTok, Len(hist) + 1)
          /\ hist' = Append(hist, CloseTok)

\* an extra "(": where the previous token is a directive without its own "(", the text is the one of the flag e = TRUE
\* (explored by Dir), so only the positions with nothing to open are taken
OpenA == /\ T.res = "ok"
         /\ (IF T.nodes = <<>> THEN TRUE ELSE T.nodes[Len(T.nodes)].tok # Len(hist) \/ T.nodes[Len(T.nodes)].e)
         /\ T' = TreeStep(T, OpenTok, Len(hist) + 1)
         /\ hist' = Append(hist, OpenTok)

Next == Dir \/ CloseA \/ OpenA
Spec == Init /\ [][Next]_vars

\* what "(" does depends on whether a directive has just been created and on its flag
JustCreated == IF T.nodes = <<>> THEN FALSE ELSE T.nodes[Len(T.nodes)].tok = Len(hist)
View == <<ChainKE(T), T.res, JustCreated>>

\* ----- properties (M) -----
DepthOK == Len(ChainKE(T)) <= 5

\* The walk-up loop agrees with the declarative rule on every transition.
AgreesWithDecl ==
  [][ (hist' # hist /\ hist'[Len(hist')].t = "D") =>
        LET d == hist'[Len(hist')]  tgt == DeclTarget(T, d) IN
        IF tgt = -1 THEN T'.res = "ctxerr" /\ T'.errTok = Len(hist')
        ELSE /\ T'.res = "ok"
             /\ T'.nodes[Len(T'.nodes)].parent = tgt
             /\ T'.ctx = Len(T'.nodes) ]_vars

\* An explicit context is never closed silently: a directive token never
\* removes an explicit element from the chain; ")" removes exactly the innermost.
Expl(ch) == SelectSeq(ch, LAMBDA x : x.e)
NoSilentClose ==
  [][ hist' # hist /\ T'.res = "ok" =>
        LET old == Expl(ChainKE(T))  new == Expl(ChainKE(T')) tok == hist'[Len(hist')] IN
        IF tok.t = "C" THEN new = SubSeq(old, 1, Len(old) - 1)
        ELSE new = IF tok.e THEN Append(old, [k |-> tok.k, e |-> TRUE]) ELSE old ]_vars

\* ")" with no explicit context open is the only way to get "noctx".
CloseRule ==
  [][ hist' # hist /\ hist'[Len(hist')].t = "C" =>
        (T'.res = "noctx") = (Expl(ChainKE(T)) = <<>>) ]_vars

\* "(" is refused exactly when there is no directive it could open: none has just been written, or the one just written
\* has its "(" already; it never changes the chain of open contexts.
OpenRule ==
  [][ hist' # hist /\ hist'[Len(hist')].t = "O" =>
        /\ T'.res = "noopen" /\ T'.errTok = Len(hist')
        /\ ChainKE(T') = ChainKE(T) ]_vars

\* ----- emission (G) -----
Emit == PrintT("E " \o ToJson([h |-> hist', r |-> T'.res, s |-> ChainKE(T'),
                               unclosed |-> HasUnclosed(T'), n |-> Len(T'.nodes)]))
=============================================================================
