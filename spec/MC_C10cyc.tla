----------------------------- MODULE MC_C10cyc -----------------------------
(***************************************************************************)
(* C10 / C01: every PASTE graph over N macros in which each macro body is  *)
(* one PASTE (or a leaf directive): all functional graphs, hence every     *)
(* cycle length 1..N, chains into cycles, and acyclic chains.  The model   *)
(* must reject exactly the graphs in which a macro reaches itself; every   *)
(* graph is emitted and replayed on the real code (in-process for acyclic  *)
(* graphs, and the build must return for all).                             *)
(***************************************************************************)
EXTENDS Macro, Pools, TLC, Json

CONSTANT N
VARIABLES g, root        \* g[i] = macro pasted by macro i (0 = a leaf body); root = macro pasted at top level
vars == <<g, root>>

MName(i) == CASE i = 1 -> "@m1" [] i = 2 -> "@m2" [] i = 3 -> "@m3" [] i = 4 -> "@m4" [] OTHER -> "@m5"
D(k, p, e) == [t |-> "D", k |-> k, p |-> p, a |-> "", e |-> e, b |-> "", c |-> ""]

Doc == LET F[i \in 0..N] ==
             IF i = 0 THEN <<>>
             ELSE F[i - 1] \o <<D("MACRO", <<MName(i)>>, TRUE)>>
                  \o (IF g[i] = 0 THEN <<D("TYPE", <<"@t1", "any">>, FALSE)>> ELSE <<D("PASTE", <<MName(g[i])>>, FALSE)>>)
                  \o <<CloseTok>>
       IN F[N] \o (IF root = 0 THEN <<>> ELSE <<D("PASTE", <<MName(root)>>, FALSE)>>)

Init == g \in [1..N -> 0..N] /\ root \in 0..N
Next == UNCHANGED vars
Spec == Init /\ [][Next]_vars

T == RunTree(Doc)
CM == CollectMacros(T)
X == Expand(T)
HasCycle == \E i \in 1..N : Cyclic(T, CM.macros, MName(i))
CycleIffRejected == (X.res = "recursion") = HasCycle
NeverExpandsCycle == HasCycle => X.res # "ok"
DepthBounded == X.res = "ok" => Len(X.nodes) <= 1

ASSUME PrintT("L " \o ToJson(PoolsJson))
EmitInv == PrintT("E " \o ToJson([doc |-> Doc, tres |-> T.res,
             x |-> [res |-> X.res, errTok |-> X.errTok, shape |-> IF X.res = "ok" THEN Shape(X) ELSE <<>>],
             inl |-> [ok |-> FALSE, toks |-> <<>>]]))
=============================================================================
