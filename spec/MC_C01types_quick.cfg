SPECIFICATION Spec
CONSTANT N = 2
INVARIANT WalkBounded
INVARIANT EmitInv
CHECK_DEADLOCK FALSE
