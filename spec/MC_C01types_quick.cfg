SPECIFICATION Spec
CONSTANT N = 2
CONSTANT WithKeyref = TRUE
INVARIANT WalkBounded
INVARIANT EmitInv
CHECK_DEADLOCK FALSE
