SPECIFICATION Spec
INVARIANT RecordOK
POSTCONDITION TraceAccepted
CHECK_DEADLOCK FALSE
