------------------------------- MODULE Serial -------------------------------
(***************************************************************************)
(* The accessors of a built catalog (kit/japi.go: ToJson, ToJsonIndent,    *)
(* ToOpenAPIJson, ToOpenAPIJsonIndent, Title) and the state they touch:    *)
(*   compiled    the lazily compiled exchange content of the jsight        *)
(*               schemas (sync.Once in ExchangeJSightSchema.Compile,       *)
(*               allOf inheritance copied into the content)                *)
(*   exCache     the cached example of every regex schema (generated once; *)
(*               the generator of jsight-schema-core is stateful: genPos)  *)
(*   respOrder   the order of the responses list of each interaction (the  *)
(*               OpenAPI exporter groups responses by code and must not    *)
(*               reorder the catalog's own slice)                          *)
(* Out(a, s) is what accessor a returns in state s.  The property (C16):   *)
(* Out(a, s) does not depend on s -- i.e. the mechanism state is not       *)
(* observable.  The model keeps the mechanism explicit so that TLC         *)
(* enumerates every call history up to the point where the state stops     *)
(* changing; each history is replayed on real catalogs.                    *)
(***************************************************************************)
EXTENDS Integers, Sequences, FiniteSets, TLC

Accessors == {"ToJson", "ToJsonIndent", "ToOpenAPIJson", "ToOpenAPIJsonIndent", "Title"}

InitSer == [compiled |-> FALSE, exCache |-> FALSE, genPos |-> 0, respOrder |-> "declared", calls |-> <<>>]

\* what a call does to the mechanism state
After(s, a) ==
  LET s1 == [s EXCEPT !.calls = Append(@, a)] IN
  IF a \in {"ToJson", "ToJsonIndent"}
  THEN [s1 EXCEPT !.compiled = TRUE,
                  !.genPos = IF s.exCache THEN @ ELSE @ + 1,     \* the example is generated on the first marshal only
                  !.exCache = TRUE]
  ELSE IF a \in {"ToOpenAPIJson", "ToOpenAPIJsonIndent"}
  THEN s1                                                       \* reads ASTs; must leave respOrder alone
  ELSE s1

\* what a call returns: a function of the built catalog only
Out(a, s) ==
  CASE a \in {"ToJson", "ToJsonIndent"} -> [content |-> "compiled", example |-> 1 (* first value of the generator *), responses |-> s.respOrder]
    [] a \in {"ToOpenAPIJson", "ToOpenAPIJsonIndent"} -> [content |-> "ast", example |-> 0, responses |-> "by-code"]
    [] OTHER -> [content |-> "title", example |-> 0, responses |-> ""]

Repeatable(s) == \A a \in Accessors : Out(a, s) = Out(a, InitSer)
=============================================================================
