SPECIFICATION Spec
CONSTANT MaxLen = 6
INVARIANT RefusedIffBadSegment
INVARIANT StaysInside
ACTION_CONSTRAINT Emit
CHECK_DEADLOCK FALSE
