------------------------------ MODULE MC_C09 ------------------------------
(***************************************************************************)
(* C09: INCLUDE is transparent.  Starting from a single-file document, the *)
(* environment repeatedly cuts a run of tokens (directive boundaries,      *)
(* balanced with respect to explicit contexts) out of some file into a new *)
(* file and leaves an INCLUDE -- nested to depth MaxCuts, at every         *)
(* position -- or re-uses an existing file for an identical run.           *)
(* Invariant: the tree the project builds has the shape of the tree of the *)
(* unsplit document, and fails exactly when it fails, with the error on    *)
(* the corresponding token.  Every project is emitted with the unsplit     *)
(* document and replayed on the real build (catalogs compared).            *)
(***************************************************************************)
EXTENDS Catalog, TLC, Json

CONSTANTS MaxCuts, DocIds

Res(f, name) == [cls |-> "ok", file |-> name, path |-> name]
I == INSTANCE Inc WITH ResolveName <- Res, Banned <- {}

D(k, p, e, b, c) == [t |-> "D", k |-> k, p |-> p, a |-> "", e |-> e, b |-> b, c |-> c]
IncTok(n) == [t |-> "I", k |-> "INCLUDE", p |-> <<n>>, a |-> "", e |-> FALSE, b |-> "", c |-> ""]

Docs ==
  [d1 |-> << D("JSIGHT", <<"0.3">>, FALSE, "", ""),
             D("URL", <<"pa">>, TRUE, "", ""), D("GET", <<>>, FALSE, "", ""), D("RESP", <<"any">>, FALSE, "", "200"), CloseTok,
             D("TYPE", <<"@t1", "any">>, FALSE, "", ""),
             D("GET", <<"pb">>, FALSE, "", ""), D("RESP", <<"@t1">>, FALSE, "", "200") >>,
   d2 |-> << D("JSIGHT", <<"0.3">>, FALSE, "", ""),
             D("INFO", <<>>, FALSE, "", ""), D("Title", <<"T1">>, FALSE, "", ""),
             D("URL", <<"pai">>, FALSE, "", ""), D("Path", <<>>, FALSE, "pid", ""),
             D("POST", <<>>, TRUE, "", ""), D("Request", <<"any">>, FALSE, "", ""), D("RESP", <<>>, FALSE, "obj", "201"), CloseTok,
             D("GET", <<>>, FALSE, "", ""), D("RESP", <<"any">>, FALSE, "", "200") >>,
   d3 |-> << D("JSIGHT", <<"0.3">>, FALSE, "", ""),
             D("TYPE", <<"@t1", "any">>, FALSE, "", ""),
             D("URL", <<"pa">>, FALSE, "", ""), D("GET", <<>>, FALSE, "", ""), D("RESP", <<"any">>, FALSE, "", "200"),
             D("TYPE", <<"@t1", "any">>, FALSE, "", ""),       \* rule error: duplicate name
             D("GET", <<"pb">>, FALSE, "", ""), D("RESP", <<"any">>, FALSE, "", "200") >>,
   d4 |-> << D("JSIGHT", <<"0.3">>, FALSE, "", ""),
             D("GET", <<"pa">>, FALSE, "", ""), D("RESP", <<"any">>, FALSE, "", "200"),
             D("GET", <<"pb">>, FALSE, "", ""), D("RESP", <<"any">>, FALSE, "", "200"),
             D("GET", <<"pa">>, FALSE, "", ""), D("RESP", <<"any">>, FALSE, "", "200") >>,  \* identical runs: reuse of one piece (and a duplicate interaction)
   d5 |-> << D("JSIGHT", <<"0.3">>, FALSE, "", ""),
             D("URL", <<"pai">>, FALSE, "", ""), D("GET", <<>>, FALSE, "", ""), D("Path", <<>>, FALSE, "pid", ""), D("RESP", <<"any">>, FALSE, "", "200"),
             D("URL", <<"pci">>, FALSE, "", ""), D("GET", <<>>, FALSE, "", ""), D("Path", <<>>, FALSE, "pid", ""), D("RESP", <<"any">>, FALSE, "", "200") >>,
   \* an explicit context of the includer around an implicit URL and a method with its own path (which must not leave the '(')
   d6 |-> << D("JSIGHT", <<"0.3">>, FALSE, "", ""),
             D("MACRO", <<"@m1">>, TRUE, "", ""), D("URL", <<"pa">>, FALSE, "", ""), D("GET", <<>>, FALSE, "", ""), D("RESP", <<"any">>, FALSE, "", "200"),
             D("GET", <<"pb">>, FALSE, "", ""), D("RESP", <<"any">>, FALSE, "", "200"), CloseTok,
             D("PASTE", <<"@m1">>, FALSE, "", "") >>,
   \* two resources of identical layout whose Description texts differ: cut into two files, the texts lie at the same byte offsets
   d7 |-> << D("JSIGHT", <<"0.3">>, FALSE, "", ""),
             D("GET", <<"pa">>, FALSE, "", ""), D("Description", <<>>, FALSE, "d1", ""), D("RESP", <<"any">>, FALSE, "", "200"),
             D("GET", <<"pb">>, FALSE, "", ""), D("Description", <<>>, FALSE, "d2", ""), D("RESP", <<"any">>, FALSE, "", "200") >>,
   \* two user types that refer to each other; the one declared first has an example that breaks its own rule (a rule error of the
   \* build phase found while the types are compiled with their dependencies): same message and place in every split
   d8 |-> << D("JSIGHT", <<"0.3">>, FALSE, "", ""),
             D("TYPE", <<"@order">>, FALSE, "ordbad", ""), D("TYPE", <<"@item">>, FALSE, "itemopt", ""),
             D("GET", <<"pa">>, FALSE, "", ""), D("RESP", <<"@order">>, FALSE, "", "200") >>,
   \* Headers given by a reference to a user type that is not an object (found by validateCatalog, located on the Headers body)
   d9 |-> << D("JSIGHT", <<"0.3">>, FALSE, "", ""),
             D("TYPE", <<"@tarr">>, FALSE, "arr", ""),
             D("GET", <<"pa">>, FALSE, "", ""), D("RESP", <<"any">>, FALSE, "", "200"), D("Headers", <<>>, FALSE, "reftarr", ""),
             D("GET", <<"pb">>, FALSE, "", ""), D("RESP", <<"any">>, FALSE, "", "200") >>,
   \* rejected for one reason only: a MACRO definition stands before JSIGHT; wherever the cut puts the definition,
   \* the first directive of the project is still that MACRO
   d10 |-> << D("MACRO", <<"@m1">>, TRUE, "", ""), D("RESP", <<"any">>, FALSE, "", "200"), CloseTok,
              D("JSIGHT", <<"0.3">>, FALSE, "", ""),
              D("GET", <<"pa">>, FALSE, "", ""), D("PASTE", <<"@m1">>, FALSE, "", "") >>]
             \* a method with its Path child, written identically under two resources: legal reuse of one piece

FileNames == <<"a.jst", "b.jst", "c.jst">>

VARIABLES doc, content, ncut
vars == <<doc, content, ncut>>

Init == /\ doc \in DocIds /\ ncut = 0
        /\ content = [f \in {"root.jst", "a.jst", "b.jst", "c.jst"} |-> IF f = "root.jst" THEN Docs[doc] ELSE <<>>]

\* a run is balanced when it closes exactly the explicit contexts it opens (prefix sums never negative)
RECURSIVE Bal(_, _, _)
Bal(run, i, d) == IF i > Len(run) THEN d = 0
                  ELSE IF run[i].t = "C" THEN d > 0 /\ Bal(run, i + 1, d - 1)
                  ELSE Bal(run, i + 1, d + (IF run[i].e THEN 1 ELSE 0))
Balanced(run) == Bal(run, 1, 0)

Live(f) == f = "root.jst" \/ \E g \in DOMAIN content : \E x \in 1..Len(content[g]) : content[g][x].t = "I" /\ content[g][x].p[1] = f

Cut == /\ ncut < MaxCuts
       /\ \E f \in DOMAIN content, i, j \in 1..11 :
            /\ Live(f) /\ i <= j /\ j <= Len(content[f])
            /\ Balanced(SubSeq(content[f], i, j))
            /\ LET new == FileNames[ncut + 1] IN
               content' = [content EXCEPT ![f] = SubSeq(@, 1, i - 1) \o <<IncTok(new)>> \o SubSeq(@, j + 1, Len(@)),
                                          ![new] = SubSeq(content[f], i, j)]
       /\ ncut' = ncut + 1 /\ UNCHANGED doc
\* the same piece included from a second place
Reuse == /\ ncut >= 1
         /\ \E f \in DOMAIN content, g \in {FileNames[x] : x \in 1..ncut}, i, j \in 1..11 :
              /\ Live(f) /\ f # g /\ i <= j /\ j <= Len(content[f]) /\ content[g] # <<>>
              /\ SubSeq(content[f], i, j) = content[g]
              /\ content' = [content EXCEPT ![f] = SubSeq(@, 1, i - 1) \o <<IncTok(g)>> \o SubSeq(@, j + 1, Len(@))]
         /\ UNCHANGED <<doc, ncut>>
Next == Cut \/ Reuse
Spec == Init /\ [][Next]_vars

\* ---------------------------------------------------------------------------
Whole == I!RunInc([f \in DOMAIN content |-> IF f = "root.jst" THEN Docs[doc] ELSE <<>>])
Split == I!RunInc(content)
ShapeOf(T) == [j \in 1..Len(T.nodes) |-> [k |-> T.nodes[j].k, p |-> T.nodes[j].p, e |-> T.nodes[j].e, b |-> T.nodes[j].b,
                                          c |-> T.nodes[j].c, parent |-> T.nodes[j].parent]]
HasJsightCut == \E f \in DOMAIN content : f # "root.jst" /\ \E x \in 1..Len(content[f]) : content[f][x].k = "JSIGHT"
Transparent ==
  IF HasJsightCut THEN Split.res = "err" /\ Split.err.cls = "include-jsight"    \* the one piece the language forbids to move
  ELSE /\ Split.res = Whole.res
       /\ Split.res = "ok" => ShapeOf(Split.T) = ShapeOf(Whole.T)
       /\ Split.res = "err" => Split.err.cls = Whole.err.cls

\* ... and the catalog built from the split project's tree is the catalog of the unsplit document (guards Catalog.tla
\* against rules keyed by file or position instead of by the directive)
CatOf(T) == LET X == Expand(T)  C == RunCatalog(T, X) IN
            IF C.res = "ok" THEN [res |-> "ok", cls |-> "", skel |-> <<Skeleton(C)>>] ELSE [res |-> "err", cls |-> C.err.cls, skel |-> <<>>]
CatalogSame == (~HasJsightCut /\ Split.res = "ok" /\ Whole.res = "ok") => CatOf(Split.T) = CatOf(Whole.T)

\* the token of file f at index i as (file, index) -> position in the unsplit document is not needed:
\* the harness compares messages and maps the split error to its own file/line.
ASSUME PrintT("L " \o ToJson(PoolsJson))
Emit == PrintT("E " \o ToJson([doc |-> Docs[doc], content |-> content', jsightcut |->
            (\E f \in DOMAIN content' : f # "root.jst" /\ \E x \in 1..Len(content'[f]) : content'[f][x].k = "JSIGHT"),
          split |-> LET S == I!RunInc(content') IN
                    [res |-> S.res, err |-> S.err,
                     dup |-> IF S.res = "ok" /\ I!DupTypeNode(S.T) # 0
                             THEN [file |-> S.T.nodes[I!DupTypeNode(S.T)].file, ftok |-> S.T.nodes[I!DupTypeNode(S.T)].ftok,
                                   trace |-> S.T.nodes[I!DupTypeNode(S.T)].trace, qtrace |-> S.T.nodes[I!DupTypeNode(S.T)].qtrace]
                             ELSE [file |-> "", ftok |-> 0, trace |-> <<>>, qtrace |-> <<>>]]]))
=============================================================================
