------------------------------ MODULE MC_C19 ------------------------------
(***************************************************************************)
(* C19: banned directives.  For every set of at most two banned kinds      *)
(* (all 31 kinds, including INCLUDE, MACRO, PASTE and the response codes)  *)
(* and every project of a small corpus that between them contains every    *)
(* kind -- directly, inside an INCLUDEd file and inside MACRO bodies (also  *)
(* one that is never pasted):                                              *)
(*   a banned kind occurs  =>  "not allowed" on the first such directive   *)
(*                             in scanning order (the ban is enforced at   *)
(*                             the keyword);                               *)
(*   none occurs           =>  exactly the result without the option.      *)
(***************************************************************************)
EXTENDS Blocks, Json

CONSTANT Deep       \* thorough tier: also every set of three banned kinds

Res(f, name) == [cls |-> "ok", file |-> name, path |-> name]
VARIABLES proj, banned
vars == <<proj, banned>>

IncTok(n) == [t |-> "I", k |-> "INCLUDE", p |-> <<n>>, a |-> "", e |-> FALSE, b |-> "", c |-> ""]
BadLine == [t |-> "X", k |-> "NUL", p |-> <<>>, a |-> "", e |-> FALSE, b |-> "", c |-> ""]
Unused == << D("MACRO", <<"@unused">>, "", TRUE, "", ""), D("TYPE", <<"@t5", "any">>, "", FALSE, "", ""), CloseTok >>

Projects ==
  [p1 |-> [root |-> DocOf(<<"info", "srv", "tag1", "tag2", "t1", "t3", "e1", "urlAI", "tagged", "rpc">>), inc |-> <<>>],
   p2 |-> [root |-> DocOf(<<"t1", "t2", "urlA", "getB", "mac", "useM">>) \o Unused, inc |-> <<>>],
   p3 |-> [root |-> DocOf(<<"tag1", "tag2", "t1">>) \o <<IncTok("inc.jst")>> \o BlockTab["urlT"], inc |-> BlockTab["urlA"] \o BlockTab["e1"]],
   \* the banned directive has a fault of its own (a second Path parameter): the ban is enforced at the keyword and comes first
   p4 |-> [root |-> DocOf(<<"t1">>) \o << D("GET", <<"pa", "pb">>, "", FALSE, "", ""), D("RESP", <<"any">>, "", FALSE, "", "200"),
                                        IncTok("inc.jst"), D("TAG", <<"@g1">>, "", FALSE, "", "") >>,
           inc |-> << D("URL", <<"pz", "pf">>, "", FALSE, "", ""), D("POST", <<>>, "", FALSE, "", "") >>],
   \* JSIGHT written in the included file (refused there by a rule of its own): when JSIGHT is banned, the ban comes first
   p5 |-> [root |-> << IncTok("inc.jst"), D("GET", <<"pa">>, "", FALSE, "", ""), D("RESP", <<"any">>, "", FALSE, "", "200") >>,
           inc |-> << D("JSIGHT", <<"0.3">>, "", FALSE, "", ""), D("TYPE", <<"@t1", "any">>, "", FALSE, "", "") >>],
   \* dangling references: the project is rejected because a declaration is ABSENT; banning the absent kind changes nothing
   \* (a pass that is skipped when its kind is banned would lose the error)
   p6 |-> [root |-> DocOf(<<"t1">>) \o << D("GET", <<"pa">>, "", FALSE, "", ""), D("RESP", <<"any">>, "", FALSE, "", "200"), D("PASTE", <<"@nope">>, "", FALSE, "", "") >>, inc |-> <<>>],   \* no MACRO
   p7 |-> [root |-> DocOf(<<"t1">>) \o << D("GET", <<"pa">>, "", FALSE, "", ""), D("Tags", <<"@g9">>, "", FALSE, "", ""), D("RESP", <<"any">>, "", FALSE, "", "200") >>, inc |-> <<>>],     \* no TAG
   p8 |-> [root |-> DocOf(<<"srv">>) \o << D("GET", <<"pa">>, "", FALSE, "", ""), D("RESP", <<"@t9">>, "", FALSE, "", "200") >>, inc |-> <<>>],                                         \* no TYPE
   p9 |-> [root |-> DocOf(<<"t1">>) \o << D("URL", <<"pf">>, "", FALSE, "", ""), D("Method", <<"foo">>, "", FALSE, "", "") >>, inc |-> <<>>],                                            \* no Protocol
   p10 |-> [root |-> DocOf(<<"srv">>) \o << D("TYPE", <<"@t9">>, "", FALSE, "objen", "") >>, inc |-> <<>>],                                                                            \* no ENUM
   p11 |-> [root |-> DocOf(<<"t1">>) \o << D("GET", <<"pa">>, "", FALSE, "", ""), D("RESP", <<"any">>, "", FALSE, "", "200"), IncTok("inc.jst") >>,
            inc |-> << D("PASTE", <<"@nope">>, "", FALSE, "", "") >>],
   \* a line the scanner rejects (a NUL byte) BEHIND directives of the same file: what is met first in scan order wins, a ban too
   p12 |-> [root |-> DocOf(<<"t1">>) \o << D("GET", <<"pa">>, "", FALSE, "", ""), D("RESP", <<"any">>, "", FALSE, "", "200"), IncTok("inc.jst"),
                                          D("TAG", <<"@g1">>, "", FALSE, "", ""), BadLine >>,
            inc |-> << D("URL", <<"pz">>, "", FALSE, "", ""), D("POST", <<>>, "", FALSE, "", ""), D("PASTE", <<"@m1">>, "", FALSE, "", ""), BadLine >>]]                                                                                                                 \* no MACRO, the PASTE in an included file

Init == proj \in DOMAIN Projects /\ banned \in ({{k1, k2} : k1, k2 \in Kinds} \cup (IF Deep THEN {{k1, k2, k3} : k1, k2, k3 \in Kinds} ELSE {}))     \* singletons, pairs (and triples)
Next == UNCHANGED vars
Spec == Init /\ [][Next]_vars

Content == [f \in {"root.jst", "inc.jst"} |-> IF f = "root.jst" THEN Projects[proj].root ELSE Projects[proj].inc]
I0 == INSTANCE Inc WITH ResolveName <- Res, Banned <- {}
IB == INSTANCE Inc WITH ResolveName <- Res, Banned <- banned
S0 == I0!RunInc(Content)
SB == IB!RunInc(Content)

\* scanning order = the order in which IncStep meets the tokens
Occurs == \E f \in DOMAIN Content : \E x \in 1..Len(Content[f]) :
             Content[f][x].k \in banned /\ (f = "root.jst" \/ \E y \in 1..Len(Content["root.jst"]) : Content["root.jst"][y].t = "I")
\* a banned directive that is reached stops the run at its keyword; a fault met earlier in scan order stops it first, as without the ban
BanRule == IF Occurs THEN SB.res = "err" /\ ( (SB.err.cls = "notallowed" /\ Content[SB.err.f][SB.err.i].k \in banned)
                                             \/ (S0.res = "err" /\ SB.err = S0.err) )
           ELSE SB = S0
BaseOK == proj \notin {"p4", "p5", "p12"} => S0.res = "ok"

ASSUME PrintT("L " \o ToJson(PoolsJson))
EmitInv == PrintT("E " \o ToJson([proj |-> proj, banned |-> banned, content |-> Content, occurs |-> Occurs,
                                  err |-> [cls |-> SB.err.cls, f |-> SB.err.f, i |-> SB.err.i, trace |-> SB.err.trace]]))
=============================================================================
