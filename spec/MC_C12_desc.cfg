SPECIFICATION Spec
CONSTANT MaxLen = 18
CONSTANT Focus = "description"
CONSTANT Bytes1 = {32, 10, 13, 35, 40, 41, 47, 42, 34, 92, 120, 66}
VIEW View
INVARIANT NoPanicInv
INVARIANT WellFormedInv
INVARIANT ErrInsideInv
INVARIANT LexOrderInv
INVARIANT ClosedInv
INVARIANT StackBounded
ACTION_CONSTRAINT Emit
CHECK_DEADLOCK FALSE
