------------------------------- MODULE Tree -------------------------------
(***************************************************************************)
(* The directive tree builder (core/scan_project.go, context_processing.go)*)
(* as pure step operators over a tree value T, so that the same operators  *)
(* serve the C11 state machine, the MACRO/PASTE expander and the document  *)
(* pipeline (folds).                                                       *)
(*                                                                         *)
(* A token is what one directive contributes once the scanner has cut it   *)
(* into lexemes:  [t |-> "D", k, p, a, e, b, c]  (kind, parameters,         *)
(* annotation, explicit "(" flag, body id, response code),  [t |-> "C"]    *)
(* for ")",  [t |-> "O"] for a "(" beyond the one the directive's flag     *)
(* stands for.                                                             *)
(*                                                                         *)
(* T == [nodes, ctx, res, errTok]                                          *)
(*   nodes : sequence of [k,p,a,e,b,c,parent,tok] in creation order        *)
(*           (parent = 0 for a root directive)                             *)
(*   ctx   : node id of core.currentContextDirective (0 = root context)    *)
(*   res   : "ok" | "ctxerr" | "noctx" | "noopen" | "unclosed"             *)
(***************************************************************************)
EXTENDS Lang, TLC

EmptyTree == [nodes |-> <<>>, ctx |-> 0, res |-> "ok", errTok |-> 0]

HasPathParam(d) == d.k \in Methods /\ d.p # <<>>

\* Does the open directive c admit d as a child?  An HTTP method that brings
\* its own path is not a child of a URL (it is a resource of its own).
Admits(c, d) == d.k \in Allowed(c.k) /\ ~(c.k = "URL" /\ HasPathParam(d))

Attach(T, c, d, i) ==
  \* the node keeps every field of the token (kind, parameters, annotation, explicit flag,
  \* body, code, and -- for multi-file projects -- file and include trace)
  LET n == [parent |-> c, tok |-> i] @@ d
  IN [T EXCEPT !.nodes = Append(@, n), !.ctx = Len(T.nodes) + 1]

Fail(T, r, i) == [T EXCEPT !.res = r, !.errTok = i]

\* Is an explicit context open at or above node c?
RECURSIVE ExplicitAbove(_, _)
ExplicitAbove(T, c) == IF c = 0 THEN FALSE
                       ELSE T.nodes[c].e \/ ExplicitAbove(T, T.nodes[c].parent)

\* processContext: walk up from the current context; implicit contexts close
\* silently, an explicit one never does.  An HTTP method with its own path that
\* meets an implicit URL starts a new root directive -- unless an explicit
\* context is open further out, which must not be left: then the URL just ends.
RECURSIVE ResolveAt(_, _, _, _)
ResolveAt(T, c, d, i) ==
  IF c = 0
  THEN IF d.k \in RootOK THEN Attach(T, 0, d, i) ELSE Fail(T, "ctxerr", i)
  ELSE LET top == T.nodes[c] IN
       IF Admits(top, d) THEN Attach(T, c, d, i)
       ELSE IF top.e THEN Fail(T, "ctxerr", i)
       ELSE IF top.k = "URL" /\ HasPathParam(d) /\ ~ExplicitAbove(T, top.parent)
            THEN Attach(T, 0, d, i)
       ELSE ResolveAt(T, top.parent, d, i)

Resolve(T, d, i) == ResolveAt(T, T.ctx, d, i)

\* closeLastExplicitContext
RECURSIVE CloseAt(_, _, _)
CloseAt(T, c, i) ==
  IF c = 0 THEN Fail(T, "noctx", i)
  ELSE IF T.nodes[c].e THEN [T EXCEPT !.ctx = T.nodes[c].parent]
  ELSE CloseAt(T, T.nodes[c].parent, i)

Close(T, i) == CloseAt(T, T.ctx, i)

\* "(" opens the context of the directive it follows -- the one created by the previous token.  A "(" that follows no
\* directive (it stands first, or behind ")") or follows a directive which has its "(" already has nothing to open:
\* it would never be closed.
OpenExtra(T, i) ==
  LET n == Len(T.nodes) IN
  IF n = 0 THEN Fail(T, "noopen", i)
  ELSE IF T.nodes[n].tok # i - 1 \/ T.nodes[n].e THEN Fail(T, "noopen", i)
  ELSE [T EXCEPT !.nodes[n].e = TRUE]

\* One token.
TreeStep(T, tok, i) ==
  IF T.res # "ok" THEN T
  ELSE IF tok.t = "D" THEN Resolve(T, tok, i)
  ELSE IF tok.t = "O" THEN OpenExtra(T, i)
  ELSE Close(T, i)

\* The chain of open contexts, outermost first, as node ids.
RECURSIVE ChainIds(_, _)
ChainIds(T, c) == IF c = 0 THEN <<>> ELSE Append(ChainIds(T, T.nodes[c].parent), c)

ChainKE(T) == LET ids == ChainIds(T, T.ctx) IN
              [j \in 1..Len(ids) |-> [k |-> T.nodes[ids[j]].k, e |-> T.nodes[ids[j]].e]]

HasUnclosed(T) == \E j \in 1..Len(ChainIds(T, T.ctx)) : T.nodes[ChainIds(T, T.ctx)[j]].e

\* End of the root file: an explicit context still open is an error.
TreeEOF(T, i) == IF T.res = "ok" /\ HasUnclosed(T) THEN Fail(T, "unclosed", i) ELSE T

RECURSIVE FoldTree(_, _, _)
FoldTree(T, toks, i) ==
  IF i > Len(toks) THEN T ELSE FoldTree(TreeStep(T, toks[i], i), toks, i + 1)

RunTree(toks) == TreeEOF(FoldTree(EmptyTree, toks, 1), Len(toks) + 1)

\* Children of node c (0 = the roots), in order.
Kids(T, c) == SelectSeq([j \in 1..Len(T.nodes) |-> j], LAMBDA j : T.nodes[j].parent = c)

(***************************************************************************)
(* The declarative reading of the context rule (property C11), independent *)
(* of the walk-up loop: among the open contexts from the innermost one out *)
(* to (and including) the innermost explicit one -- or out to the root if  *)
(* none is explicit -- the directive attaches to the nearest that admits   *)
(* it; if none does it is rejected.                                        *)
(***************************************************************************)
DeclTarget(T, d) ==
  LET ids == ChainIds(T, T.ctx)
      n == Len(ids)
      expl == {j \in 1..n : T.nodes[ids[j]].e}
      lo == IF expl = {} THEN 0 ELSE CHOOSE j \in expl : \A x \in expl : x <= j
      cand == {j \in lo..n : IF j = 0 THEN d.k \in RootOK ELSE Admits(T.nodes[ids[j]], d)}
      j == IF cand = {} THEN -1 ELSE CHOOSE x \in cand : \A y \in cand : y <= x
      \* a method with its own path that passes an implicit URL on the way out,
      \* with no explicit context open anywhere, becomes a new root directive
      passesUrl == HasPathParam(d) /\ expl = {} /\ \E u \in 1..n : u > j /\ T.nodes[ids[u]].k = "URL"
  IN IF passesUrl THEN 0
     ELSE IF j = -1 THEN -1
     ELSE IF j = 0 THEN 0 ELSE ids[j]

=============================================================================
