SPECIFICATION Spec
CONSTANT MaxBlocks = 2
INVARIANT C05
INVARIANT KnownVerdict
INVARIANT InterOrder
ACTION_CONSTRAINT Emit
CHECK_DEADLOCK FALSE
