SPECIFICATION Spec
CONSTANT MaxCuts = 2
CONSTANT DocIds = {"d1", "d2", "d3", "d4", "d5", "d6", "d7", "d8", "d9", "d10"}
INVARIANT Transparent
INVARIANT CatalogSame
ACTION_CONSTRAINT Emit
CHECK_DEADLOCK FALSE
