SPECIFICATION Spec
CONSTANT Product = FALSE
CONSTANT Small = FALSE
INVARIANT CanonicalScans
INVARIANT LayoutInsignificant
INVARIANT EmitInv
CHECK_DEADLOCK FALSE
