------------------------------ MODULE MC_C12 ------------------------------
(***************************************************************************)
(* C12 / C01(scanner) / C08(trivia): the byte-level scanner over every tape*)
(* that can be assembled from a menu of chunks (single bytes of every class*)
(* the scanner distinguishes, every keyword, a response code, parameters,  *)
(* schema / enum bodies good and bad) up to MaxLen bytes.  Invariants: no  *)
(* partial function of the code is hit (NoPanic), lexemes are well-formed  *)
(* and ordered, errors lie inside the file.  Every Feed edge is emitted    *)
(* with the specification's run to end of file and replayed on Next().     *)
(***************************************************************************)
EXTENDS Scanner, Json

CONSTANTS MaxLen, Bytes1,
          Focus        \* "all": the general chunk menu;  "description": tapes that start with a Description line;
                       \* "comments": longer tapes over comments / annotations / line breaks around two directives

VARIABLE st
vars == <<st>>

AllChunks ==
  {PlainChunk(<<x>>) : x \in Bytes1}
  \cup {PlainChunk(KwBytes[k]) : k \in KwNames}
  \cup {PlainChunk(<<50,48,48>>)}                                    \* 200
  \cup {PlainChunk(x) : x \in {<<47,97>>, <<64,116>>, AnyB, RegexB}}   \* /a  @t  any  regex
  \cup {BodyChunk(<<123,125>>, TRUE, FALSE, 0),        \* {}
        BodyChunk(<<91,49,93>>, TRUE, TRUE, 0),        \* [1]
        BodyChunk(<<64,116>>, TRUE, FALSE, 0),         \* @t
        BodyChunk(<<123,120>>, FALSE, FALSE, 1)}       \* {x   (rejected by Len)
\* inside / behind a Description text: line breaks, blanks, text, the "( )" frame, lines that are (or only
\* begin like) a directive -- 3-byte keywords and codes are the shortest the look-ahead has to recognise
DescChunks ==
  {PlainChunk(<<x>>) : x \in {10, 13, 32, 120, 40, 41, 35}}
  \cup {PlainChunk(KwBytes[k]) : k \in {"GET", "URL", "TAG", "Path", "Tags"}}
  \cup {PlainChunk(<<50,48,48>>), PlainChunk(<<71,69>>), PlainChunk(<<54,48,48>>)}      \* 200  GE  600
\* comments and annotations around directives: '#', '##', '###' blocks, '//', '/* */', every line-break convention mixed
CommentChunks ==
  {PlainChunk(<<x>>) : x \in {10, 13, 32, 35, 47, 42, 120}}
  \cup {PlainChunk(KwBytes[k]) : k \in {"GET", "URL"}}
  \cup {PlainChunk(<<47,97>>), PlainChunk(<<35,35,35>>)}                                \* /a  ###
\* what follows a schema body: the dependency measures the body (Len) and also reads what stands behind it
\* (explored WITHOUT the VIEW: what the dependency does behind a body depends on the bytes it has already read there)
BodyTailChunks ==
  {PlainChunk(<<x>>) : x \in {10, 13, 32, 35, 47, 40, 41, 120}}
  \cup {PlainChunk(KwBytes["GET"]), PlainChunk(<<32,47,97>>)}                          \* GET, " /a"
\* a regex body and what follows it (the regex states are the library's own): every line-break convention
RegexChunks ==
  {PlainChunk(<<x>>) : x \in {10, 13, 32, 35, 47, 97, 92}}
  \cup {PlainChunk(KwBytes["GET"]), PlainChunk(<<47,97,47>>)}                              \* GET, /a/
Chunks == IF Focus = "description" THEN DescChunks ELSE IF Focus = "comments" THEN CommentChunks
          ELSE IF Focus = "bodytail" THEN BodyTailChunks ELSE IF Focus = "regex" THEN RegexChunks ELSE AllChunks
Start == IF Focus = "description" THEN FeedChunk(Init0, PlainChunk(KwBytes["Description"] \o <<10>>))
         ELSE IF Focus = "bodytail" THEN FeedChunk(FeedChunk(Init0, PlainChunk(KwBytes["TYPE"] \o <<32,64,116,10>>)), BodyChunk(<<123,125>>, TRUE, FALSE, 0))   \* TYPE @t / {}
         ELSE IF Focus = "regex" THEN FeedChunk(Init0, PlainChunk(KwBytes["TYPE"] \o <<32,64,116,32>> \o RegexB))      \* TYPE @t regex
         ELSE Init0

Init == st = Start
Feed == /\ CanFeed(st)
        /\ \E ch \in Chunks : Len(st.tape) + Len(ch.b) <= MaxLen /\ st' = FeedChunk(st, ch)
End == CanFeed(st) /\ st' = FeedEnd(st)
Step == CanStep(st) /\ st' = StepS(st)
Next == Feed \/ End \/ Step
Spec == Init /\ [][Next]_vars

\* The future of a run depends on the unread suffix, the byte before the cursor
\* (rewinds), the control state and the absolute position (extents are absolute);
\* the delivered lexemes are history, except the end of the last one (overlap check).
Suffix == SubSeq(st.tape, st.pos + 1, Len(st.tape))
LastB == IF st.pos >= 1 /\ st.pos <= Len(st.tape) THEN st.tape[st.pos] ELSE -2
Last2B == IF st.pos >= 2 /\ st.pos <= Len(st.tape) THEN st.tape[st.pos - 1] ELSE -2
LastLex == IF st.out = <<>> THEN <<-1, "">> ELSE <<st.out[Len(st.out)].e, st.out[Len(st.out)].t>>
View == <<[st EXCEPT !.out = <<>>, !.tape = <<>>, !.bodies = {}], Suffix, LastB, Last2B, LastLex,
          {[b EXCEPT !.s = b.s - st.pos] : b \in {x \in st.bodies : x.s >= st.pos}}, Len(st.tape)>>

NoPanicInv == NoPanic(st)
WellFormedInv == WellFormed(st)
ErrInsideInv == ErrInside(st)
LexOrderInv == LexOrder(st)
ClosedInv == Closed(st)
\* every step consumes input or leaves a rewind that is followed by progress:
\* the number of steps is linear in the tape (no livelock)
StackBounded == Len(st.ret) <= 4 /\ Len(st.open) <= 2

Emit == st'.tape # st.tape => PrintT("E " \o ToJson(Summary(RunEOF(st'))))
=============================================================================
