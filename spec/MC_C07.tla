------------------------------ MODULE MC_C07 ------------------------------
(***************************************************************************)
(* C07 / C14 / C09: all INCLUDE graphs over a small flat project.  File    *)
(* contents are chosen lazily (when a file is opened for the first time),  *)
(* one IncStep per transition -- the specification is structured like the  *)
(* code: one action per token the core processes.                          *)
(*                                                                         *)
(* Invariants (M):                                                         *)
(*   TraceTruthful   every directive's trace is the chain of INCLUDEs      *)
(*                   through which it was reached (by construction of      *)
(*                   trace) and equals the cache's answer unless the       *)
(*                   documented quirk applies  -- see QuirkOnlyWhen        *)
(*   StackBounded    the scanner stack never holds a file twice            *)
(*   OpenedInside    only files of the project directory are handed to the *)
(*                   OS; a refused name never reaches it                   *)
(*   Terminates      the number of steps is bounded                        *)
(* Every terminal state is emitted and replayed on the real build.         *)
(***************************************************************************)
EXTENDS TLC, Json, Sequences, Integers, FiniteSets

CONSTANTS FileIds, MaxRoot, MaxOther,
          Variant      \* "graphs": include graphs;  "contexts": explicit / implicit contexts across the file boundary

Names == [a |-> "a.jst", b |-> "b.jst", c |-> "c.jst", root |-> "root.jst", missing |-> "missing.jst",
          dir |-> "sub", up |-> "..", abs |-> "/a.jst", bs |-> "x\\y.jst", empty |-> ""]

Res(f, name) ==
  CASE name \in {"a.jst", "b.jst", "c.jst", "root.jst"} -> [cls |-> "ok", file |-> name, path |-> name]
    [] name = "missing.jst" -> [cls |-> "notexist", file |-> "", path |-> name]
    [] name = "sub" -> [cls |-> "isdir", file |-> "", path |-> name]
    [] name = ".." -> [cls |-> "dots", file |-> "", path |-> ""]
    [] name = "/a.jst" -> [cls |-> "abs", file |-> "", path |-> ""]
    [] name = "x\\y.jst" -> [cls |-> "backslash", file |-> "", path |-> ""]
    [] OTHER -> [cls |-> "empty", file |-> "", path |-> ""]

I == INSTANCE Inc WITH ResolveName <- Res, Banned <- {}

D(k, p, e) == [t |-> "D", k |-> k, p |-> p, a |-> "", e |-> e, b |-> "", c |-> ""]
Inc1(n) == [t |-> "I", k |-> "INCLUDE", p |-> <<n>>, a |-> "", e |-> FALSE, b |-> "", c |-> ""]
CloseTok == [t |-> "C", k |-> ")", p |-> <<>>, a |-> "", e |-> FALSE, b |-> "", c |-> ""]

GraphMenu == { D("TYPE", <<"@t1", "any">>, FALSE), D("Body", <<"any">>, FALSE), D("URL", <<"pa">>, TRUE), CloseTok,
               Inc1("a.jst"), Inc1("b.jst"), Inc1("root.jst"), Inc1("missing.jst") }
             \cup (IF "c.jst" \in FileIds THEN {Inc1("c.jst")} ELSE {})
\* contexts across files: an explicit context opened by the includer, implicit contexts and methods with their
\* own path inside the included file (the new-root rule must not leave the includer's explicit context)
CtxRootMenu == { D("MACRO", <<"@m1">>, TRUE), D("URL", <<"pa">>, TRUE), D("URL", <<"pa">>, FALSE), CloseTok, Inc1("a.jst"), D("GET", <<"pb">>, FALSE) }
CtxOtherMenu == { D("URL", <<"pa">>, FALSE), D("URL", <<"pai">>, TRUE), D("GET", <<"pb">>, FALSE), D("GET", <<>>, FALSE), D("RESP", <<"any">>, FALSE), CloseTok }
\* aggregators: files that consist of INCLUDE directives only -- two chains of the same depth (root > a > c, root > b > c)
\* with no directive at another depth between them; four files, small menus
AggrMenu == { Inc1("a.jst"), Inc1("b.jst"), Inc1("c.jst"), D("TYPE", <<"@t1", "any">>, FALSE) }
Menu == IF Variant = "graphs" THEN GraphMenu ELSE IF Variant = "aggr" THEN AggrMenu ELSE CtxRootMenu
OtherMenu == IF Variant = "graphs" THEN GraphMenu ELSE IF Variant = "aggr" THEN AggrMenu ELSE CtxOtherMenu
RareMenu == IF Variant # "graphs" THEN {} ELSE
            { Inc1("sub"), Inc1(".."), Inc1("/a.jst"), Inc1("x\\y.jst"), Inc1(""),
              [Inc1("a.jst") EXCEPT !.p = <<"a.jst", "extra">>], [Inc1("a.jst") EXCEPT !.a = "note"],
              [Inc1("a.jst") EXCEPT !.p = <<>>] }

SeqsUpTo(S, n) == UNION {[1..m -> S] : m \in 0..n}

VARIABLES S, content, chosen
vars == <<S, content, chosen>>

Init == /\ S = I!InitInc
        /\ chosen = {"root.jst"}
        /\ \E r \in SeqsUpTo(Menu, MaxRoot) \cup {<<x>> : x \in RareMenu} \cup {<<x, D("TYPE", <<"@t1", "any">>, FALSE)>> : x \in RareMenu} :
              content = [f \in FileIds |-> IF f = "root.jst" THEN r ELSE <<>>]

Choose == /\ S.res = "run" /\ S.cur.f \notin chosen
          /\ \E r \in SeqsUpTo(OtherMenu, MaxOther) : content' = [content EXCEPT ![S.cur.f] = r]
          /\ chosen' = chosen \cup {S.cur.f}
          /\ UNCHANGED S
Step == /\ S.res = "run" /\ S.cur.f \in chosen
        /\ S' = I!IncStep(S, content)
        /\ UNCHANGED <<content, chosen>>
Next == Choose \/ Step
Spec == Init /\ [][Next]_vars

\* ---- properties ----
NoFileTwice == \A i, j \in 1..Len(S.stack) : i # j => S.stack[i].f # S.stack[j].f
StackBounded == Len(S.stack) <= Cardinality(FileIds) /\ NoFileTwice
ProjectPaths == {"a.jst", "b.jst", "c.jst", "root.jst", "missing.jst", "sub"}
OpenedInside == \A j \in 1..Len(S.opened) : S.opened[j] \in ProjectPaths
Terminates == S.steps <= 200
\* the cache quirk can only show when some includer file holds two INCLUDEs that were both followed
QuirkOnlyWhen ==
  \A j \in 1..Len(S.T.nodes) : S.T.nodes[j].qtrace # S.T.nodes[j].trace =>
      \E f \in FileIds : Cardinality({x \in 1..Len(content[f]) : content[f][x].t = "I"}) >= 2
\* a cycle of INCLUDEs is always reported, never followed for ever (StackBounded + Terminates), and
\* a "recursion" error is only raised when the including file really is on the stack
RecursionSound == (S.res = "err" /\ S.err.cls = "recursion") => I!OnStack(S, S.cur.f)

NodeView(n) == [k |-> n.k, file |-> n.file, ftok |-> n.ftok, trace |-> n.trace, qtrace |-> n.qtrace, parent |-> n.parent]
Emit == (S'.res # "run" /\ S.res = "run") =>
          PrintT("E " \o ToJson([content |-> content, res |-> S'.res, err |-> S'.err, opened |-> S'.opened, cyc |-> S'.cyc,
                                 nodes |-> [j \in 1..Len(S'.T.nodes) |-> NodeView(S'.T.nodes[j])],
                                 dup |-> I!DupTypeNode(S'.T)]))
=============================================================================
