------------------------------ MODULE MC_C14 ------------------------------
(***************************************************************************)
(* C14 (names): every INCLUDE parameter over the path alphabet             *)
(* { a . / \ space } up to MaxLen characters.  The specification's         *)
(* acceptance predicate is the *segment* definition of the property: a     *)
(* name is refused -- before the file system is consulted -- iff it is     *)
(* empty, absolute, contains a backslash, or has a segment equal to "." or *)
(* "..".  For an accepted name the path handed to the OS is the including  *)
(* file's directory joined with the cleaned name, hence inside the project.*)
(* File-system layout (the harness creates it): file "a", directory "aa"   *)
(* holding a file "a"; decoys outside the project root.                    *)
(***************************************************************************)
EXTENDS Integers, Sequences, FiniteSets, TLC, Json

CONSTANT MaxLen
Alphabet == {97, 46, 47, 92, 32}

VARIABLE name
Init == name = <<>>
Next == Len(name) < MaxLen /\ \E c \in Alphabet : name' = Append(name, c)
Spec == Init /\ [][Next]_name

\* split at "/"
RECURSIVE SplitFrom(_, _, _)
SplitFrom(s, i, cur) ==
  IF i > Len(s) THEN <<cur>>
  ELSE IF s[i] = 47 THEN <<cur>> \o SplitFrom(s, i + 1, <<>>)
  ELSE SplitFrom(s, i + 1, Append(cur, s[i]))
Segs(s) == SplitFrom(s, 1, <<>>)

Dot == <<46>>
DotDot == <<46, 46>>
Class(s) ==
  IF s = <<>> THEN "empty"
  ELSE IF s[1] = 47 THEN "abs"
  ELSE IF \E j \in 1..Len(Segs(s)) : Segs(s)[j] \in {Dot, DotDot} THEN "dots"
  ELSE IF \E j \in 1..Len(s) : s[j] = 92 THEN "backslash"
  ELSE "accepted"

Clean(s) == SelectSeq(Segs(s), LAMBDA x : x # <<>>)      \* filepath.Join drops empty segments
A == <<97>>
Outcome(s) ==
  LET p == Clean(s) IN
  IF p = <<A>> \/ p = <<<<97, 97>>, A>> THEN "ok"
  ELSE IF p = <<>> \/ p = <<<<97, 97>>>> THEN "isdir"
  ELSE "notexist"

\* M: the property's statement on the predicate itself
RefusedIffBadSegment ==
  (Class(name) # "accepted") =
     (name = <<>> \/ name[1] = 47 \/ (\E j \in 1..Len(name) : name[j] = 92)
      \/ \E j \in 1..Len(Segs(name)) : Segs(name)[j] \in {Dot, DotDot})
\* an accepted name never leaves the project: no segment of the cleaned path is ".." and it is relative
StaysInside == Class(name) = "accepted" =>
     \A j \in 1..Len(Clean(name)) : Clean(name)[j] \notin {Dot, DotDot}

Emit == PrintT("E " \o ToJson([name |-> name', cls |-> Class(name'),
                               outcome |-> IF Class(name') = "accepted" THEN Outcome(name') ELSE "",
                               path |-> IF Class(name') = "accepted" THEN Clean(name') ELSE <<>>]))
=============================================================================
