------------------------------ MODULE MC_C13 ------------------------------
(***************************************************************************)
(* C13: which byte strings does the scanner accept as a directive keyword? *)
(* Exhaustive over the full 256-byte alphabet from the directive-start     *)
(* state: bytes are fed one at a time while the scanner is inside a keyword*)
(* (or just behind one); every edge (prefix . byte) is emitted with the     *)
(* outcome of running the scanner model to end of file on exactly that tape*)
(* and is replayed on the real Next().  The exploration starts at the      *)
(* beginning of a file (Ctx = "root") or at a directive start reached      *)
(* through a prefix that leaves other things on the scanner's stacks       *)
(* (behind a response / request whose body is a child directive, behind a  *)
(* TAG, a method line, a schema body, inside an explicit context).         *)
(***************************************************************************)
EXTENDS Scanner, Json

CONSTANT Ctx
VARIABLE st
vars == <<st>>

CRs == {"closedCR", "methodCR", "respBodyCR", "explicitCR"}      \* the same prefixes with lone-CR line breaks
NL == IF Ctx \in CRs THEN <<13>> ELSE <<10>>
Base == CASE Ctx = "closedCR" -> "closed" [] Ctx = "methodCR" -> "method" [] Ctx = "respBodyCR" -> "respBody" [] Ctx = "explicitCR" -> "explicit" [] OTHER -> Ctx
Sp2 == <<32, 32>>
PrefixChunks ==
  CASE Base = "root"     -> <<>>
    [] Base = "closed"   -> << PlainChunk(KwBytes["URL"] \o <<32,47,97>> \o NL \o <<40>> \o NL \o <<41>> \o NL) >>                       \* URL /a ( )
    [] Base = "respBody" -> << PlainChunk(<<50,48,48>> \o NL \o Sp2 \o KwBytes["Body"] \o <<32>> \o AnyB \o NL) >>            \* 200 / Body any
    [] Base = "reqBody"  -> << PlainChunk(KwBytes["Request"] \o NL \o Sp2 \o KwBytes["Body"] \o <<32>> \o AnyB \o NL) >>        \* Request / Body any
    [] Base = "tag"      -> << PlainChunk(<<50,48,48>> \o NL \o Sp2 \o KwBytes["Body"] \o <<32>> \o AnyB \o NL \o KwBytes["TAG"] \o <<32,64,116>> \o NL) >>   \* 200 / Body any / TAG @t
    [] Base = "method"   -> << PlainChunk(KwBytes["GET"] \o <<32,47,97>> \o NL) >>                                                 \* GET /a
    [] Base = "typeBody" -> << PlainChunk(KwBytes["TYPE"] \o <<32,64,116>> \o NL), BodyChunk(<<123,125>>, TRUE, FALSE, 0), PlainChunk(NL) >>   \* TYPE @t / {}
    [] Base = "typeAnyFirst" -> << PlainChunk(KwBytes["TYPE"] \o <<32>> \o AnyB \o <<32,64,116>> \o NL) >>                  \* TYPE any @t  (notation before the name: no body follows either)
    [] Base = "typeEmptyLast" -> << PlainChunk(KwBytes["TYPE"] \o <<32,64,116,32>> \o EmptyB \o NL) >>                      \* TYPE @t empty
    [] Base = "explicit" -> << PlainChunk(KwBytes["URL"] \o <<32,47,97>> \o NL \o <<40>> \o NL) >>                                 \* URL /a ( 
RECURSIVE FeedAll(_, _, _)
FeedAll(S, cs, i) == IF i > Len(cs) THEN S ELSE FeedAll(FeedChunk(S, cs[i]), cs, i + 1)
Start == FeedAll(Init0, PrefixChunks, 1)
P == Len(Start.tape)

Init == st = Start

InKeyword(S) == S.mode.m \in {"Trie", "R2", "R3"}
JustBehindKeyword(S) == S.mode.m = "PA" /\ S.out # <<>> /\ S.out[Len(S.out)].t = "K"
                        /\ S.out[Len(S.out)].e = S.pos - 1

FeedByte == /\ CanFeed(st)
            /\ (Len(st.tape) = P \/ ((InKeyword(st) \/ JustBehindKeyword(st)) /\ st.pos > P))
            /\ \E c \in 0..255 : st' = FeedChunk(st, PlainChunk(<<c>>))

Step == CanStep(st) /\ st' = StepS(st)

Next == FeedByte \/ Step
Spec == Init /\ [][Next]_vars

\* ----- the language the specification demands (independent of the trie walk) -----
Words == {KwBytes[k] : k \in KwNames}
IsCode(w) == Len(w) = 3 /\ w[1] \in 49..53 /\ w[2] \in 48..57 /\ w[3] \in 48..57
IsWord(w) == w \in Words \/ IsCode(w)
IsWordPrefix(w) == (\E k \in KwNames : IsPrefixOf(w, KwBytes[k]))
                   \/ (Len(w) <= 3 /\ Len(w) >= 1 /\ w[1] \in 49..53 /\ \A i \in 2..Len(w) : w[i] \in 48..57)
Terminators == {32, 9, 10, 13, 35, 47}

\* M: a keyword lexeme is delivered exactly for the words of the language ...
KeywordsExact ==
  \A i \in 1..Len(st.out) : (st.out[i].t = "K" /\ st.out[i].b >= P) => IsWord(Sub(st.tape, st.out[i].b, st.out[i].e))
\* ... an error inside a keyword is at the first byte that leaves every word ...
FirstDeviation ==
  (st.res = "err" /\ st.err.c \in {"kw", "dirbegin"} /\ st.err.i >= P) =>
      /\ st.err.i = Len(st.tape) - 1
      /\ IsWordPrefix(SubSeq(st.tape, P + 1, st.err.i)) \/ st.err.i = P
      /\ ~IsWordPrefix(SubSeq(st.tape, P + 1, Len(st.tape)))
\* ... and a complete word is accepted only in front of a terminator.
NeedsTerminator ==
  (st.res = "err" /\ st.err.c = "afterkw" /\ st.err.i >= P) =>
      /\ IsWord(SubSeq(st.tape, P + 1, st.err.i))
      /\ st.tape[st.err.i + 1] \notin Terminators
NoPanicInv == NoPanic(st)

\* G: one case per edge
\* An error found at the byte just fed is final: whatever follows that byte -- the rest of a multi-byte character, a line
\* break, a well-formed directive -- the scan ends with the same error at the same place.  (The tail below completes a
\* UTF-8 byte order mark behind 0xEF and then goes on with a directive.)
BomTail == <<187, 191, 10>> \o KwBytes["GET"] \o <<32, 47, 97, 10>>
ErrAtLastByte(R, S) == R.res = "err" /\ R.err.i = Len(S.tape) - 1
Extended(S) == RunEOF(FeedChunk(S, PlainChunk(BomTail)))
ErrorIsFinal == [][(st'.tape # st.tape /\ ErrAtLastByte(RunEOF(st'), st')) =>
                     (Extended(st').res = "err" /\ Extended(st').err = RunEOF(st').err)]_vars
Emit == st'.tape # st.tape =>
          /\ PrintT("E " \o ToJson(Summary(RunEOF(st'))))
          /\ (ErrAtLastByte(RunEOF(st'), st') => PrintT("E " \o ToJson(Summary(Extended(st')))))
\* the language tables, for the cross-check with directive/enumeration.go
ASSUME PrintT("L " \o ToJson([kinds |-> KwNames]))
=============================================================================
