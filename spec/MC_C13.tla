------------------------------ MODULE MC_C13 ------------------------------
(***************************************************************************)
(* C13: which byte strings does the scanner accept as a directive keyword? *)
(* Exhaustive over the full 256-byte alphabet from the directive-start     *)
(* state: bytes are fed one at a time while the scanner is inside a keyword*)
(* (or just behind one); every edge (prefix . byte) is emitted with the     *)
(* outcome of running the scanner model to end of file on exactly that tape*)
(* and is replayed on the real Next().                                     *)
(***************************************************************************)
EXTENDS Scanner, Json

VARIABLE st
vars == <<st>>

Init == st = Init0

InKeyword(S) == S.mode.m \in {"Trie", "R2", "R3"}
JustBehindKeyword(S) == S.mode.m = "PA" /\ S.out # <<>> /\ S.out[Len(S.out)].t = "K"
                        /\ S.out[Len(S.out)].e = S.pos - 1

FeedByte == /\ CanFeed(st)
            /\ (st.tape = <<>> \/ InKeyword(st) \/ JustBehindKeyword(st))
            /\ \E c \in 0..255 : st' = FeedChunk(st, PlainChunk(<<c>>))

Step == CanStep(st) /\ st' = StepS(st)

Next == FeedByte \/ Step
Spec == Init /\ [][Next]_vars

\* ----- the language the specification demands (independent of the trie walk) -----
Words == {KwBytes[k] : k \in KwNames}
IsCode(w) == Len(w) = 3 /\ w[1] \in 49..53 /\ w[2] \in 48..57 /\ w[3] \in 48..57
IsWord(w) == w \in Words \/ IsCode(w)
IsWordPrefix(w) == (\E k \in KwNames : IsPrefixOf(w, KwBytes[k]))
                   \/ (Len(w) <= 3 /\ Len(w) >= 1 /\ w[1] \in 49..53 /\ \A i \in 2..Len(w) : w[i] \in 48..57)
Terminators == {32, 9, 10, 13, 35, 47}

\* M: a keyword lexeme is delivered exactly for the words of the language ...
KeywordsExact ==
  \A i \in 1..Len(st.out) : st.out[i].t = "K" => IsWord(Sub(st.tape, st.out[i].b, st.out[i].e))
\* ... an error inside a keyword is at the first byte that leaves every word ...
FirstDeviation ==
  (st.res = "err" /\ st.err.c \in {"kw", "dirbegin"}) =>
      /\ st.err.i = Len(st.tape) - 1
      /\ IsWordPrefix(SubSeq(st.tape, 1, st.err.i)) \/ st.err.i = 0
      /\ ~IsWordPrefix(st.tape)
\* ... and a complete word is accepted only in front of a terminator.
NeedsTerminator ==
  (st.res = "err" /\ st.err.c = "afterkw") =>
      /\ IsWord(SubSeq(st.tape, 1, st.err.i))
      /\ st.tape[st.err.i + 1] \notin Terminators
NoPanicInv == NoPanic(st)

\* G: one case per edge
Emit == st'.tape # st.tape =>
          PrintT("E " \o ToJson(Summary(RunEOF(st'))))
\* the language tables, for the cross-check with directive/enumeration.go
ASSUME PrintT("L " \o ToJson([kinds |-> KwNames]))
=============================================================================
