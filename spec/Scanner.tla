------------------------------ MODULE Scanner ------------------------------
(***************************************************************************)
(* Byte-exact model of scanner.Scanner (scanner/*.go), read from the code  *)
(* state function by state function (DESIGN.md appendix A).  Everything is *)
(* a pure operator over a scanner value S so that the same step serves the *)
(* state machines of C12/C13/C08/C01 and the "run to end of file" fold     *)
(* that produces the expectation replayed on the real Next().              *)
(*                                                                         *)
(* S == [tape   bytes supplied so far (Seq(0..255)); the environment feeds *)
(*              chunks, the code can only be observed on complete files,   *)
(*       eof    no more bytes will come,                                   *)
(*       bodies schema/enum bodies the environment placed on the tape      *)
(*              (start, length, accepted by jschema / by enum, error index)*)
(*              -- their extent is decided by jsight-schema-core Len(),    *)
(*              which the model treats as an oracle,                       *)
(*       mode   the current step function (name + argument),               *)
(*       ret    stepStack, open  eventStack of pending Begin events,       *)
(*       out    lexemes delivered so far [t, b, e],                        *)
(*       par    summary of lastDirectiveParameters,                        *)
(*       pos    curIndex, res "run"|"eof"|"err"|"oracle"|"PANIC", err]     *)
(*                                                                         *)
(* Keyword states are derived from Lang!KwBytes (a trie), not spelled out  *)
(* letter by letter as the code does: C13 checks that both spell the same  *)
(* language.                                                               *)
(***************************************************************************)
EXTENDS Lang, TLC

EOFC == -1
WSs == {32, 9}
NLs == {10, 13}
Digits == 48..57
FirstLetters == {KwBytes[k][1] : k \in KwNames}
NameByte(c) == c = 45 \/ c = 95 \/ c \in 97..122 \/ c \in 65..90 \/ c \in Digits

M(n) == [m |-> n, a |-> <<>>]
MA(n, a) == [m |-> n, a |-> a]


IsPrefixOf(s, t) == Len(s) <= Len(t) /\ SubSeq(t, 1, Len(s)) = s
Sub(t, b, e) == SubSeq(t, b + 1, e + 1)      \* 0-based inclusive extent

Unq(s) == IF Len(s) >= 2 /\ s[1] = 34 /\ s[Len(s)] = 34 THEN SubSeq(s, 2, Len(s) - 1) ELSE s
TrimSq(s) == IF Len(s) >= 2 /\ s[1] = 91 /\ s[Len(s)] = 93 THEN SubSeq(s, 2, Len(s) - 1) ELSE s
IsTypeName(s) == Len(s) >= 2 /\ s[1] = 64 /\ \A i \in 2..Len(s) : NameByte(s[i])
AnyB == <<97,110,121>>
EmptyB == <<101,109,112,116,121>>
RegexB == <<114,101,103,101,120>>
NoPar == [tae |-> FALSE, ae |-> FALSE, rx |-> FALSE]
UpdPar(par, raw) ==
  LET u == Unq(raw)  v == TrimSq(u) IN
  [tae |-> par.tae \/ v = AnyB \/ v = EmptyB \/ IsTypeName(v),
   ae  |-> par.ae \/ v = AnyB \/ v = EmptyB,
   rx  |-> par.rx \/ u = RegexB]

Err(S, i, c) == [S EXCEPT !.res = "err", !.err = [i |-> i, c |-> c]]
Panic(S, w) == [S EXCEPT !.res = "PANIC", !.err = [i |-> S.pos, c |-> w]]
SetM(S, m) == [S EXCEPT !.mode = m]
Push(S, m) == [S EXCEPT !.ret = Append(@, m)]
BeginEv(S, t, p) == [S EXCEPT !.open = Append(@, [t |-> t, p |-> p])]
Single(S, t, p) == [S EXCEPT !.out = Append(@, [t |-> t, b |-> p, e |-> p])]
EndEv(S, t, p) ==
  IF S.open = <<>> THEN Panic(S, "event stack empty")
  ELSE LET top == S.open[Len(S.open)] IN
    IF top.t # t THEN Err(S, S.pos, "mismatch")
    ELSE LET S1 == [S EXCEPT !.open = SubSeq(@, 1, Len(@) - 1),
                              !.out = Append(@, [t |-> t, b |-> top.p, e |-> p])] IN
         IF t = "P" THEN [S1 EXCEPT !.par = UpdPar(@, Sub(S.tape, top.p, p))]
         ELSE IF t = "K" THEN [S1 EXCEPT !.par = NoPar]
         ELSE S1

BodyStateOf(k) ==
  CASE k = "Body" -> MA("BOK", <<1>>)
    [] k = "Request" -> MA("BOK", <<2>>)
    [] k = "TYPE" -> M("TBOK")
    [] k \in {"Path", "Headers"} -> M("PHB")
    [] k \in {"Query", "Params", "Result"} -> M("QB")
    [] k = "ENUM" -> M("EB")
    [] k = "Description" -> M("DS")
    [] OTHER -> M("EK")

RestOfLine(S, p) ==
  LET n == Len(S.tape)
      idx == {i \in (p + 1)..n : S.tape[i] \in NLs}
      stop == IF idx = {} THEN n ELSE (CHOOSE i \in idx : \A j \in idx : i <= j) - 1
  IN SubSeq(S.tape, p + 1, stop)
IsCode3(b) == b[1] \in 49..53 /\ b[2] \in Digits /\ b[3] \in Digits
IsDir(S, p) ==
  LET b == RestOfLine(S, p) IN
  /\ Len(b) >= 3
  /\ \/ IsCode3(b)
     \/ \E k \in KwNames : IsPrefixOf(KwBytes[k], b)
Decidable(S, p) == S.eof \/ (\E i \in (p + 1)..Len(S.tape) : S.tape[i] \in NLs) \/ Len(S.tape) - p >= 11

RECURSIVE F(_, _)
PopRefeed(S, c) ==
  IF S.ret = <<>> THEN Panic(S, "step stack empty")
  ELSE F([S EXCEPT !.mode = S.ret[Len(S.ret)], !.ret = SubSeq(@, 1, Len(@) - 1)], c)
PopOnly(S) ==
  IF S.ret = <<>> THEN Panic(S, "step stack empty")
  ELSE [S EXCEPT !.mode = S.ret[Len(S.ret)], !.ret = SubSeq(@, 1, Len(@) - 1)]
StartComment(S) == SetM(Push(S, S.mode), M("C1"))
BodyAt(S, p) == {b \in S.bodies : b.s = p}
\* the dependency's Len() only succeeds when the value is followed by blank, line end or end of input
FollowOK(S, q) == IF q < Len(S.tape) THEN S.tape[q + 1] \in (WSs \cup NLs) ELSE TRUE
\* (the look-ahead of Len() reaches the first non-blank byte behind the body and, if that is a '#', the end of that line)
BodyTailDecided(S, q) == LET idx == {i \in (q + 1)..Len(S.tape) : S.tape[i] \notin {32, 9, 10, 13}}
                             r == IF idx = {} THEN 0 ELSE CHOOSE i \in idx : \A j \in idx : i <= j
                         IN r # 0 /\ (S.tape[r] # 35 \/ \E i \in r..Len(S.tape) : S.tape[i] \in {10, 13})
BodyLookNeeded(S) == \E b \in S.bodies : b.s >= S.pos /\ ~S.eof /\ (b.s + b.l >= Len(S.tape) \/ ~BodyTailDecided(S, b.s + b.l))
\* The dependency's Len() does not stop at the end of the value: it goes on over blanks and line
\* breaks and tries to read what follows as a comment or an annotation.  When the next non-blank
\* byte after the body is "/", or a "#" comment that runs to the end of the input, the outcome is
\* the dependency's (annotation syntax, unterminated comment): the model asks the oracle.
NextNonBlank(S, q) == LET idx == {i \in (q + 1)..Len(S.tape) : S.tape[i] \notin (WSs \cup NLs)} IN
                      IF idx = {} THEN 0 ELSE CHOOSE i \in idx : \A j \in idx : i <= j
OracleAhead(S, q) == LET r == NextNonBlank(S, q) IN
                     r # 0 /\ (S.tape[r] = 47 \/ (S.tape[r] = 35 /\ ~\E i \in r..Len(S.tape) : S.tape[i] \in NLs))
DoSchema(S, p) ==
  LET S1 == BeginEv(S, "S", p) IN
  IF BodyAt(S, p) = {} THEN [S1 EXCEPT !.res = "oracle"]
  ELSE LET b == CHOOSE x \in BodyAt(S, p) : TRUE IN
       IF ~FollowOK(S, p + b.l) \/ OracleAhead(S, p + b.l) THEN [S1 EXCEPT !.res = "oracle"]
       ELSE IF b.okS THEN [SetM(S1, M("SCL")) EXCEPT !.pos = p + b.l - 1]
       ELSE Err(S1, p + b.ei, "schema")
DoEnum(S, p) ==
  LET S1 == BeginEv(S, "E", p) IN
  IF BodyAt(S, p) = {} THEN [S1 EXCEPT !.res = "oracle"]
  ELSE LET b == CHOOSE x \in BodyAt(S, p) : TRUE IN
       IF ~FollowOK(S, p + b.l) \/ OracleAhead(S, p + b.l) THEN [S1 EXCEPT !.res = "oracle"]
       ELSE IF b.okE THEN [SetM(S1, M("EC")) EXCEPT !.pos = p + b.l - 1]
       ELSE Err(S1, p + b.ei, "enum")

F(S, c) ==
  LET m == S.mode.m
      p == S.pos
      isNL == c \in NLs
      isWS == c \in WSs
      isEOF == c = EOFC
  IN
  CASE m = "EK" ->
         IF isNL \/ isWS \/ isEOF THEN S
         ELSE IF c = 35 THEN StartComment(S)
         ELSE IF c = 40 THEN SetM(Single(S, "CO", p), M("CO"))
         ELSE IF c = 41 THEN SetM(Single(S, "CC", p), M("CC"))
         ELSE IF c \in FirstLetters THEN SetM(BeginEv(S, "K", p), MA("Trie", <<c>>))
         ELSE IF c \in 49..53 THEN SetM(BeginEv(S, "K", p), M("R2"))
         ELSE Err(S, p, "dirbegin")
    [] m = "Trie" ->
         LET np == Append(S.mode.a, c) IN
         IF isEOF THEN Err(S, p, "kw")
         ELSE IF \E k \in KwNames : KwBytes[k] = np
              THEN LET k == CHOOSE k \in KwNames : KwBytes[k] = np IN
                   SetM(Push(EndEv(S, "K", p), BodyStateOf(k)), M("PA"))
         ELSE IF \E k \in KwNames : IsPrefixOf(np, KwBytes[k]) THEN SetM(S, MA("Trie", np))
         ELSE Err(S, p, "kw")
    [] m = "R2" -> IF c \in Digits THEN SetM(S, M("R3")) ELSE Err(S, p, "kw")
    [] m = "R3" -> IF c \in Digits THEN SetM(Push(EndEv(S, "K", p), MA("BOK", <<2>>)), M("PA")) ELSE Err(S, p, "kw")
    [] m = "PA" ->
         IF isWS THEN SetM(S, M("PA1"))
         ELSE IF c = 35 THEN StartComment(S)
         ELSE IF isNL \/ isEOF THEN PopOnly(S)
         ELSE IF c = 47 THEN SetM(S, M("AS2"))
         ELSE Err(S, p, "afterkw")
    [] m = "PA1" ->
         IF isWS THEN S
         ELSE IF c = 35 THEN StartComment(S)
         ELSE IF isNL \/ isEOF THEN PopOnly(S)
         ELSE IF c = 47 THEN SetM(S, M("AS2"))
         ELSE F(SetM(S, M("PS")), c)
    [] m = "PS" ->
         LET S1 == BeginEv(S, "P", p) IN
         IF c = 34 THEN SetM(S1, M("PQ"))
         ELSE IF isNL THEN Err(S1, p, "param")
         ELSE SetM(S1, M("PB"))
    [] m = "PQ" ->
         IF isNL \/ isEOF THEN Err(S, p, "param")
         ELSE IF c = 92 THEN SetM(S, M("PQE"))
         ELSE IF c = 34 THEN SetM(EndEv(S, "P", p), M("PA"))
         ELSE S
    [] m = "PQE" -> IF c = 92 \/ c = 34 THEN SetM(S, M("PQ")) ELSE Err(S, p, "escape")
    [] m = "PB" ->
         IF isWS \/ isNL \/ c = 35 \/ isEOF THEN F(SetM(EndEv(S, "P", p - 1), M("PA")), c)
         ELSE S
    [] m = "AS2" ->
         IF c = 47 THEN SetM(S, M("ANS"))
         ELSE IF c = 42 THEN SetM(S, M("MANS"))
         ELSE [SetM(S, M("PS")) EXCEPT !.pos = p - 2]
    [] m = "ANS" -> F(SetM(BeginEv(S, "A", p), M("AN")), c)
    [] m = "AN" ->
         IF c = 35 THEN SetM(EndEv(S, "A", p - 1), M("SC"))
         ELSE IF isNL \/ isEOF THEN PopRefeed(EndEv(S, "A", p - 1), c)
         ELSE S
    [] m = "MANS" -> F(SetM(BeginEv(S, "A", p), M("MAN")), c)
    [] m = "MAN" ->
         IF c = 47 /\ p >= 1 /\ S.tape[p] = 42 /\ S.open # <<>> /\ p - 1 >= S.open[Len(S.open)].p THEN PopOnly(EndEv(S, "A", p - 2))
         ELSE IF isEOF THEN Err(S, p, "mann")
         ELSE S
    [] m = "C1" -> IF c = 35 THEN SetM(S, M("C2")) ELSE F(SetM(S, M("SC")), c)
    [] m = "C2" -> IF c = 35 THEN SetM(S, M("CB")) ELSE F(SetM(S, M("SC")), c)
    [] m = "SC" -> IF isNL \/ isEOF THEN PopRefeed(S, c) ELSE S
    [] m = "CB" -> IF isEOF THEN Err(S, p, "cblock") ELSE IF c = 35 THEN SetM(S, M("CB1")) ELSE S
    [] m = "CB1" -> IF c = 35 THEN SetM(S, M("CB2")) ELSE F(SetM(S, M("CB")), c)
    [] m = "CB2" -> IF c = 35 THEN PopOnly(S) ELSE F(SetM(S, M("CB")), c)
    [] m = "BOK" ->
         IF ~S.par.tae
         THEN F(SetM(Push(S, IF S.par.rx THEN M("RX") ELSE M("JS")), MA("KB", S.mode.a)), c)
         ELSE F(SetM(S, M("EK")), c)
    [] m = "TBOK" ->
         IF ~S.par.ae
         THEN F(SetM(Push(S, IF S.par.rx THEN M("RX") ELSE M("JS")), MA("KB", <<1>>)), c)
         ELSE F(SetM(S, M("EK")), c)
    [] m = "KB" ->
         IF isWS \/ isNL THEN S
         ELSE IF c = 40 THEN Single(S, "CO", p)
         ELSE IF c = 35 THEN StartComment(S)            \* a comment between the directive and its body (every body-carrying directive)
         ELSE IF S.mode.a = <<2>> /\ c \in {66, 72, 80, 73} THEN F(SetM(S, M("EK")), c)
         ELSE PopRefeed(S, c)
    [] m = "PHB" ->
         IF c = 40 THEN Single(S, "CO", p)
         ELSE IF isWS \/ isNL THEN S
         ELSE IF c = 35 THEN StartComment(S)
         ELSE IF c = 123 \/ c = 64 THEN F(SetM(S, M("JS")), c)
         ELSE Err(S, p, "phbody")
    [] m = "QB" ->
         IF c = 40 THEN Single(S, "CO", p)
         ELSE IF isWS \/ isNL THEN S
         ELSE IF c = 35 THEN StartComment(S)
         ELSE F(SetM(S, M("JS")), c)
    [] m = "EB" ->
         IF c = 40 THEN Single(S, "CO", p)
         ELSE IF isWS \/ isNL THEN S
         ELSE IF c = 35 THEN StartComment(S)
         ELSE IF c = 91 THEN DoEnum(S, p)
         ELSE Err(S, p, "enumbody")
    [] m = "JS" -> DoSchema(S, p)
    [] m = "SCL" ->
         IF isWS THEN SetM(EndEv(S, "S", p - 1), M("BE"))
         ELSE IF isNL \/ isEOF THEN SetM(EndEv(S, "S", p - 1), M("EK"))
         ELSE Err(S, p, "afterschema")
    [] m = "EC" ->
         IF isWS THEN SetM(EndEv(S, "E", p - 1), M("BE"))
         ELSE IF isNL \/ isEOF THEN SetM(EndEv(S, "E", p - 1), M("EK"))
         ELSE Err(S, p, "afterenum")
    [] m = "BE" ->
         IF isWS THEN S
         ELSE IF isNL \/ isEOF THEN SetM(S, M("EK"))
         ELSE IF c = 35 THEN StartComment(S)
         ELSE Err(S, p, "afterbody")
    [] m = "RX" -> IF c # 47 THEN Err(S, p, "regex") ELSE SetM(BeginEv(S, "T", p), M("RX1"))
    [] m = "RX1" -> IF c = 47 THEN Err(S, p, "emptyregex") ELSE F(SetM(S, M("RXB")), c)
    [] m = "RXB" ->
         IF c = 47 THEN SetM(EndEv(S, "T", p), M("BE"))
         ELSE IF isEOF THEN Err(S, p, "regexeof")
         ELSE IF c = 92 THEN SetM(S, M("RXE"))
         ELSE S
    [] m = "RXE" -> IF isEOF THEN Err(S, p, "regexeof") ELSE SetM(S, M("RXB"))
    [] m = "DS" -> IF isNL THEN S      \* the text does not begin with a line break (the LF of a CRLF keyword line)
                   ELSE F(SetM(BeginEv(S, "T", p), M("DB")), c)
    [] m = "DB" ->
         IF isNL \/ isWS THEN S
         ELSE IF isEOF THEN EndEv(S, "T", p - 1)
         ELSE IF c = 40 THEN SetM(S, M("DBR"))
         ELSE F(SetM(S, M("DN")), c)
    [] m = "DBR" -> IF isEOF THEN Err(S, p, "desceof") ELSE IF isNL THEN SetM(S, M("DBRN")) ELSE S      \* "(" is never closed
    [] m = "DBRN" ->
         IF isWS \/ isNL THEN S
         ELSE IF c = 41 THEN SetM(EndEv(S, "T", p), M("EK"))
         ELSE IF isEOF THEN Err(S, p, "desceof")
         ELSE SetM(S, M("DBR"))
    [] m = "DT" ->
         IF isNL THEN SetM(S, M("DN"))
         ELSE IF isEOF THEN EndEv(S, "T", p - 1)
         ELSE S
    [] m = "DN" ->
         IF isWS \/ isNL THEN S
         ELSE IF isEOF THEN EndEv(S, "T", p - 1)
         ELSE IF IsDir(S, p) THEN [SetM(EndEv(S, "T", p - 1), M("EK")) EXCEPT !.pos = p - 1]
         ELSE IF c = 41 THEN SetM(Single(EndEv(S, "T", p - 1), "CC", p), M("EK"))
         ELSE SetM(S, M("DT"))
    [] m = "CC" ->
         IF isWS \/ isEOF THEN S
         ELSE IF isNL THEN SetM(S, M("EK"))
         ELSE IF c = 35 THEN StartComment(S)
         ELSE Err(S, p, "afterclose")
    [] m = "CO" ->
         IF isWS THEN S
         ELSE IF isNL THEN SetM(S, M("EK"))
         ELSE IF c = 35 THEN StartComment(S)
         ELSE Err(S, p, "apart")

\* one scanner step on the byte at pos (or EOF); advances the cursor
CurByte(S) == IF S.pos < Len(S.tape) THEN S.tape[S.pos + 1] ELSE EOFC
StepS(S) ==
  LET c == CurByte(S) IN
  IF c = 0 THEN Err(S, S.pos, "nul")
  ELSE LET S1 == F(S, c) IN
       IF S1.res = "err" THEN [S1 EXCEPT !.out = S.out]   \* an error pre-empts lexemes found in the same step
       ELSE IF S1.res # "run" THEN S1
       ELSE LET S2 == [S1 EXCEPT !.pos = @ + 1] IN
            IF S2.pos > Len(S.tape) THEN [S2 EXCEPT !.res = "eof"] ELSE S2

Init0 == [tape |-> <<>>, eof |-> FALSE, bodies |-> {}, mode |-> M("EK"), ret |-> <<>>, open |-> <<>>, out |-> <<>>, par |-> NoPar,
          pos |-> 0, res |-> "run", err |-> [i |-> 0, c |-> ""]]


\* ---------------------------------------------------------------------------
\* Environment: feeding bytes, running to the end of the file.
\* ---------------------------------------------------------------------------
PlainChunk(bs) == [b |-> bs, body |-> FALSE, okS |-> FALSE, okE |-> FALSE, ei |-> 0]
BodyChunk(bs, okS, okE, ei) == [b |-> bs, body |-> TRUE, okS |-> okS, okE |-> okE, ei |-> ei]

FeedChunk(S, ch) ==
  [S EXCEPT !.tape = @ \o ch.b,
            !.bodies = IF ch.body
                       THEN @ \cup {[s |-> Len(S.tape), l |-> Len(ch.b), okS |-> ch.okS, okE |-> ch.okE, ei |-> ch.ei]}
                       ELSE @]
FeedEnd(S) == [S EXCEPT !.eof = TRUE]

Starved(S) == S.pos >= Len(S.tape)
\* The code looks ahead (rest of the line inside a Description, whole body for
\* Len()): the environment must have supplied that much before a step is taken.
NeedLook(S) == (S.mode.m \in {"DN", "DB", "DS"} /\ S.pos < Len(S.tape) /\ ~Decidable(S, S.pos)) \/ BodyLookNeeded(S)
CanFeed(S) == S.res = "run" /\ ~S.eof /\ (Starved(S) \/ NeedLook(S))
CanStep(S) == S.res = "run" /\ (S.pos < Len(S.tape) \/ (S.eof /\ S.pos = Len(S.tape))) /\ ~NeedLook(S)

\* Run the scanner to its end on the tape as it is (what the real Next() loop does).
RECURSIVE RunEOF(_)
RunEOF(S) == LET S0 == [S EXCEPT !.eof = TRUE] IN
             IF S0.res # "run" THEN S0 ELSE RunEOF(StepS(S0))

Summary(S) == [tape |-> S.tape, res |-> S.res, ei |-> S.err.i, ec |-> S.err.c, out |-> S.out]

\* ---------------------------------------------------------------------------
\* Properties of the lexeme stream (C12, C01)
\* ---------------------------------------------------------------------------
NoPanic(S) == S.res # "PANIC"

\* lexemes lie inside the file, are not inverted, appear in text order and do not overlap
WellFormed(S) ==
  \A i \in 1..Len(S.out) :
     LET x == S.out[i] IN
     /\ x.b >= 0 /\ x.e < Len(S.tape) /\ x.b <= x.e + 1
     /\ (i > 1 => S.out[i - 1].e < x.b)

\* an error lies inside the file (index = length is the position of end of file)
ErrInside(S) == S.res = "err" => S.err.i >= 0 /\ S.err.i <= Len(S.tape)

\* "well-bracketed": a scan which reaches the end of the file without an error has closed every lexeme it has begun
\* (stated on the model, not copied from the code: the code has no such check at the end of the file)
Closed(S) == S.res = "eof" => S.open = <<>>

\* per directive: keyword, parameters, optional annotation, optional "(", optional body
LexOrder(S) ==
  \A i \in 2..Len(S.out) :
     LET a == S.out[i - 1].t  b == S.out[i].t IN
     /\ (b = "P" => a \in {"K", "P"})
     /\ (b = "A" => a \in {"K", "P"})
     /\ (b \in {"S", "E", "T"} => a \in {"K", "P", "A", "CO"})
     /\ (b = "CO" => a \in {"K", "P", "A", "S", "E", "T", "CC", "CO"})

=============================================================================
