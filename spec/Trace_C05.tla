----------------------------- MODULE Trace_C05 -----------------------------
(***************************************************************************)
(* V direction for C05 (and the catalog part of C02): catalogs the real    *)
(* code produced -- for the repository's corpus, mutated corpus files and  *)
(* generated documents far beyond TLC's bounds -- are logged in skeleton   *)
(* form (harness: vh corpus ... ) and judged here by the specification's   *)
(* cross-reference invariants.  One log line per accepted project.         *)
(***************************************************************************)
EXTENDS TLC, TLCExt, Json, Sequences, Integers, FiniteSets

Log == ndJsonDeserialize("trace_c05.ndjson")

VARIABLE l
Init == l = 1
Sk == Log[l].skel

\* an empty JSON array is deserialised as a value with an empty domain (not necessarily the tuple <<>>)
IsEmpty(o) == DOMAIN o = {}
\* (bound names are kept unique across operators: TLC evaluates LET definitions lazily)
Range(s) == {s[rr] : rr \in DOMAIN s}
TagIdx(S, name) == {ti \in 1..Len(S.tags) : S.tags[ti].name = name}
InterIdx(S, id) == {ii \in 1..Len(S.inters) : S.inters[ii].id = id}
TypeNames(S) == {S.types[tn].name : tn \in 1..Len(S.types)}
EnumNames(S) == {S.enums[en].name : en \in 1..Len(S.enums)}
Count(s, cx) == Cardinality({cc \in DOMAIN s : s[cc] = cx})
SchOK(S, sc) == Range(sc.uses) \subseteq TypeNames(S) /\ Range(sc.uenums) \subseteq EnumNames(S)
OptOK(S, o) == IsEmpty(o) \/ SchOK(S, o[1])

InterOK(S, x) ==
  /\ \A t \in 1..Len(x.tags) :
       /\ TagIdx(S, x.tags[t]) # {}
       /\ \A g \in TagIdx(S, x.tags[t]) :
            Count(IF x.proto = "http" THEN S.tags[g].http ELSE S.tags[g].rpc, x.id) = 1
  /\ x.proto = "http" => Range(x.pathVars) = Range(x.pp) /\ Cardinality(DOMAIN x.pathVars) = Cardinality(DOMAIN x.pp)
  /\ \A r \in 1..Len(x.responses) :
       /\ ~IsEmpty(x.responses[r].body)
       /\ SchOK(S, x.responses[r].body[1].schema) /\ OptOK(S, x.responses[r].headers)
  /\ (~IsEmpty(x.query) => SchOK(S, x.query[1].schema))
  /\ (~IsEmpty(x.request) => /\ OptOK(S, x.request[1].headers)
                            /\ (~IsEmpty(x.request[1].body) => SchOK(S, x.request[1].body[1].schema)))
  /\ OptOK(S, x.params) /\ OptOK(S, x.result)

SkelOK(S) ==
  /\ S.jsight = "0.3"
  /\ \A i, j \in 1..Len(S.inters) : i # j => S.inters[i].id # S.inters[j].id
  /\ \A i, j \in 1..Len(S.tags) : i # j => S.tags[i].name # S.tags[j].name
  /\ \A i \in 1..Len(S.inters) : InterOK(S, S.inters[i])
  /\ \A g \in 1..Len(S.tags) :
       /\ \A y \in 1..Len(S.tags[g].http) :
            \E i \in InterIdx(S, S.tags[g].http[y]) : S.inters[i].proto = "http" /\ Count(S.inters[i].tags, S.tags[g].name) >= 1
       /\ \A y \in 1..Len(S.tags[g].rpc) :
            \E i \in InterIdx(S, S.tags[g].rpc[y]) : S.inters[i].proto = "json-rpc-2.0" /\ Count(S.inters[i].tags, S.tags[g].name) >= 1
  /\ \A i \in 1..Len(S.types) : SchOK(S, S.types[i].schema)

\* The judgement is an invariant (TLC evaluates invariants as plain predicates; inside an action it
\* would split the disjunctions of OptOK into separate branches and evaluate both sides).
Next == l <= Len(Log) /\ l' = l + 1
RecordOK == l <= Len(Log) => SkelOK(Sk)
Spec == Init /\ [][Next]_l
TraceAccepted == TLCGet("stats").diameter = Len(Log) + 1
=============================================================================
