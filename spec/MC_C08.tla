------------------------------ MODULE MC_C08 ------------------------------
(***************************************************************************)
(* C08 (byte level): Renderer || Scanner.  A document is two directive     *)
(* lines drawn from a menu of line templates (keyword, parameters,         *)
(* annotation, body); the Renderer chooses, per line, everything the       *)
(* language calls insignificant: indentation, the blanks between the       *)
(* parts, trailing blanks or a trailing '#' comment, the line ending       *)
(* (LF / CRLF / CR), a blank line / '#' comment / '###' block before the   *)
(* line, '//' versus '/* */', quoting of bare parameters.  Invariant: the  *)
(* scanner model delivers the same tokens (type and text, positions        *)
(* dropped, quotes and annotation padding removed) as for the canonical    *)
(* layout.  Every rendering is emitted and replayed on the real Next().    *)
(***************************************************************************)
EXTENDS Scanner, Json

CONSTANTS Product,     \* TRUE: vary both lines at once; FALSE: one line varies, the other is canonical
          Small        \* TRUE: a reduced menu of indentations / separators (quick tier)

B(s) == s
SP == <<32>>
Str(k) == KwBytes[k]
\* line templates: kw, params (bare byte strings), annotation text, body chunk (or <<>>), follows: keyword modes only
Lines ==
  << [kw |-> Str("GET"), ps |-> << <<47,97>> >>, ann |-> <<103,101,116>>, body |-> <<>>, okE |-> FALSE],          \* GET /a // get
     [kw |-> Str("URL"), ps |-> << <<47,117>> >>, ann |-> <<>>, body |-> <<>>, okE |-> FALSE],                     \* URL /u
     [kw |-> Str("TYPE"), ps |-> << <<64,116>> >>, ann |-> <<116>>, body |-> <<123,125>>, okE |-> FALSE],          \* TYPE @t // t  + {}
     [kw |-> <<50,48,48>>, ps |-> << AnyB >>, ann |-> <<111,107>>, body |-> <<>>, okE |-> FALSE],                   \* 200 any // ok
     [kw |-> Str("Path"), ps |-> <<>>, ann |-> <<>>, body |-> <<123,125>>, okE |-> FALSE],                          \* Path + {}
     [kw |-> Str("ENUM"), ps |-> << <<64,101>> >>, ann |-> <<>>, body |-> <<91,49,93>>, okE |-> TRUE],              \* ENUM @e + [1]
     [kw |-> Str("Tags"), ps |-> << <<64,97>>, <<64,98>> >>, ann |-> <<>>, body |-> <<>>, okE |-> FALSE],           \* Tags @a @b
     [kw |-> Str("SERVER"), ps |-> << <<64,115>> >>, ann |-> <<115,32,118>>, body |-> <<>>, okE |-> FALSE],        \* SERVER @s // s v
     [kw |-> <<50,48,49>>, ps |-> << <<91,64,116,93>> >>, ann |-> <<>>, body |-> <<>>, okE |-> FALSE],              \* 201 [@t]
     [kw |-> Str("Body"), ps |-> << <<91,64,116,93>> >>, ann |-> <<98>>, body |-> <<>>, okE |-> FALSE],             \* Body [@t] // b
     [kw |-> Str("Request"), ps |-> << <<64,116>> >>, ann |-> <<>>, body |-> <<>>, okE |-> FALSE] >>                 \* Request @t

Indents == IF Small THEN {<<>>, <<32,32>>} ELSE {<<>>, <<32,32>>, <<9>>}
Seps == IF Small THEN {<<32>>} ELSE {<<32>>, <<32,9>>}
Trails == {<<>>, <<32>>, <<32,35,99>>}                 \* nothing | blank | " #c"
Eols == {<<10>>, <<13,10>>, <<13>>}
Pres == {"none", "blank", "hash", "block"}
Layouts == [ind : Indents, sep : Seps, trail : Trails, eol : Eols, pre : Pres, ml : BOOLEAN, quote : BOOLEAN]
Canon == [ind |-> <<>>, sep |-> <<32>>, trail |-> <<>>, eol |-> <<10>>, pre |-> "none", ml |-> FALSE, quote |-> FALSE]

Quote(p) == <<34>> \o p \o <<34>>
RECURSIVE JoinPs(_, _, _, _)
JoinPs(ps, i, sep, q) == IF i > Len(ps) THEN <<>> ELSE sep \o (IF q THEN Quote(ps[i]) ELSE ps[i]) \o JoinPs(ps, i + 1, sep, q)

PreBytes(l) == CASE l.pre = "blank" -> l.eol
                 [] l.pre = "hash" -> <<35,32,99>> \o l.eol
                 [] l.pre = "block" -> <<35,35,35>> \o l.eol \o <<120>> \o l.eol \o <<35,35,35>> \o l.eol
                 [] OTHER -> <<>>
Header(t, l) ==
  l.ind \o t.kw \o JoinPs(t.ps, 1, l.sep, l.quote)
  \o (IF t.ann = <<>> THEN <<>> ELSE l.sep \o (IF l.ml THEN <<47,42,32>> \o t.ann \o <<32,42,47>> ELSE <<47,47,32>> \o t.ann))
  \o (IF t.ann # <<>> /\ l.trail = <<32,35,99>> THEN <<32>> ELSE l.trail)     \* a trailing '#' comment only on lines without annotation
                                                                             \* (the language lists comments BETWEEN directives)
\* one line as a sequence of chunks
LineChunks(t, l) ==
  <<PlainChunk(PreBytes(l) \o Header(t, l) \o l.eol)>>
  \o (IF t.body = <<>> THEN <<>> ELSE <<PlainChunk(l.ind), BodyChunk(t.body, TRUE, t.okE, 0), PlainChunk(l.eol)>>)

RECURSIVE FeedAll(_, _, _)
FeedAll(S, cs, i) == IF i > Len(cs) THEN S ELSE FeedAll(FeedChunk(S, cs[i]), cs, i + 1)
Scan(cs) == RunEOF(FeedAll(Init0, cs, 1))

\* tokens: type + text, positions dropped; parameters unquoted; annotation padding removed
Trim(s) == LET idx == {i \in 1..Len(s) : s[i] \notin {32, 9}} IN
           IF idx = {} THEN <<>> ELSE SubSeq(s, CHOOSE i \in idx : \A j \in idx : i <= j, CHOOSE i \in idx : \A j \in idx : i >= j)
Tokens(S) == [i \in 1..Len(S.out) |->
                LET x == S.out[i]  raw == Sub(S.tape, x.b, x.e) IN
                [t |-> x.t, v |-> IF x.t = "P" THEN Unq(raw) ELSE IF x.t = "A" THEN Trim(raw) ELSE raw]]

VARIABLES i1, i2, l1, l2, stage
vars == <<i1, i2, l1, l2, stage>>
Init == /\ i1 \in 1..Len(Lines) /\ i2 \in 1..Len(Lines)
        /\ l1 = Canon /\ l2 = Canon /\ stage = 0
\* the Renderer's choice is one transition (so that TLC's workers share the renderings)
Choose == /\ stage = 0 /\ stage' = 1
          /\ l1' \in Layouts /\ l2' \in Layouts
          /\ (Product \/ l1' = Canon \/ l2' = Canon)
          /\ UNCHANGED <<i1, i2>>
Next == Choose
Spec == Init /\ [][Next]_vars

Doc(a, b) == LineChunks(Lines[i1], a) \o LineChunks(Lines[i2], b)
R == Scan(Doc(l1, l2))
R0 == Scan(Doc(Canon, Canon))
LayoutInsignificant == R.res = R0.res /\ Tokens(R) = Tokens(R0)
CanonicalScans == R0.res = "eof"

EmitInv == stage = 1 => PrintT("E " \o ToJson(Summary(R)))
=============================================================================
