-------------------------------- MODULE Inc --------------------------------
(***************************************************************************)
(* Multi-file projects: core/scan_project.go + core/include.go +           *)
(* scanner/stack.go as a pure runner over a project value.                 *)
(*                                                                         *)
(* A project is  content : file id -> sequence of tokens.  Tokens are those*)
(* of Tree.tla plus  [t |-> "I", k |-> "INCLUDE", p |-> <<name, extra..>>, *)
(* a |-> annotation].  How a name written in file f resolves is given by   *)
(* the constant operator ResolveName(f, name) (the MC module supplies the  *)
(* file-system layout):                                                    *)
(*    [cls |-> "ok",   file |-> id,   path |-> p]   a readable file        *)
(*    [cls |-> "isdir" | "notexist", path |-> p]    consulted, not a file  *)
(*    [cls |-> "empty" | "abs" | "dots" | "backslash"]  refused by name    *)
(*                                                                         *)
(* S == [cur |-> [f, i]       current file and token index                 *)
(*       stack                scannersStack: <<[f, i, depth]>> includer,   *)
(*                            INCLUDE token, explicit depth at the push    *)
(*       T                    the tree (Tree.tla); nodes carry file, trace *)
(*                            (chain of INCLUDEs through which the         *)
(*                            directive was reached, innermost first) and  *)
(*                            qtrace (what the tracer cache of the code    *)
(*                            hands out -- see QuirkTracerCache)           *)
(*       cache                includeTracers: includer file -> trace       *)
(*       opened               paths handed to the OS, in order             *)
(*       cyc                  <<>> or the INCLUDE that closed a cycle       *)
(*       res, err             "run" | "ok" | "err";  err = [cls, f, i,     *)
(*                            trace, qtrace]                               *)
(*       steps ]              tokens processed (termination measure)       *)
(***************************************************************************)
EXTENDS Tree

CONSTANTS ResolveName(_, _),    \* see above
          Banned                \* set of banned directive kinds (C19); {} normally

\* Known deviation of the code (known_findings.json, C07): the tracer handed to a
\* new directive is cached under the name of the *including file on top of the
\* stack* only, so a directive reached through the 2nd INCLUDE written in a file
\* gets the trace captured for the 1st.  qtrace models that; trace is the truth.

RootFile == "root.jst"

\* directive.AppendParameter: URL and the HTTP methods take one Path parameter; a second one is an error
ParamFault(tok) == tok.k \in Methods \cup {"URL"} /\ Len(tok.p) >= 2

TraceOf(stack) == [j \in 1..Len(stack) |-> [f |-> stack[Len(stack) + 1 - j].f, i |-> stack[Len(stack) + 1 - j].i]]

RECURSIVE ExplDepthFrom(_, _)
ExplDepthFrom(T, c) == IF c = 0 THEN 0
                       ELSE (IF T.nodes[c].e THEN 1 ELSE 0) + ExplDepthFrom(T, T.nodes[c].parent)
ExplDepth(T) == ExplDepthFrom(T, T.ctx)

InitInc == [cur |-> [f |-> RootFile, i |-> 1], stack |-> <<>>, T |-> EmptyTree, cache |-> <<>>,
            opened |-> <<>>, cyc |-> <<>>, res |-> "run",
            err |-> [cls |-> "", f |-> "", i |-> 0, trace |-> <<>>, qtrace |-> <<>>], steps |-> 0]

IErr(S, cls, f, i, tr, qtr) == [S EXCEPT !.res = "err", !.err = [cls |-> cls, f |-> f, i |-> i, trace |-> tr, qtrace |-> qtr]]
\* scan-time errors carry the live scanner stack
LiveErr(S, cls) == IErr(S, cls, S.cur.f, S.cur.i, TraceOf(S.stack), TraceOf(S.stack))

BaseDepth(S) == IF S.stack = <<>> THEN 0 ELSE S.stack[Len(S.stack)].depth
OnStack(S, f) == \E j \in 1..Len(S.stack) : S.stack[j].f = f

CacheHas(S, k) == \E j \in 1..Len(S.cache) : S.cache[j].k = k
CacheGet(S, k) == S.cache[CHOOSE j \in 1..Len(S.cache) : S.cache[j].k = k].v

\* one token of the current file
IncStep(S, content) ==
  LET toks == content[S.cur.f]
      S1 == [S EXCEPT !.steps = @ + 1]
  IN
  IF S.cur.i > Len(toks)
  THEN \* ---- end of the current file
       IF ExplDepth(S.T) > BaseDepth(S) THEN LiveErr(S1, "unclosed")
       ELSE IF S.stack = <<>> THEN [S1 EXCEPT !.res = "ok"]
       ELSE LET top == S.stack[Len(S.stack)]
                inc == content[top.f][top.i]
                S2 == [S1 EXCEPT !.stack = SubSeq(@, 1, Len(@) - 1), !.cur = [f |-> top.f, i |-> top.i]]
            IN \* the rest of the INCLUDE line is scanned now: nothing may follow the file name
               IF Len(inc.p) > 1 THEN LiveErr(S2, "param")
               ELSE IF inc.a # "" THEN LiveErr(S2, "annotation")
               ELSE [S2 EXCEPT !.cur.i = top.i + 1]
  ELSE LET tok == toks[S.cur.i] IN
  IF tok.t = "X" THEN LiveErr(S1, "lexical")        \* a line the scanner rejects (a NUL byte, ...): met in scan order like everything else
  ELSE IF tok.t = "D"
  THEN IF tok.k \in Banned THEN LiveErr(S1, "notallowed")
       ELSE IF tok.k = "JSIGHT" /\ S.stack # <<>> THEN LiveErr(S1, "include-jsight")
       ELSE IF ParamFault(tok) THEN LiveErr(S1, "paramdup")      \* a second value for a named parameter, reported at scan time
       ELSE LET tr == TraceOf(S.stack)
                key == IF S.stack = <<>> THEN "" ELSE S.stack[Len(S.stack)].f
                qtr == IF S.stack = <<>> THEN <<>> ELSE IF CacheHas(S, key) THEN CacheGet(S, key) ELSE tr
                S2 == IF S.stack = <<>> \/ CacheHas(S, key) THEN S1
                      ELSE [S1 EXCEPT !.cache = Append(@, [k |-> key, v |-> tr])]
                d == [file |-> S.cur.f, ftok |-> S.cur.i, trace |-> tr, qtrace |-> qtr] @@ tok
                T1 == TreeStep(S.T, d, S.steps + 1)
            IN IF T1.res # "ok" THEN IErr(S2, T1.res, S.cur.f, S.cur.i, tr, qtr)
               ELSE [S2 EXCEPT !.T = T1, !.cur.i = @ + 1]
  ELSE IF tok.t = "C"
  THEN IF ExplDepth(S.T) <= BaseDepth(S) THEN LiveErr(S1, "noctx")     \* an included file cannot close the includer's context
       ELSE [S1 EXCEPT !.T = Close(S.T, S.steps + 1), !.cur.i = @ + 1]
  ELSE \* ---- INCLUDE
       IF "INCLUDE" \in Banned THEN LiveErr(S1, "notallowed")
       ELSE IF tok.p = <<>> THEN LiveErr(S1, "noparam")
       ELSE LET r == ResolveName(S.cur.f, tok.p[1]) IN
            IF r.cls \in {"empty", "abs", "dots", "backslash"} THEN LiveErr(S1, "badname")     \* refused before the file system is consulted
            ELSE LET S2 == [S1 EXCEPT !.opened = Append(@, r.path)] IN                          \* os.Stat
                 IF r.cls \in {"isdir", "notexist"} THEN LiveErr(S2, r.cls)
                 ELSE LET S3 == [S2 EXCEPT !.opened = Append(@, r.path),                        \* os.ReadFile
                                           \* the INCLUDE that closes a cycle (its target is the current file or an includer): this is
                                           \* where the property wants the recursion error; the code notices the cycle one lap later
                                           !.cyc = IF @ = <<>> /\ (r.file = S.cur.f \/ OnStack(S, r.file)) THEN <<[f |-> S.cur.f, i |-> S.cur.i]>> ELSE @] IN
                      IF OnStack(S, S.cur.f) THEN LiveErr(S3, "recursion")
                      ELSE [S3 EXCEPT !.stack = Append(@, [f |-> S.cur.f, i |-> S.cur.i, depth |-> ExplDepth(S.T)]),
                                      !.cur = [f |-> r.file, i |-> 1]]

RECURSIVE RunIncFrom(_, _)
RunIncFrom(S, content) == IF S.res # "run" THEN S ELSE RunIncFrom(IncStep(S, content), content)
RunInc(content) == RunIncFrom(InitInc, content)

\* The first TYPE whose name was already declared (a rule error of the build phase that
\* is located on a directive, possibly inside an included file).
DupTypeNode(T) ==
  LET dups == {j \in 1..Len(T.nodes) : T.nodes[j].k = "TYPE" /\ T.nodes[j].p # <<>> /\
                 \E x \in 1..(j - 1) : T.nodes[x].k = "TYPE" /\ T.nodes[x].p # <<>> /\ T.nodes[x].p[1] = T.nodes[j].p[1]}
  IN IF dups = {} THEN 0 ELSE CHOOSE j \in dups : \A x \in dups : j <= x

=============================================================================
