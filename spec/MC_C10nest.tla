---------------------------- MODULE MC_C10nest ----------------------------
(***************************************************************************)
(* C10 (nesting shapes): three macros -- a leaf @l, a middle macro @m and  *)
(* a top macro @t -- whose bodies are sequences of items from small menus: *)
(* PASTE of a lower macro on the top level of the body, plain directives,  *)
(* and directives (methods with their own path) that have a PASTE among    *)
(* their children.  The leaf is therefore pasted from several macros, at   *)
(* several depths of one expansion, in front of and behind other items of  *)
(* the pasting body.  Every expansion makes NEW copies: the expansion of   *)
(* one PASTE must not disturb the items that follow it in the pasting      *)
(* body, nor another expansion of the same macro.  Same invariants and     *)
(* same emission as MC_C10sites.                                           *)
(***************************************************************************)
EXTENDS Catalog, TLC, Json

CONSTANTS TopLen, MidLen,
          Wide      \* thorough tier: the whole menus

D(k, p, e, b, c) == [t |-> "D", k |-> k, p |-> p, a |-> "", e |-> e, b |-> b, c |-> c]
Resp(code) == D("RESP", <<"any">>, FALSE, "", code)
P(m) == D("PASTE", <<m>>, FALSE, "", "")

MidMenu ==
  [pl   |-> << P("@l") >>,
   r500 |-> << Resp("500") >>,
   r503 |-> << Resp("503") >>,
   hdr  |-> << Resp("502"), D("Headers", <<>>, FALSE, "hdr", "") >>]
TopMenu ==
  [pl    |-> << P("@l") >>,
   pm    |-> << P("@m") >>,
   r501  |-> << Resp("501") >>,
   postM |-> << D("POST", <<"pcats">>, FALSE, "", ""), Resp("200"), P("@m") >>,
   postL |-> << D("POST", <<"pkits">>, FALSE, "", ""), P("@l"), Resp("200") >>,
   del   |-> << D("DELETE", <<"pcats">>, FALSE, "", ""), Resp("204") >>,
   put   |-> << D("PUT", <<"pcats">>, FALSE, "", ""), Resp("201") >>]

TopItems == IF Wide THEN DOMAIN TopMenu ELSE DOMAIN TopMenu \ {"put"}
MidItems == IF Wide THEN DOMAIN MidMenu ELSE DOMAIN MidMenu \ {"hdr"}
SeqsFromTo(S, a, b) == UNION {[1..m -> S] : m \in a..b}

VARIABLES top, mid
vars == <<top, mid>>
UsesMid(t) == \E i \in 1..Len(t) : t[i] \in {"pm", "postM"}
\* (two levels, so that TLC's workers share the documents: all states of the first level are successors of the one initial state)
Init == top = <<>> /\ mid = <<>>
Next == \/ top = <<>> /\ top' \in SeqsFromTo(TopItems, 1, TopLen) /\ mid' = <<>>
        \/ top # <<>> /\ mid = <<>> /\ UNCHANGED top
           /\ mid' \in (IF UsesMid(top) THEN SeqsFromTo(MidItems, 1, MidLen) ELSE {<<"r500">>})
Spec == Init /\ [][Next]_vars
Chosen == top # <<>> /\ mid # <<>>

RECURSIVE Flat(_, _, _)
Flat(menu, s, i) == IF i > Len(s) THEN <<>> ELSE menu[s[i]] \o Flat(menu, s, i + 1)

doc == << D("MACRO", <<"@l">>, TRUE, "", ""), Resp("401"), Resp("404"), CloseTok,
          D("MACRO", <<"@m">>, TRUE, "", "") >> \o Flat(MidMenu, mid, 1) \o << CloseTok,
          D("MACRO", <<"@t">>, TRUE, "", "") >> \o Flat(TopMenu, top, 1) \o << CloseTok,
          D("GET", <<"pcats">>, FALSE, "", ""), Resp("200"), P("@t") >>

T == RunTree(doc)
X == Expand(T)
CM == CollectMacros(T)
Y == RunTree(InlineDoc(T, CM.macros))
TreeBuilds == T.res = "ok" /\ CM.res = "ok"
Transparent == (Chosen /\ TreeBuilds) =>
     /\ (X.res = "ok") = (Y.res = "ok")
     /\ (X.res = "ok" => Shape(X) = Shape(Y))
     /\ (X.res # "ok" => X.res = Y.res)
J == D("JSIGHT", <<"0.3">>, FALSE, "", "")
BM == Build(<<J>> \o doc)
BI == Build(<<J>> \o InlineDoc(T, CM.macros))
CatalogTransparent == (Chosen /\ TreeBuilds /\ X.res = "ok") => (BM.res = BI.res /\ BM.skel = BI.skel /\ (BM.res = "err" => BM.cls = BI.cls))
NoMacroNodes == (Chosen /\ X.res = "ok") => \A j \in 1..Len(X.nodes) : X.nodes[j].k \notin {"MACRO", "PASTE"}
\* the leaf is expanded once per PASTE that reaches it: the number of 401 responses in the expansion
Count401(Z) == Cardinality({j \in 1..Len(Z.nodes) : Z.nodes[j].k = "RESP" /\ Z.nodes[j].c = "401"})
LeafPastesIn(menu, s) == Cardinality({i \in 1..Len(s) : \E x \in 1..Len(menu[s[i]]) : menu[s[i]][x] = P("@l")})
MidPastes == Cardinality({i \in 1..Len(top) : top[i] \in {"pm", "postM"}})
EveryCopyThere == (Chosen /\ X.res = "ok") => Count401(X) = LeafPastesIn(TopMenu, top) + MidPastes * LeafPastesIn(MidMenu, mid)

ASSUME PrintT("L " \o ToJson(PoolsJson))
EmitInv == Chosen => PrintT("E " \o ToJson([doc |-> doc, tres |-> T.res,
             x |-> [res |-> X.res, errTok |-> X.errTok, shape |-> IF X.res = "ok" THEN Shape(X) ELSE <<>>],
             inl |-> IF TreeBuilds THEN [ok |-> TRUE, toks |-> InlineDoc(T, CM.macros)] ELSE [ok |-> FALSE, toks |-> <<>>]]))
=============================================================================
