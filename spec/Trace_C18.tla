----------------------------- MODULE Trace_C18 -----------------------------
(***************************************************************************)
(* V direction for C18: histories recorded from the real code under a      *)
(* concurrent stress driver (harness: vh conc-stress, built with -race).   *)
(* "base" events carry the result of every (project, accessor) when run    *)
(* alone; every "call" event of every goroutine must return exactly that,  *)
(* and the per-goroutine sequence numbers must increase.                   *)
(***************************************************************************)
EXTENDS TLC, TLCExt, Json, Sequences, Integers

Log == ndJsonDeserialize("trace_c18.ndjson")
VARIABLES l
Init == l = 1
Next == l <= Len(Log) /\ l' = l + 1
Spec == Init /\ [][Next]_l

EventOK == l <= Len(Log) =>
             LET e == Log[l] IN e.ev = "call" => e.digest = e.want
TraceAccepted == TLCGet("stats").diameter = Len(Log) + 1
=============================================================================
