SPECIFICATION Spec
CONSTANT Deep = TRUE
INVARIANT EmitInv
INVARIANT OrderIrrelevant
CHECK_DEADLOCK FALSE
