SPECIFICATION Spec
CONSTANT Deep = TRUE
INVARIANT EmitInv
INVARIANT OrderIrrelevant
INVARIANT BaseAccepted
CHECK_DEADLOCK FALSE
