---------------------------- MODULE MC_C01macro ----------------------------
(***************************************************************************)
(* C01, "time proportional to the input": a chain of macros each of which  *)
(* pastes its predecessor twice (a diamond).  By the language's own        *)
(* semantics (Macro.tla: PASTE stands for a copy of the macro's body) the  *)
(* expanded tree of the depth-n document has 2^n copies of the innermost   *)
(* body -- the model states it (ASSUME, small depths) -- so no expander    *)
(* that materialises the tree can be linear in the text.  The depths are   *)
(* emitted ("D" lines) and the real build is timed by the harness.         *)
(***************************************************************************)
EXTENDS Macro, Json

Dr(k, p, e, c) == [t |-> "D", k |-> k, p |-> p, a |-> "", e |-> e, b |-> "", c |-> c]
Cl == [t |-> "C", k |-> ")", p |-> <<>>, a |-> "", e |-> FALSE, b |-> "", c |-> ""]
MName(i) == "@m" \o ToString(i)

RECURSIVE Defs(_, _)
Defs(i, n) == IF i > n THEN <<>>
              ELSE <<Dr("MACRO", <<MName(i)>>, TRUE, ""), Dr("PASTE", <<MName(i - 1)>>, FALSE, ""), Dr("PASTE", <<MName(i - 1)>>, FALSE, ""), Cl>> \o Defs(i + 1, n)

DiamondDoc(n) == <<Dr("JSIGHT", <<"0.3">>, FALSE, ""), Dr("MACRO", <<MName(0)>>, TRUE, ""), Dr("RESP", <<"any">>, FALSE, "200"), Cl>>
                 \o Defs(1, n) \o <<Dr("GET", <<"pz">>, FALSE, ""), Dr("PASTE", <<MName(n)>>, FALSE, "")>>

RECURSIVE Pow2(_)
Pow2(n) == IF n = 0 THEN 1 ELSE 2 * Pow2(n - 1)
Responses(X) == Cardinality({j \in 1..Len(X.nodes) : X.nodes[j].k = "RESP"})

ModelDepths == 1..6
ASSUME \A n \in ModelDepths :
         LET T == RunTree(DiamondDoc(n))  X == Expand(T) IN
         /\ T.res = "ok" /\ X.res = "ok"
         /\ Len(DiamondDoc(n)) = 4 * n + 6                       \* the text grows linearly
         /\ Responses(X) = Pow2(n)                               \* the expanded tree doubles with every level

MeasuredDepths == {8, 12, 14, 16, 18, 20}
ASSUME \A n \in MeasuredDepths : PrintT("D " \o ToJson([depth |-> n, tokens |-> 4 * n + 6]))

VARIABLE x
Init == x = 0
Next == UNCHANGED x
Spec == Init /\ [][Next]_x
=============================================================================
