------------------------------ MODULE MC_C10 ------------------------------
(***************************************************************************)
(* C10: PASTE is transparent.  All documents of up to MaxLen tokens over a *)
(* menu built around MACRO / PASTE (two defined macro names, one undefined,*)
(* explicit and implicit contexts, nesting, definition after use, reuse,   *)
(* cycles of length 1 and 2 -- longer ones in the cycle configuration).    *)
(* For every document whose tree builds:                                   *)
(*   - undefined macro / PASTE cycle  =>  error, never an expansion;       *)
(*   - otherwise Expand(T) has the shape of the in-place document's tree,  *)
(*     and fails exactly when the in-place document fails.                 *)
(* Every document is emitted with both forms and the predicted expansion   *)
(* and replayed on the real scanProject + processPaste (tree compared) and *)
(* on the whole build (catalog of both forms compared).                    *)
(***************************************************************************)
EXTENDS Macro, Pools, TLC, Json

CONSTANTS MaxLen, Menu

VARIABLE doc
vars == <<doc>>

D(k, p, e, b, c) == [t |-> "D", k |-> k, p |-> p, a |-> "", e |-> e, b |-> b, c |-> c]

FullMenu ==
  { D("MACRO", <<"@m1">>, FALSE, "", ""), D("MACRO", <<"@m1">>, TRUE, "", ""),
    D("MACRO", <<"@m2">>, TRUE, "", ""),
    D("PASTE", <<"@m1">>, FALSE, "", ""), D("PASTE", <<"@m2">>, FALSE, "", ""),
    D("PASTE", <<"@m3">>, FALSE, "", ""),
    D("URL", <<"pa">>, FALSE, "", ""), D("URL", <<"pa">>, TRUE, "", ""),
    D("GET", <<>>, FALSE, "", ""), D("GET", <<"pb">>, FALSE, "", ""), D("POST", <<>>, TRUE, "", ""),
    D("RESP", <<"any">>, FALSE, "", "200"), D("RESP", <<"any">>, FALSE, "", "404"),
    D("Body", <<"any">>, FALSE, "", ""), D("Request", <<"any">>, FALSE, "", ""),
    D("Headers", <<>>, FALSE, "hdr", ""),
    D("ENUM", <<"@e1">>, FALSE, "en", ""), D("TYPE", <<"@t1", "any">>, FALSE, "", ""),
    CloseTok }

Init == doc = <<>>
Add == /\ Len(doc) < MaxLen
       /\ RunTree(doc).res \in {"ok", "unclosed"}       \* extend only prefixes the tree builder accepts
       /\ \E tk \in Menu : doc' = Append(doc, tk)
Next == Add
Spec == Init /\ [][Next]_vars

\* ---------------------------------------------------------------------------
T == RunTree(doc)
X == Expand(T)
CM == CollectMacros(T)
Acyclic == \A i \in 1..Len(CM.macros) : ~Cyclic(T, CM.macros, CM.macros[i].name)
AllDefined == \A j \in 1..Len(T.nodes) : T.nodes[j].k = "PASTE" => MacroNode(CM.macros, Name1(T.nodes[j])) # 0
\* PASTEs actually reached by the expansion of the non-macro roots use defined macros? (an
\* undefined name inside a macro that is never pasted is not an error)
InlineOK == T.res = "ok" /\ CM.res = "ok" /\ Acyclic /\ AllDefined
Y == RunTree(InlineDoc(T, CM.macros))

\* a PASTE cycle or an undefined macro that is reached is rejected, never expanded
CyclesRejected == (T.res = "ok" /\ CM.res = "ok" /\ ~Acyclic) => X.res \in {"recursion", "noparam"}
\* the expansion is the in-place document
DupEnum(Z) == \E i, j \in 1..Len(Z.nodes) : i < j /\ Z.nodes[i].k = "ENUM" /\ Z.nodes[j].k = "ENUM"
                                              /\ Name1(Z.nodes[i]) = Name1(Z.nodes[j])
Transparent == InlineOK =>
     IF X.res = "dupname"
     THEN Y.res = "ok" => DupEnum(Y)      \* ENUM rules are registered while pasting: the in-place
                                          \* document is rejected for the same reason one phase later
     ELSE /\ (X.res = "ok") = (Y.res = "ok")
          /\ (X.res = "ok" => Shape(X) = Shape(Y))
          /\ (X.res # "ok" => X.res = Y.res)
\* MACRO definitions contribute nothing
NoMacroNodes == X.res = "ok" => \A j \in 1..Len(X.nodes) : X.nodes[j].k \notin {"MACRO", "PASTE"}

ASSUME PrintT("L " \o ToJson(PoolsJson))

Emit == RunTree(doc').res = "ok" => PrintT("E " \o ToJson([doc |-> doc', tres |-> RunTree(doc').res,
          x |-> LET T1 == RunTree(doc')  X1 == Expand(T1) IN
                [res |-> X1.res, errTok |-> X1.errTok,
                 shape |-> IF X1.res = "ok" THEN Shape(X1) ELSE <<>>],
          inl |-> LET T1 == RunTree(doc')  C1 == CollectMacros(T1) IN
                  IF T1.res = "ok" /\ C1.res = "ok"
                     /\ (\A i \in 1..Len(C1.macros) : ~Cyclic(T1, C1.macros, C1.macros[i].name))
                     /\ (\A j \in 1..Len(T1.nodes) : T1.nodes[j].k = "PASTE" => MacroNode(C1.macros, Name1(T1.nodes[j])) # 0)
                  THEN [ok |-> TRUE, toks |-> InlineDoc(T1, C1.macros)] ELSE [ok |-> FALSE, toks |-> <<>>]]))
=============================================================================
