SPECIFICATION Spec
CONSTANT W = 16
INVARIANT NoFileTwice
INVARIANT OpenedInside
INVARIANT RecursionSound
INVARIANT Terminates
INVARIANT Emit
CHECK_DEADLOCK FALSE
