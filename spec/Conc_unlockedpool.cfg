SPECIFICATION Spec
CONSTANTS
 G = {"g1", "g2"}
 PoolLocked = FALSE
 FastPath = FALSE
INVARIANT Sequential
CHECK_DEADLOCK FALSE
