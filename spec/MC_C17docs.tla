----------------------------- MODULE MC_C17docs -----------------------------
(***************************************************************************)
(* C17 on the document model: for every accepted document of the block     *)
(* model the OpenAPI skeleton OAS(C) is computed; invariant Sound states    *)
(* the property on it; each document is emitted with its skeleton and the  *)
(* real ToOpenAPIJson output is projected onto it.                         *)
(***************************************************************************)
EXTENDS Blocks, OpenAPI, Json

CONSTANTS MaxBlocks, Prelude
PreludeNone == <<>>
PreludeDeps == <<"tag1", "tag2", "t1", "t2", "t5", "e1", "mac">>
VARIABLES bs, pre
vars == <<bs, pre>>
Init == bs = <<>> /\ pre \in (IF Prelude = <<>> THEN {"none"} ELSE {"none", "before", "after"})
InPrelude(b) == \E i \in 1..Len(Prelude) : Prelude[i] = b
Next == /\ Len(bs) < MaxBlocks
        /\ \E b \in BlockIds : (\A i \in 1..Len(bs) : bs[i] # b) /\ (pre # "none" => ~InPrelude(b)) /\ bs' = Append(bs, b)
        /\ UNCHANGED pre
Spec == Init /\ [][Next]_vars
Seq3(b, q) == CASE q = "none" -> b [] q = "before" -> Prelude \o b [] q = "after" -> b \o Prelude

Doc == DocOf(Seq3(bs, pre))
T == RunTree(Doc)
X == Expand(T)
C == RunCatalog(T, X)
Accepted == T.res = "ok" /\ C.res = "ok"
C17 == Accepted => Sound(C)

ASSUME PrintT("L " \o ToJson(PoolsJson))
EmitInv == Accepted => PrintT("E " \o ToJson([blocks |-> Seq3(bs, pre), doc |-> Doc, oas |-> OAS(C)]))
=============================================================================
