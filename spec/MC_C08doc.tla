----------------------------- MODULE MC_C08doc -----------------------------
(***************************************************************************)
(* C08 (document level): an explicit '( )' context versus the equivalent   *)
(* implicit one.  For every document of the block model the "explicit      *)
(* closure" -- every directive that has children opens '(' and closes ')'  *)
(* after its last descendant -- must build the same tree (explicit flags   *)
(* aside) and the same catalog.                                            *)
(***************************************************************************)
EXTENDS Blocks, Json

CONSTANT MaxBlocks
VARIABLE bs
Init == bs = <<>>
Next == Len(bs) < MaxBlocks /\ \E b \in BlockIds : (\A i \in 1..Len(bs) : bs[i] # b) /\ bs' = Append(bs, b)
Spec == Init /\ [][Next]_bs

RECURSIVE ClosureNode(_, _), ClosureList(_, _, _)
ClosureNode(T, j) ==
  LET n == T.nodes[j]  ks == Kids(T, j)
      tk == [t |-> "D", k |-> n.k, p |-> n.p, a |-> n.a, e |-> (n.e \/ (ks # <<>> /\ n.k \notin NoExplicit)), b |-> n.b, c |-> n.c]
  IN <<tk>> \o ClosureList(T, ks, 1) \o (IF tk.e THEN <<CloseTok>> ELSE <<>>)
ClosureList(T, js, i) == IF i > Len(js) THEN <<>> ELSE ClosureNode(T, js[i]) \o ClosureList(T, js, i + 1)
Closure(toks) == LET T == RunTree(toks) IN IF T.res # "ok" THEN toks ELSE ClosureList(T, Kids(T, 0), 1)

NoE(X) == [j \in 1..Len(X.nodes) |-> [k |-> X.nodes[j].k, p |-> X.nodes[j].p, a |-> X.nodes[j].a, b |-> X.nodes[j].b, c |-> X.nodes[j].c, parent |-> X.nodes[j].parent]]
Doc == DocOf(bs)
SameTree == RunTree(Doc).res = "ok" => /\ RunTree(Closure(Doc)).res = "ok"
                                       /\ NoE(RunTree(Closure(Doc))) = NoE(RunTree(Doc))
SameCatalog == LET a == Build(Doc)  b == Build(Closure(Doc)) IN a.res = b.res /\ a.cls = b.cls /\ a.skel = b.skel

ASSUME PrintT("L " \o ToJson(PoolsJson))
Emit == PrintT("E " \o ToJson([blocks |-> bs', doc |-> DocOf(bs'), closure |-> Closure(DocOf(bs')), x |-> Build(DocOf(bs'))]))
=============================================================================
