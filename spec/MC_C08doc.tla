----------------------------- MODULE MC_C08doc -----------------------------
(***************************************************************************)
(* C08 (document level): an explicit '( )' context versus the equivalent   *)
(* implicit one.  For every document of the block model the "explicit      *)
(* closure" -- every directive that has children opens '(' and closes ')'  *)
(* after its last descendant -- must build the same tree (explicit flags   *)
(* aside) and the same catalog.                                            *)
(***************************************************************************)
EXTENDS Blocks, Json

CONSTANT MaxBlocks
VARIABLE bs
Init == bs = <<>>
Next == Len(bs) < MaxBlocks /\ \E b \in BlockIds : (\A i \in 1..Len(bs) : bs[i] # b) /\ bs' = Append(bs, b)
Spec == Init /\ [][Next]_bs

\* M: the nodes that are made explicit (in addition to those that already are)
RECURSIVE ClosureNode(_, _, _), ClosureList(_, _, _, _)
ClosureNode(T, M, j) ==
  LET n == T.nodes[j]  ks == Kids(T, j)
      tk == [t |-> "D", k |-> n.k, p |-> n.p, a |-> n.a, e |-> (n.e \/ j \in M), b |-> n.b, c |-> n.c]
  IN <<tk>> \o ClosureList(T, M, ks, 1) \o (IF tk.e THEN <<CloseTok>> ELSE <<>>)
ClosureList(T, M, js, i) == IF i > Len(js) THEN <<>> ELSE ClosureNode(T, M, js[i]) \o ClosureList(T, M, js, i + 1)
\* directives with children, and directives that only carry a body (the '( )' then frames the body)
CanOpen(T) == {j \in 1..Len(T.nodes) : (Kids(T, j) # <<>> \/ T.nodes[j].b # "") /\ T.nodes[j].k \notin NoExplicit /\ ~T.nodes[j].e}
\* the full closure first, then every single directive made explicit on its own (an explicit context next to implicit siblings)
RECURSIVE Singles(_, _)
Singles(T, j) == IF j > Len(T.nodes) THEN <<>> ELSE (IF j \in CanOpen(T) THEN <<{j}>> ELSE <<>>) \o Singles(T, j + 1)
Masks(T) == <<CanOpen(T)>> \o Singles(T, 1)
Closures(toks) == LET T == RunTree(toks) IN
                  IF T.res # "ok" THEN <<toks>> ELSE [m \in 1..Len(Masks(T)) |-> ClosureList(T, Masks(T)[m], Kids(T, 0), 1)]

NoE(X) == [j \in 1..Len(X.nodes) |-> [k |-> X.nodes[j].k, p |-> X.nodes[j].p, a |-> X.nodes[j].a, b |-> X.nodes[j].b, c |-> X.nodes[j].c, parent |-> X.nodes[j].parent]]
Doc == DocOf(bs)
SameTree == RunTree(Doc).res = "ok" => \A m \in 1..Len(Closures(Doc)) :
                                          /\ RunTree(Closures(Doc)[m]).res = "ok"
                                          /\ NoE(RunTree(Closures(Doc)[m])) = NoE(RunTree(Doc))
SameCatalog == LET a == Build(Doc) IN \A m \in 1..Len(Closures(Doc)) :
                 LET b == Build(Closures(Doc)[m]) IN a.res = b.res /\ a.cls = b.cls /\ a.skel = b.skel

\* the nesting of the expanded tree (what the MACRO/PASTE pass must produce), as text: kind(children) kind ...
RECURSIVE ShapeList(_, _, _), ShapeNode(_, _)
ShapeNode(X, j) == IF X.nodes[j].k = "MACRO" THEN ""
                   ELSE LET ks == Kids(X, j) IN X.nodes[j].k \o (IF ks = <<>> THEN "" ELSE "(" \o ShapeList(X, ks, 1) \o ")") \o " "
ShapeList(X, js, i) == IF i > Len(js) THEN "" ELSE ShapeNode(X, js[i]) \o ShapeList(X, js, i + 1)
XShape(toks) == LET T == RunTree(toks)  X == Expand(T) IN
                IF T.res = "ok" THEN (IF X.res = "ok" THEN ShapeList(X, Kids(X, 0), 1) ELSE "-") ELSE "-"

ASSUME PrintT("L " \o ToJson(PoolsJson))
Emit == PrintT("E " \o ToJson([blocks |-> bs', doc |-> DocOf(bs'), closures |-> Closures(DocOf(bs')), x |-> Build(DocOf(bs')),
                               xshape |-> XShape(DocOf(bs'))]))
=============================================================================
